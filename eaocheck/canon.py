"""Canonicalisation applied to every module before any rule sees it.

inline_adjacent_temps:  t = E            (t a plain local, assigned here and nowhere else in the function,
                        <stmt using t>    read exactly once, in the statement that follows immediately)
                    ->  <stmt with E in place of t>

This undoes the extract-variable refactoring (`_h = np.hstack((c, new)); c = _h`) for all rules at once, so that a rule that
matches the shape of a statement does not depend on whether its author spelled a sub-expression inline or gave it a
name on the line before.  Nothing can happen between the two statements, so the value is the same; the inlined nodes keep their
own line numbers.  The use must not sit inside a lambda / comprehension / nested function (evaluated later or repeatedly) nor
in the test of a `while`.
"""
from __future__ import annotations
import ast

_SIMPLE = (ast.Assign, ast.AugAssign, ast.AnnAssign, ast.Return, ast.Expr, ast.Assert, ast.Raise)
_LATE = (ast.Lambda, ast.ListComp, ast.SetComp, ast.DictComp, ast.GeneratorExp, ast.FunctionDef, ast.AsyncFunctionDef, ast.ClassDef)


def _name_counts(fn) -> dict:
    """name -> [stores, loads] over the whole function including nested scopes (conservative)."""
    out = {}
    for n in ast.walk(fn):
        if isinstance(n, ast.Name):
            c = out.setdefault(n.id, [0, 0])
            if isinstance(n.ctx, ast.Load):
                c[1] += 1
            else:
                c[0] += 1
        elif isinstance(n, ast.arg):
            out.setdefault(n.arg, [0, 0])[0] += 1
        elif isinstance(n, (ast.Global, ast.Nonlocal)):
            for x in n.names:
                out.setdefault(x, [0, 0])[0] += 2
        elif isinstance(n, ast.ExceptHandler) and n.name:
            out.setdefault(n.name, [0, 0])[0] += 1
    return out


def _eager_uses(root, name):
    """Load occurrences of `name` in the eagerly, once-evaluated part of a statement / header expression."""
    found = []
    stack = [root]
    while stack:
        n = stack.pop()
        if isinstance(n, _LATE):
            # anything inside is evaluated later / repeatedly; an occurrence there blocks the inlining
            if any(isinstance(x, ast.Name) and x.id == name for x in ast.walk(n)):
                found.append(None)
            continue
        if isinstance(n, ast.Name) and n.id == name and isinstance(n.ctx, ast.Load):
            found.append(n)
        stack.extend(ast.iter_child_nodes(n))
    return found


class _Replace(ast.NodeTransformer):
    def __init__(self, target, value):
        self.target, self.value = target, value

    def visit_Name(self, node):
        return self.value if node is self.target else node


def _header_exprs(st):
    """expressions of a compound statement that are evaluated exactly once, before its body."""
    if isinstance(st, ast.If):
        return [st.test]
    if isinstance(st, ast.For):
        return [st.iter]
    if isinstance(st, ast.With):
        return [i.context_expr for i in st.items]
    return []


def _inline_block(stmts, counts) -> int:
    done = 0
    i = 0
    while i + 1 < len(stmts):
        a, b = stmts[i], stmts[i + 1]
        ok = isinstance(a, ast.Assign) and len(a.targets) == 1 and isinstance(a.targets[0], ast.Name)
        if ok:
            t = a.targets[0].id
            c = counts.get(t, [0, 0])
            ok = c[0] == 1 and c[1] == 1 and not any(isinstance(x, (ast.Yield, ast.YieldFrom, ast.Await, ast.NamedExpr)) for x in ast.walk(a.value))
        if ok:
            roots = [b] if isinstance(b, _SIMPLE) else _header_exprs(b)
            uses = [u for r in roots for u in _eager_uses(r, t)]
            if len(uses) == 1 and uses[0] is not None:
                rep = _Replace(uses[0], a.value)
                if isinstance(b, _SIMPLE):
                    stmts[i + 1] = rep.visit(b)
                elif isinstance(b, ast.If):
                    b.test = rep.visit(b.test)
                elif isinstance(b, ast.For):
                    b.iter = rep.visit(b.iter)
                elif isinstance(b, ast.With):
                    for it in b.items:
                        it.context_expr = rep.visit(it.context_expr)
                del stmts[i]
                counts.pop(t, None)
                done += 1
                i = max(i - 1, 0)       # a chain of temporaries collapses step by step
                continue
        i += 1
    return done


def _blocks(node):
    for field in ("body", "orelse", "finalbody"):
        v = getattr(node, field, None)
        if isinstance(v, list) and v and isinstance(v[0], ast.stmt):
            yield v
    if isinstance(node, ast.Try):
        for h in node.handlers:
            yield h.body
    if hasattr(ast, "Match") and isinstance(node, getattr(ast, "Match")):
        for c in node.cases:
            yield c.body


def inline_adjacent_temps(tree) -> int:
    total = 0
    for fn in [n for n in ast.walk(tree) if isinstance(n, (ast.FunctionDef, ast.AsyncFunctionDef))]:
        counts = _name_counts(fn)
        changed = True
        while changed:
            changed = False
            stack = [fn]
            while stack:
                n = stack.pop()
                for blk in _blocks(n):
                    k = _inline_block(blk, counts)
                    if k:
                        total += k
                        changed = True
                    for st in blk:
                        if not isinstance(st, (ast.FunctionDef, ast.AsyncFunctionDef, ast.ClassDef)):
                            stack.append(st)
    return total


_MIRROR = {ast.Lt: ast.Gt, ast.Gt: ast.Lt, ast.LtE: ast.GtE, ast.GtE: ast.LtE, ast.Eq: ast.Eq, ast.NotEq: ast.NotEq}


def _rank(e) -> int:
    """which operand of a comparison is written first in the canonical form: a column / key selection x['name'] before anything
    else, a literal last."""
    if isinstance(e, ast.Subscript) and isinstance(e.slice, ast.Constant) and isinstance(e.slice.value, str):
        return 0
    if isinstance(e, ast.Constant) or (isinstance(e, ast.UnaryOp) and isinstance(e.operand, ast.Constant)):
        return 2
    return 1


def mirror_comparisons(tree) -> int:
    """`'d' == m['type']` -> `m['type'] == 'd'`, `0 < x` -> `x > 0`, `a.name == m['asset']` -> `m['asset'] == a.name`: one spelling of a
    single-operator comparison for all rules (the operands of such a comparison in this package are names, attributes, subscripts,
    literals and numpy / pandas expressions: evaluating them in the other order gives the same values)."""
    n = 0
    for c in ast.walk(tree):
        if isinstance(c, ast.Compare) and len(c.ops) == 1 and type(c.ops[0]) in _MIRROR and _rank(c.left) > _rank(c.comparators[0]):
            c.left, c.comparators[0] = c.comparators[0], c.left
            c.ops[0] = _MIRROR[type(c.ops[0])]()
            n += 1
    return n


# ---------------------------------------------------------------------------------------------------------------- call spelling
_AMBIGUOUS = {"get", "to_json", "node_names"}      # also methods of dict / pandas objects: the callee is not known by its name
_FOREIGN = ("np", "pd", "sp", "CVX", "dt", "math", "json", "os")


def collect_signatures(trees) -> dict:
    """name -> parameter list (without self) for every function / method / class (its __init__) of the package whose name has ONE
    parameter list in the whole package: for those a call site determines its callee's parameters without type information."""
    sigs, clash = {}, set(_AMBIGUOUS)

    def add(name, fn):
        a = fn.args
        if a.vararg or a.posonlyargs:
            clash.add(name)
            return
        params = [x.arg for x in a.args]
        if params and params[0] in ("self", "cls"):
            params = params[1:]
        if name in sigs and sigs[name] != params:
            clash.add(name)
        sigs[name] = params
    for tree in trees:
        for n in ast.walk(tree):
            if isinstance(n, ast.ClassDef):
                for m in n.body:
                    if isinstance(m, ast.FunctionDef) and m.name == "__init__":
                        add(n.name, m)
            if isinstance(n, ast.FunctionDef) and not n.name.startswith("__"):
                add(n.name, n)
    for k in clash:
        sigs.pop(k, None)
    return sigs


SIGS = {}        # signatures of the program loaded last (one program per process at a time)


def pos_args(call) -> list:
    """The arguments of a call in positional order as far as they can be told: the positional ones, followed by the keyword arguments
    that continue the callee's parameter list without a gap (callee known by collect_signatures)."""
    out = list(call.args)
    f = call.func
    name = f.attr if isinstance(f, ast.Attribute) else (f.id if isinstance(f, ast.Name) else None)
    params = SIGS.get(name)
    if params is None or any(isinstance(a, ast.Starred) for a in out):
        return out
    kws = {k.arg: k.value for k in call.keywords if k.arg is not None}
    for q in params[len(out):]:
        if q not in kws:
            break
        out.append(kws[q])
    return out


def keyword_arguments(tree, sigs) -> int:
    """`f(a, b, k=c)` -> `f(p1=a, p2=b, k=c)` for calls whose callee's parameters are known (collect_signatures): one spelling of a
    call for all rules - a rule that asks for the grid handed to set_timegrid finds it whether it was passed by position or by name.
    Evaluation order of the arguments is unchanged (positional arguments come first either way)."""
    n = 0
    for c in ast.walk(tree):
        if not isinstance(c, ast.Call) or not c.args:
            continue
        f = c.func
        name = f.attr if isinstance(f, ast.Attribute) else (f.id if isinstance(f, ast.Name) else None)
        if isinstance(f, ast.Attribute) and isinstance(f.value, ast.Name) and f.value.id in _FOREIGN:
            continue
        params = sigs.get(name)
        if params is None or any(isinstance(a, ast.Starred) for a in c.args) or len(c.args) > len(params) or any(k.arg is None for k in c.keywords):
            continue
        new = []
        for i, a in enumerate(c.args):
            kw = ast.keyword(arg=params[i], value=a)
            ast.copy_location(kw, a)
            new.append(kw)
        c.keywords = new + c.keywords
        c.args = []
        n += 1
    return n
