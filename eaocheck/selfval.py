"""Self-validation of the checker (thorough tier; DESIGN section 5.4).  Never changes the exit code of a check.

Three experiments, each on a scratch copy of eaopack under tempfile.mkdtemp() (outside /repo and /verif, deleted afterwards):

  pinned      the package as of the pinned commit (before any `fix:` commit), taken from /repo's own history: every entry of
              known_findings.jsonl with status "fixed" that belongs to the property must be reported there again
              ("reports the violation again if it ever returns")
  breakers    one change per scratch copy that breaks the property while keeping the package importable: the independently
              seeded changes of /verif/seeded/*/patch.diff plus the hand-written text mutants of selftest/breakers.py.
              The property's check must report a VIOLATION (of the expected rule where one is named).
  neutral     behaviour-preserving transformations of the whole package (ast.unparse round trip = all formatting, comments
              and line numbers change; consistent renaming of function-local variables; inserted no-op statements and
              docstrings; reversed order of method definitions): the check must not report anything new.

A mutant that is not reported is printed as `SELFTEST-WEAK ...`; a neutral twin that is reported as `SELFTEST-FALSE-ALARM ...`.
"""
from __future__ import annotations
import ast
import glob
import json
import os
import shutil
import subprocess
import tempfile
import builtins

from . import tables
from .report import load_known, match_known, VIOLATED, VERIF_DIR

PINNED_COMMIT = "17f06ab"


def _run(prop, root):
    from .__main__ import run_property
    out, prog, rr = run_property(prop, "quick", root)
    known = load_known()
    new, listed = out.violations(known)
    return out, new, listed


def _copy_pkg(src_root, dst_root):
    os.makedirs(dst_root, exist_ok=True)
    shutil.copytree(os.path.join(src_root, "eaopack"), os.path.join(dst_root, "eaopack"),
                    ignore=shutil.ignore_patterns("__pycache__", "*.pyc"))


# ------------------------------------------------------------------------------------------------ pinned regression
def _export_tree(repo, commit, tmp):
    os.makedirs(os.path.join(tmp, "eaopack"))
    ls = subprocess.run(["git", "-C", repo, "ls-tree", "--name-only", commit, "eaopack/"], capture_output=True, text=True)
    if ls.returncode != 0:
        return False
    for f in ls.stdout.split():
        blob = subprocess.run(["git", "-C", repo, "show", "%s:%s" % (commit, f)], capture_output=True)
        with open(os.path.join(tmp, f), "wb") as fh:
            fh.write(blob.stdout)
    return True


def pinned_regression(prop, repo):
    """Every `fixed` finding must be reported again on the tree it was found on: the pinned commit, or - for a defect that an
    earlier defect masked there - the commit named in its `regress_at` field (the parent of its fix)."""
    from .rules import load_all
    load_all()      # the rule -> property table is filled by the rule modules
    res = {"commit": PINNED_COMMIT, "expected": 0, "reported": 0, "missing": []}
    fixed = [k for k in load_known() if k.get("status") == "fixed" and prop in tables.serves(k.get("rule", ""))]
    res["expected"] = len(fixed)
    if not fixed:
        return res
    by_commit = {}
    for k in fixed:
        by_commit.setdefault(k.get("regress_at", PINNED_COMMIT), []).append(k)
    for commit, ks in sorted(by_commit.items()):
        tmp = tempfile.mkdtemp(prefix="eaocheck_pinned_")
        try:
            if not _export_tree(repo, commit, tmp):
                res["skipped"] = "commit %s not reachable in %s" % (commit, repo)
                continue
            out, new, listed = _run(prop, tmp)
            keys = {o.key for o in out.obs if o.verdict == VIOLATED}
            for k in ks:
                if k["key"] in keys:
                    res["reported"] += 1
                else:
                    res["missing"].append(k["key"])
            if out.error:
                res["analysis_error"] = out.error
        finally:
            shutil.rmtree(tmp, ignore_errors=True)
    return res


# ------------------------------------------------------------------------------------------------ breakers
def _seeded(prop):
    out = []
    for meta_p in sorted(glob.glob(os.path.join(VERIF_DIR, "seeded", "*", "meta.json"))):
        try:
            m = json.load(open(meta_p))
        except Exception:
            continue
        if m.get("retired"):
            continue          # a later repair of /repo rewrote the lines the change edits
        det = m.get("detected_by", "")
        props = {x.split("[")[0] for x in det.split() if "ANALYSIS-ERROR" not in x}
        if prop in props or m.get("breaks_property") == prop:
            out.append(("seeded/" + m["id"], os.path.join(os.path.dirname(meta_p), "patch.diff"), None))
    return out


def breakers(prop, repo):
    from .selftest.breakers import MUTANTS
    res = {"applied": 0, "killed": 0, "weak": [], "not_applicable": []}
    jobs = []
    for name, patch, _ in _seeded(prop):
        jobs.append((name, "patch", patch, None))
    for m in MUTANTS:
        if prop in m["props"]:
            jobs.append(("mutant/" + m["name"], "text", m, m.get("rule")))
    for name, kind, payload, rule_id in jobs:
        tmp = tempfile.mkdtemp(prefix="eaocheck_mut_")
        try:
            _copy_pkg(repo, tmp)
            ok = False
            if kind == "patch":
                r = subprocess.run(["patch", "-p1", "-s", "--no-backup-if-mismatch", "-i", payload], cwd=tmp, capture_output=True, text=True)
                ok = r.returncode == 0
            else:
                path = os.path.join(tmp, "eaopack", payload["file"])
                src = open(path).read()
                if src.count(payload["old"]) >= 1:
                    src = src.replace(payload["old"], payload["new"], 1)
                    try:
                        ast.parse(src)
                        open(path, "w").write(src)
                        ok = True
                    except SyntaxError:
                        ok = False
            if not ok:
                res["not_applicable"].append(name)
                continue
            res["applied"] += 1
            out, new, listed = _run(prop, tmp)
            hit = [o for o, _ in new if (rule_id is None or o.rule == rule_id)]
            if hit:
                res["killed"] += 1
            else:
                res["weak"].append(name + ("" if not out.error else " (analysis error: %s)" % out.error[:80]))
                print("SELFTEST-WEAK property=%s mutant=%s%s" % (prop, name, (" expected_rule=%s" % rule_id) if rule_id else ""))
        finally:
            shutil.rmtree(tmp, ignore_errors=True)
    return res


# ------------------------------------------------------------------------------------------------ neutral twins
class _RenameLocals(ast.NodeTransformer):
    """Consistently rename every function-local (non-parameter, non-global) variable of every function."""

    def _locals(self, fn):
        params = {a.arg for a in fn.args.posonlyargs + fn.args.args + fn.args.kwonlyargs}
        if fn.args.vararg:
            params.add(fn.args.vararg.arg)
        if fn.args.kwarg:
            params.add(fn.args.kwarg.arg)
        stored, nonlocal_ = set(), set()
        for n in ast.walk(fn):
            if isinstance(n, (ast.Global, ast.Nonlocal)):
                nonlocal_.update(n.names)
        # names stored in this function, excluding nested functions' own scopes (they are handled when visited)
        stack = list(fn.body)
        while stack:
            n = stack.pop()
            if isinstance(n, (ast.FunctionDef, ast.AsyncFunctionDef, ast.Lambda, ast.ClassDef)):
                if isinstance(n, (ast.FunctionDef, ast.AsyncFunctionDef, ast.ClassDef)):
                    pass  # the def name itself stays (it may be called by name)
                continue
            if isinstance(n, ast.Name) and isinstance(n.ctx, (ast.Store, ast.Del)):
                stored.add(n.id)
            if isinstance(n, (ast.ListComp, ast.SetComp, ast.DictComp, ast.GeneratorExp)):
                pass
            stack.extend(ast.iter_child_nodes(n))
        return {x for x in stored if x not in params and x not in nonlocal_ and not x.startswith("__")}

    @staticmethod
    def _params(fn):
        a = fn.args
        out = {x.arg for x in a.posonlyargs + a.args + a.kwonlyargs}
        if a.vararg:
            out.add(a.vararg.arg)
        if a.kwarg:
            out.add(a.kwarg.arg)
        return out

    def _rename(self, node, mapping):
        for child in ast.iter_child_nodes(node):
            self._rename_node(child, mapping)

    def _rename_node(self, n, mapping):
        """Scope-aware: inside a nested function / lambda its own parameters shadow the outer names."""
        if not mapping:
            return
        if isinstance(n, (ast.FunctionDef, ast.AsyncFunctionDef, ast.Lambda)):
            inner = {k: v for k, v in mapping.items() if k not in self._params(n)}
            for d in list(n.args.defaults) + [x for x in n.args.kw_defaults if x is not None]:
                self._rename_node(d, mapping)       # defaults are evaluated in the enclosing scope
            body = n.body if isinstance(n.body, list) else [n.body]
            for b in body:
                self._rename_node(b, inner)
            return
        if isinstance(n, ast.Name) and n.id in mapping:
            n.id = mapping[n.id]
        elif isinstance(n, ast.ExceptHandler) and n.name in mapping:
            n.name = mapping[n.name]
        self._rename(n, mapping)

    def _rename_expr(self, n, mapping):
        self._rename_node(n, mapping)

    def visit_FunctionDef(self, node):
        loc = self._locals(node)
        mapping = {x: x + "_rn" for x in loc if not hasattr(builtins, x + "_rn")}
        for b in node.body:
            self._rename_node(b, mapping)
        return node

    visit_AsyncFunctionDef = visit_FunctionDef


class _InsertNoops(ast.NodeTransformer):
    def visit_FunctionDef(self, node):
        self.generic_visit(node)
        has_doc = node.body and isinstance(node.body[0], ast.Expr) and isinstance(node.body[0].value, ast.Constant) and isinstance(node.body[0].value.value, str)
        extra = [ast.Pass()]
        if not has_doc:
            node.body = [ast.Expr(ast.Constant("inserted docstring"))] + extra + node.body
        else:
            node.body = [node.body[0]] + extra + node.body[1:]
        return node

    visit_AsyncFunctionDef = visit_FunctionDef


class _ReverseMethods(ast.NodeTransformer):
    def visit_ClassDef(self, node):
        self.generic_visit(node)
        defs = [n for n in node.body if isinstance(n, (ast.FunctionDef, ast.AsyncFunctionDef))]
        others = [n for n in node.body if not isinstance(n, (ast.FunctionDef, ast.AsyncFunctionDef))]
        node.body = others + list(reversed(defs))
        return node


class _HoistSomeValues(ast.NodeTransformer):
    """Extract-variable refactoring on a random subset of statements: `tgt = expr` -> `_hN = expr; tgt = _hN`, `return expr` ->
    `_hN = expr; return _hN`.  The right-hand side is evaluated before anything of the target, so the order of evaluation is
    unchanged."""
    SHARE = 0.15

    def __init__(self, seed=1):
        import random
        self.rnd = random.Random(seed)
        self.n = 0

    def _block(self, stmts):
        out = []
        for st in stmts:
            st = self.visit(st)
            take = False
            if isinstance(st, ast.Assign) and len(st.targets) == 1 and not isinstance(st.value, (ast.Name, ast.Constant)) \
                    and not isinstance(st.targets[0], (ast.Tuple, ast.List)):
                take = True
            elif isinstance(st, ast.Return) and st.value is not None and not isinstance(st.value, (ast.Name, ast.Constant)):
                take = True
            if take and self.rnd.random() < self.SHARE:
                self.n += 1
                nm = "_h%d" % self.n
                out.append(ast.Assign(targets=[ast.Name(id=nm, ctx=ast.Store())], value=st.value))
                st.value = ast.Name(id=nm, ctx=ast.Load())
            out.append(st)
        return out

    def generic_visit(self, node):
        for field in ("body", "orelse", "finalbody"):
            v = getattr(node, field, None)
            if isinstance(v, list) and v and isinstance(v[0], ast.stmt):
                if isinstance(node, (ast.Module, ast.ClassDef)):
                    setattr(node, field, [self.visit(x) for x in v])     # only inside functions
                else:
                    setattr(node, field, self._block(v))
        if isinstance(node, ast.Try):
            for h in node.handlers:
                h.body = self._block(h.body)
        return node


class _HoistSomeValues2(_HoistSomeValues):
    def __init__(self):
        super().__init__(seed=2)


class _SwapSomeIfArms(ast.NodeTransformer):
    """`if c: A else: B` -> `if not c: B else: A` on a random subset of two-armed ifs (no elif chains)."""
    SHARE = 0.3

    def __init__(self, seed=3):
        import random
        self.rnd = random.Random(seed)

    def visit_If(self, node):
        self.generic_visit(node)
        if node.orelse and not (len(node.orelse) == 1 and isinstance(node.orelse[0], ast.If)) and self.rnd.random() < self.SHARE:
            node.test = ast.UnaryOp(op=ast.Not(), operand=node.test)
            node.body, node.orelse = node.orelse, node.body
        return node


class _SwapIndependentNeighbours(ast.NodeTransformer):
    """Swap two neighbouring plain assignments to local names that do not touch each other's names and whose right-hand sides
    are free of calls on objects (only np. / pd. / sp. functions, arithmetic, attribute and subscript reads): a random 30 %."""
    SHARE = 0.3

    def __init__(self, seed=5):
        import random
        self.rnd = random.Random(seed)

    @staticmethod
    def _simple(st):
        if not (isinstance(st, ast.Assign) and len(st.targets) == 1 and isinstance(st.targets[0], ast.Name)):
            return None
        for x in ast.walk(st.value):
            if isinstance(x, ast.Call):
                f = x.func
                ok = isinstance(f, ast.Attribute) and isinstance(f.value, ast.Name) and f.value.id in ("np", "pd", "sp") or \
                    (isinstance(f, ast.Name) and f.id in ("len", "int", "float", "max", "min", "abs", "range", "list", "tuple"))
                if not ok:
                    return None
            if isinstance(x, (ast.Lambda, ast.ListComp, ast.GeneratorExp, ast.DictComp, ast.SetComp, ast.NamedExpr, ast.Yield, ast.Await)):
                return None
        reads = {x.id for x in ast.walk(st.value) if isinstance(x, ast.Name)}
        return st.targets[0].id, reads

    def _block(self, stmts):
        out = list(stmts)
        i = 0
        while i + 1 < len(out):
            a, b = self._simple(out[i]), self._simple(out[i + 1])
            if a and b and a[0] != b[0] and a[0] not in b[1] and b[0] not in a[1] and self.rnd.random() < self.SHARE:
                out[i], out[i + 1] = out[i + 1], out[i]
                i += 2
            else:
                i += 1
        return out

    def generic_visit(self, node):
        super().generic_visit(node)
        if not isinstance(node, (ast.Module, ast.ClassDef)):
            for field in ("body", "orelse", "finalbody"):
                v = getattr(node, field, None)
                if isinstance(v, list) and v and isinstance(v[0], ast.stmt):
                    setattr(node, field, self._block(v))
        return node


class _MirrorSomeComparisons(ast.NodeTransformer):
    """`a < b` -> `b > a`, `a == b` -> `b == a`, `m1 & m2` -> `m2 & m1` (masks) on a random 30 % of the single-operator comparisons whose
    operands are free of calls with side effects (same purity test as above)."""
    SHARE = 0.3
    MIRROR = {ast.Lt: ast.Gt, ast.Gt: ast.Lt, ast.LtE: ast.GtE, ast.GtE: ast.LtE, ast.Eq: ast.Eq, ast.NotEq: ast.NotEq}

    def __init__(self, seed=7):
        import random
        self.rnd = random.Random(seed)

    @staticmethod
    def _pure(e):
        for x in ast.walk(e):
            if isinstance(x, ast.Call):
                f = x.func
                if not (isinstance(f, ast.Attribute) and isinstance(f.value, ast.Name) and f.value.id in ("np", "pd", "sp")
                        or isinstance(f, ast.Name) and f.id in ("len", "int", "float", "max", "min", "abs", "range", "list", "tuple", "isinstance", "type")):
                    return False
            if isinstance(x, (ast.Lambda, ast.ListComp, ast.GeneratorExp, ast.DictComp, ast.SetComp, ast.NamedExpr, ast.Yield, ast.Await)):
                return False
        return True

    def visit_Compare(self, node):
        self.generic_visit(node)
        if isinstance(node.ops[0], ast.Eq) and any(isinstance(x, ast.BinOp) and isinstance(x.op, ast.MatMult) for x in ast.walk(node)):
            return node     # a cvxpy equality constraint is an object, not a truth value: the sign of its dual follows lhs - rhs
        if len(node.ops) == 1 and type(node.ops[0]) in self.MIRROR and self._pure(node) and self.rnd.random() < self.SHARE:
            return ast.Compare(left=node.comparators[0], ops=[self.MIRROR[type(node.ops[0])]()], comparators=[node.left])
        return node

    def visit_BinOp(self, node):
        self.generic_visit(node)
        if isinstance(node.op, (ast.BitAnd, ast.BitOr)) and isinstance(node.left, ast.Compare) and isinstance(node.right, ast.Compare) \
                and self._pure(node) and self.rnd.random() < self.SHARE:
            node.left, node.right = node.right, node.left
        return node


class _KeywordSomeArguments(ast.NodeTransformer):
    """`f(a, b, k=c)` -> `f(p1=a, p2=b, k=c)` on a random 30 % of the calls to functions / methods / constructors of the package whose
    name has one parameter list in the whole package (so that the callee is known without types)."""
    SHARE = 0.3
    SIGS = None

    def __init__(self, seed=9):
        import random
        self.rnd = random.Random(seed)

    @classmethod
    def collect(cls, trees):
        sigs, clash = {}, set()
        for tree in trees:
            for n in ast.walk(tree):
                if isinstance(n, ast.ClassDef):
                    for m in n.body:
                        if isinstance(m, ast.FunctionDef) and m.name == "__init__":
                            cls._add(sigs, clash, n.name, m, True)
                if isinstance(n, ast.FunctionDef) and not n.name.startswith("__"):
                    cls._add(sigs, clash, n.name, n, None)
        for k in clash | {"get", "to_json", "node_names"}:      # also methods of dict / pandas objects: the callee is not known by name
            sigs.pop(k, None)
        cls.SIGS = sigs

    @staticmethod
    def _add(sigs, clash, name, fn, is_method):
        a = fn.args
        if a.vararg or a.posonlyargs:
            clash.add(name)
            return
        params = [x.arg for x in a.args]
        if params and params[0] in ("self", "cls"):
            params = params[1:]
        if name in sigs and sigs[name] != params:
            clash.add(name)
        sigs[name] = params

    def visit_Call(self, node):
        self.generic_visit(node)
        f = node.func
        name = f.attr if isinstance(f, ast.Attribute) else (f.id if isinstance(f, ast.Name) else None)
        if isinstance(f, ast.Attribute) and isinstance(f.value, ast.Name) and f.value.id in ("np", "pd", "sp", "CVX", "dt", "math", "json", "os"):
            return node
        params = (self.SIGS or {}).get(name)
        if params is None or not node.args or any(isinstance(a, ast.Starred) for a in node.args) or len(node.args) > len(params):
            return node
        if any(k.arg is None for k in node.keywords) or self.rnd.random() >= self.SHARE:
            return node
        node.keywords = [ast.keyword(arg=params[i], value=a) for i, a in enumerate(node.args)] + node.keywords
        node.args = []
        return node


class _ExtractWindowHelper(ast.NodeTransformer):
    """`(g.timepoints >= a) & (g.timepoints < b)` -> `g.steps_in_(a, b)` with a new method Timegrid.steps_in_ that returns the same mask:
    the refactoring a maintainer makes when the third copy of the window test appears (behaviour preserving)."""

    def visit_BinOp(self, node):
        self.generic_visit(node)
        if not (isinstance(node.op, ast.BitAnd) and isinstance(node.left, ast.Compare) and isinstance(node.right, ast.Compare)):
            return node
        l, r = node.left, node.right
        if not (len(l.ops) == 1 and len(r.ops) == 1 and isinstance(l.ops[0], ast.GtE) and isinstance(r.ops[0], ast.Lt)):
            return node
        if not (isinstance(l.left, ast.Attribute) and l.left.attr == "timepoints" and ast.unparse(l.left) == ast.unparse(r.left)):
            return node
        return ast.Call(func=ast.Attribute(value=l.left.value, attr="steps_in_", ctx=ast.Load()), args=[l.comparators[0], r.comparators[0]], keywords=[])

    def visit_ClassDef(self, node):
        self.generic_visit(node)
        if node.name == "Timegrid":
            helper = ast.parse("def steps_in_(self, start, end):\n    return (self.timepoints >= start) & (self.timepoints < end)\n").body[0]
            node.body.append(helper)
        return node


class _KeptIntervalSolutions(ast.NodeTransformer):
    """A *correct* memo: SplitOptimProblem.optimize solves intervals with identical data once - the key holds everything
    OptimProblem.optimize reads (vectors, matrix content, mapping, nodal records). Behaviour-preserving; the memo rule must stay silent."""

    def visit_ClassDef(self, node):
        self.generic_visit(node)
        if node.name != "SplitOptimProblem":
            return node
        for f in node.body:
            if isinstance(f, ast.FunctionDef) and f.name == "optimize":
                for i, st in enumerate(f.body):
                    if isinstance(st, ast.For) and ast.unparse(st.iter) == "self.ops" and st.body and isinstance(st.body[0], ast.Assign) \
                            and isinstance(st.body[0].value, ast.Call) and ast.unparse(st.body[0].value.func) == "op.optimize":
                        call = ast.unparse(st.body[0].value)
                        tgt = ast.unparse(st.body[0].targets[0])
                        new = ast.parse(
                            "k_ = (op.c.tobytes(), op.l.tobytes(), op.u.tobytes(), None if op.b is None else np.asarray(op.b).tobytes(), op.cType,\n"
                            "      None if op.A is None else op.A.toarray().tobytes(), op.mapping.to_json(), str(op.map_nodal_restr))\n"
                            "if k_ not in solved_:\n    solved_[k_] = %s\n%s = solved_[k_]\n" % (call, tgt)).body
                        st.body[0:1] = new
                        f.body.insert(i, ast.parse("solved_ = {}").body[0])
                        break
        return node


TWINS = {
    "kept-interval-solutions-complete-key": _KeptIntervalSolutions,
    "extract-window-helper": _ExtractWindowHelper,
    "keyword-arguments-30pct": _KeywordSomeArguments,
    "mirror-comparisons-30pct": _MirrorSomeComparisons,
    "swap-independent-neighbours-30pct": _SwapIndependentNeighbours,
    "unparse-roundtrip": None,
    "rename-locals": _RenameLocals,
    "insert-noops-and-docstrings": _InsertNoops,
    "reverse-method-order": _ReverseMethods,
    "extract-variable-15pct-seed1": _HoistSomeValues,
    "extract-variable-15pct-seed2": _HoistSomeValues2,
    "swap-if-arms-30pct": _SwapSomeIfArms,
}


def neutral(prop, repo):
    res = {"twins": 0, "silent": 0, "false_alarms": []}
    base_out, base_new, base_listed = _run(prop, repo)
    base_keys = {o.key for o, _ in base_new}
    for name, tr in TWINS.items():
        tmp = tempfile.mkdtemp(prefix="eaocheck_twin_")
        try:
            _copy_pkg(repo, tmp)
            if tr is not None and hasattr(tr, "collect"):
                tr.collect([ast.parse(open(os.path.join(tmp, "eaopack", f)).read()) for f in sorted(os.listdir(os.path.join(tmp, "eaopack"))) if f.endswith(".py")])
            for f in sorted(os.listdir(os.path.join(tmp, "eaopack"))):
                if not f.endswith(".py"):
                    continue
                path = os.path.join(tmp, "eaopack", f)
                tree = ast.parse(open(path).read())
                if tr is not None:
                    tree = tr().visit(tree)
                    ast.fix_missing_locations(tree)
                open(path, "w").write(ast.unparse(tree) + "\n")
            res["twins"] += 1
            out, new, listed = _run(prop, tmp)
            extra = [o for o, _ in new if o.key not in base_keys]
            if out.error or (name != "rename-locals" and extra) or (name == "rename-locals" and len(new) > len(base_new)):
                what = out.error or "; ".join("%s %s" % (o.rule, o.construct[:60]) for o in (extra or [o for o, _ in new])[:3])
                res["false_alarms"].append("%s: %s" % (name, what[:200]))
                print("SELFTEST-FALSE-ALARM property=%s twin=%s %s" % (prop, name, what[:200]))
            else:
                res["silent"] += 1
        finally:
            shutil.rmtree(tmp, ignore_errors=True)
    return res


def run(prop, repo, seed=0):
    out = {"selfval": {}}
    for name, f in (("pinned_regression", pinned_regression), ("breakers", breakers), ("neutral_twins", neutral)):
        try:
            out["selfval"][name] = f(prop, repo)
        except Exception as e:  # self-validation must never break a check
            out["selfval"][name] = {"error": "%s: %s" % (type(e).__name__, e)}
    sv = out["selfval"]
    print("SELFTEST property=%s pinned=%s/%s breakers=%s/%s twins=%s/%s" % (
        prop, sv.get("pinned_regression", {}).get("reported", "?"), sv.get("pinned_regression", {}).get("expected", "?"),
        sv.get("breakers", {}).get("killed", "?"), sv.get("breakers", {}).get("applied", "?"),
        sv.get("neutral_twins", {}).get("silent", "?"), sv.get("neutral_twins", {}).get("twins", "?")))
    for k in sv.get("pinned_regression", {}).get("missing", []):
        print("SELFTEST-WEAK property=%s pinned-tree defect not reported any more: %s" % (prop, k))
    return out
