"""E5b - linear forms over named atoms.

Expressions built with + - * and scalar factors over a closed atom set are normalised to {atom: coefficient}.
Vectors are treated element-wise (np.ones(..) is the unit 1).  Anything outside the fragment -> None (undecided).
"""
from __future__ import annotations
import ast
from fractions import Fraction
from typing import Optional, Callable
from . import astutil as au

ONE = "1"


def add(a, b, sb=1):
    if a is None or b is None:
        return None
    out = dict(a)
    for k, v in b.items():
        out[k] = out.get(k, 0) + sb * v
    return {k: v for k, v in out.items() if v != 0}


def scale(a, f):
    if a is None:
        return None
    return {k: v * f for k, v in a.items() if v * f != 0}


def const_of(a):
    """numeric value if the form is a pure constant, else None."""
    if a is None:
        return None
    if not a:
        return 0
    if set(a) == {ONE}:
        return a[ONE]
    return None


class LinEval:
    """atom_of(expr) -> atom name | None decides which sub-expressions are atoms; env maps local names to forms."""

    def __init__(self, atom_of: Callable, env: Optional[dict] = None):
        self.atom_of = atom_of
        self.env = env if env is not None else {}

    def ev(self, e):
        a = self.atom_of(e)
        if a is not None:
            return {a: 1}
        c = au.const_num(e)
        if c is not None:
            return {ONE: Fraction(c).limit_denominator(10 ** 6)} if c != 0 else {}
        if isinstance(e, ast.Name):
            return self.env.get(e.id)
        if isinstance(e, ast.UnaryOp) and isinstance(e.op, ast.USub):
            return scale(self.ev(e.operand), -1)
        if isinstance(e, ast.UnaryOp) and isinstance(e.op, ast.UAdd):
            return self.ev(e.operand)
        if isinstance(e, ast.BinOp):
            if isinstance(e.op, ast.Add):
                return add(self.ev(e.left), self.ev(e.right))
            if isinstance(e.op, ast.Sub):
                return add(self.ev(e.left), self.ev(e.right), -1)
            if isinstance(e.op, ast.Mult):
                l, r = self.ev(e.left), self.ev(e.right)
                cl, cr = const_of(l), const_of(r)
                if cl is not None:
                    return scale(r, cl)
                if cr is not None:
                    return scale(l, cr)
                return None
            if isinstance(e.op, ast.Div):
                l, r = self.ev(e.left), self.ev(e.right)
                cr = const_of(r)
                if cr:
                    return scale(l, Fraction(1) / cr)
                return None
            return None
        if isinstance(e, ast.Call):
            m = au.method_name(e)
            if m in ("ones",):
                return {ONE: 1}
            if m in ("zeros",):
                return {}
            if m in ("copy", "astype", "asarray", "array", "flatten") and (e.args or isinstance(e.func, ast.Attribute)):
                src = e.args[0] if (e.args and not isinstance(e.func, ast.Attribute)) else (
                    e.func.value if isinstance(e.func, ast.Attribute) and au.dotted(e.func.value) not in ("np", "numpy") else (e.args[0] if e.args else None))
                return self.ev(src) if src is not None else None
            return None
        if isinstance(e, ast.Subscript):
            # a slice / element of a vector has the vector's element-wise form
            return self.ev(e.value)
        return None


def show(f) -> str:
    if f is None:
        return "?"
    if not f:
        return "0"
    parts = []
    for k in sorted(f):
        v = f[k]
        s = "%s%s" % ("" if abs(v) == 1 else ("%s*" % abs(v)), k) if k != ONE else str(abs(v))
        parts.append(("- " if v < 0 else "+ ") + s)
    out = " ".join(parts)
    return out[2:] if out.startswith("+ ") else out
