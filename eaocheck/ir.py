"""E0 - program model of /repo/eaopack: modules, classes, MRO, functions, parameters, call resolution.

Everything is computed from the source on every run; nothing is imported or executed.
"""
from __future__ import annotations
import ast
import os
import hashlib
from dataclasses import dataclass, field
from typing import Optional, Iterable
from . import astutil as au
from . import canon

PKG = "eaopack"


class AnalysisError(Exception):
    """The analysis itself cannot run (parse error, schema-level anchor vanished). Exit code 2."""


@dataclass
class Param:
    name: str
    default: Optional[ast.AST]
    kind: str  # 'pos' | 'kwonly' | 'vararg' | 'kwarg'
    has_default: bool = False


@dataclass
class FuncInfo:
    name: str
    qualname: str
    node: ast.AST
    module: "ModuleInfo"
    cls: Optional["ClassInfo"] = None
    parent: Optional["FuncInfo"] = None
    nested: dict = field(default_factory=dict)

    @property
    def params(self) -> list:
        a = self.node.args
        out = []
        pos = list(a.posonlyargs) + list(a.args)
        nd = len(a.defaults)
        for i, p in enumerate(pos):
            j = i - (len(pos) - nd)
            d = a.defaults[j] if j >= 0 else None
            out.append(Param(p.arg, d, "pos", j >= 0))
        if a.vararg:
            out.append(Param(a.vararg.arg, None, "vararg"))
        for p, d in zip(a.kwonlyargs, a.kw_defaults):
            out.append(Param(p.arg, d, "kwonly", d is not None))
        if a.kwarg:
            out.append(Param(a.kwarg.arg, None, "kwarg"))
        return out

    def param(self, name) -> Optional[Param]:
        for p in self.params:
            if p.name == name:
                return p
        return None

    @property
    def param_names(self) -> list:
        return [p.name for p in self.params]

    @property
    def body(self):
        return self.node.body

    @property
    def is_method(self) -> bool:
        return self.cls is not None and self.parent is None

    def __hash__(self):
        return id(self)

    def __eq__(self, other):
        return self is other

    def __repr__(self):
        return "<fn %s>" % self.qualname


@dataclass
class ClassInfo:
    name: str
    node: ast.ClassDef
    module: "ModuleInfo"
    base_names: list
    methods: dict = field(default_factory=dict)

    def __hash__(self):
        return id(self)

    def __eq__(self, other):
        return self is other

    def __repr__(self):
        return "<class %s>" % self.name


@dataclass
class ModuleInfo:
    name: str  # 'assets'
    path: str
    source: str
    tree: ast.Module
    functions: dict = field(default_factory=dict)
    classes: dict = field(default_factory=dict)
    imports: dict = field(default_factory=dict)  # local alias -> dotted target ('np' -> 'numpy', 'Timegrid' -> 'eaopack.basic_classes.Timegrid')
    star_imports: list = field(default_factory=list)  # eaopack module short names

    def __hash__(self):
        return id(self)

    def __eq__(self, other):
        return self is other


class Program:
    def __init__(self, repo_root: str = "/repo"):
        self.repo_root = repo_root
        self.pkg_dir = os.path.join(repo_root, PKG)
        if not os.path.isdir(self.pkg_dir):
            raise AnalysisError("package directory %s not found" % self.pkg_dir)
        self.modules: dict = {}
        self.classes: dict = {}
        self.functions: dict = {}  # qualname -> FuncInfo (methods 'Class.m', module functions 'mod.f', nested 'Class.m.g')
        self._fn_of_node: dict = {}
        self._mro_cache: dict = {}
        self._parents: dict = {}
        self._load()

    # ------------------------------------------------------------------ loading
    def _load(self):
        h = hashlib.sha256()
        for fn in sorted(os.listdir(self.pkg_dir)):
            if not fn.endswith(".py"):
                continue
            p = os.path.join(self.pkg_dir, fn)
            with open(p, "r", encoding="utf-8") as f:
                src = f.read()
            h.update(fn.encode())
            h.update(src.encode())
            try:
                tree = ast.parse(src, filename=p)
            except SyntaxError as e:
                raise AnalysisError("cannot parse %s: %s" % (p, e))
            canon.inline_adjacent_temps(tree)
            canon.mirror_comparisons(tree)
            name = fn[:-3]
            m = ModuleInfo(name, p, src, tree)
            self.modules[name] = m
        sigs = canon.collect_signatures([m.tree for m in self.modules.values()])
        canon.SIGS = self.sigs = sigs
        for m in self.modules.values():
            canon.keyword_arguments(m.tree, sigs)
        self.digest = h.hexdigest()
        for m in self.modules.values():
            self._index_module(m)
        # parents for every module tree
        for m in self.modules.values():
            self._parents.update(au.parents_map(m.tree))

    def _index_module(self, m: ModuleInfo):
        for node in m.tree.body:
            self._index_stmt(m, node)
        # imports anywhere at module level incl. inside if/try
        for node in ast.walk(m.tree):
            if isinstance(node, ast.Import):
                for a in node.names:
                    m.imports[a.asname or a.name.split(".")[0]] = a.name
            elif isinstance(node, ast.ImportFrom) and node.module:
                for a in node.names:
                    if a.name == "*":
                        if node.module.startswith(PKG + "."):
                            m.star_imports.append(node.module[len(PKG) + 1:])
                        elif node.module == PKG:
                            m.star_imports.append("__init__")
                    else:
                        m.imports[a.asname or a.name] = node.module + "." + a.name

    def _index_stmt(self, m: ModuleInfo, node):
        if isinstance(node, (ast.FunctionDef, ast.AsyncFunctionDef)):
            fi = FuncInfo(node.name, "%s.%s" % (m.name, node.name), node, m)
            m.functions[node.name] = fi
            self._register_fn(fi)
        elif isinstance(node, ast.ClassDef):
            bases = [au.terminal(b) for b in node.bases if au.terminal(b)]
            ci = ClassInfo(node.name, node, m, bases)
            m.classes[node.name] = ci
            self.classes[node.name] = ci
            for sub in node.body:
                if isinstance(sub, (ast.FunctionDef, ast.AsyncFunctionDef)):
                    fi = FuncInfo(sub.name, "%s.%s" % (node.name, sub.name), sub, m, cls=ci)
                    ci.methods[sub.name] = fi
                    self._register_fn(fi)

    def _register_fn(self, fi: FuncInfo):
        self.functions[fi.qualname] = fi
        self._fn_of_node[fi.node] = fi
        # nested defs
        for n in au.walk_local(fi.node, include_self=False):
            if isinstance(n, (ast.FunctionDef, ast.AsyncFunctionDef)) and n is not fi.node:
                sub = FuncInfo(n.name, fi.qualname + "." + n.name, n, fi.module, cls=fi.cls, parent=fi)
                fi.nested[n.name] = sub
                self._register_fn(sub)

    # ------------------------------------------------------------------ lookup
    def module(self, name) -> ModuleInfo:
        if name not in self.modules:
            raise AnalysisError("module eaopack/%s.py vanished" % name)
        return self.modules[name]

    def cls(self, name) -> ClassInfo:
        if name not in self.classes:
            raise AnalysisError("class %s vanished" % name)
        return self.classes[name]

    def fn(self, qualname) -> FuncInfo:
        if qualname not in self.functions:
            raise AnalysisError("function %s vanished" % qualname)
        return self.functions[qualname]

    def fn_opt(self, qualname) -> Optional[FuncInfo]:
        return self.functions.get(qualname)

    def fn_of(self, node) -> Optional[FuncInfo]:
        return self._fn_of_node.get(node)

    def parent(self, node):
        return self._parents.get(node)

    def enclosing_fn(self, node) -> Optional[FuncInfo]:
        n = self._parents.get(node)
        while n is not None:
            if n in self._fn_of_node:
                return self._fn_of_node[n]
            n = self._parents.get(n)
        return None

    def enclosing_stmt(self, node):
        n = node
        while n is not None and not isinstance(n, ast.stmt):
            n = self._parents.get(n)
        return n

    def ancestors(self, node):
        n = self._parents.get(node)
        while n is not None:
            yield n
            n = self._parents.get(n)

    def all_functions(self) -> list:
        return list(self.functions.values())

    def where(self, node, fn: Optional[FuncInfo] = None) -> str:
        fn = fn or self.enclosing_fn(node) or (self._fn_of_node.get(node))
        mod = fn.module if fn else None
        if mod is None:
            for m in self.modules.values():
                if any(n is node for n in ast.walk(m.tree)):
                    mod = m
                    break
        rel = os.path.join(PKG, os.path.basename(mod.path)) if mod else "?"
        return "%s:%s %s" % (rel, getattr(node, "lineno", "?"), fn.qualname if fn else "<module>")

    # ------------------------------------------------------------------ hierarchy
    def mro(self, ci: ClassInfo) -> list:
        """C3 is overkill: eaopack uses single inheritance; fall back to DFS left-to-right, de-duplicated."""
        if ci in self._mro_cache:
            return self._mro_cache[ci]
        out = [ci]
        for b in ci.base_names:
            bc = self.classes.get(b)
            if bc is not None and bc is not ci:
                for x in self.mro(bc):
                    if x not in out:
                        out.append(x)
        self._mro_cache[ci] = out
        return out

    def is_subclass(self, ci: ClassInfo, base_name: str) -> bool:
        return any(c.name == base_name for c in self.mro(ci))

    def subclasses(self, base_name: str, strict: bool = False) -> list:
        out = []
        for c in self.classes.values():
            if self.is_subclass(c, base_name) and not (strict and c.name == base_name):
                out.append(c)
        return out

    def asset_classes(self) -> list:
        return self.subclasses("Asset")

    def resolve_method(self, ci: ClassInfo, name: str, after: Optional[ClassInfo] = None) -> Optional[FuncInfo]:
        mro = self.mro(ci)
        if after is not None:
            if after in mro:
                mro = mro[mro.index(after) + 1:]
            else:
                mro = self.mro(after)[1:]
        for c in mro:
            if name in c.methods:
                return c.methods[name]
        return None

    def methods_named(self, name: str) -> list:
        return [c.methods[name] for c in self.classes.values() if name in c.methods]

    def namespace(self, m: ModuleInfo, _seen=None) -> set:
        """Names visible at module level (own defs, explicit imports, star imports followed)."""
        _seen = _seen or set()
        if m.name in _seen:
            return set()
        _seen.add(m.name)
        ns = set(m.functions) | set(m.classes) | set(m.imports)
        for node in m.tree.body:
            for t in au.stmt_targets(node):
                ns.update(au.target_names(t))
        for s in m.star_imports:
            sm = self.modules.get(s)
            if sm is not None:
                ns |= {n for n in self.namespace(sm, _seen) if not n.startswith("_")}
        return ns

    def lookup_name(self, m: ModuleInfo, name: str, _seen=None):
        """Resolve a module-level name to a ClassInfo / FuncInfo of eaopack, following imports."""
        _seen = _seen or set()
        if (m.name, name) in _seen:
            return None
        _seen.add((m.name, name))
        if name in m.classes:
            return m.classes[name]
        if name in m.functions:
            return m.functions[name]
        tgt = m.imports.get(name)
        if tgt and tgt.startswith(PKG + "."):
            parts = tgt.split(".")
            if len(parts) >= 3 and parts[1] in self.modules:
                return self.lookup_name(self.modules[parts[1]], parts[2], _seen)
        for s in m.star_imports:
            sm = self.modules.get(s)
            if sm is not None:
                r = self.lookup_name(sm, name, _seen)
                if r is not None:
                    return r
        return None

    # ------------------------------------------------------------------ call resolution
    def resolve_call(self, call: ast.Call, fn: FuncInfo, receiver: Optional[ClassInfo] = None) -> list:
        """FuncInfo targets of a call made inside `fn`. `receiver` = concrete class of `self` when known."""
        f = call.func
        out = []
        if isinstance(f, ast.Name):
            # nested function of an enclosing function
            p = fn
            while p is not None:
                if f.id in p.nested:
                    return [p.nested[f.id]]
                p = p.parent
            tgt = self.lookup_name(fn.module, f.id)
            if isinstance(tgt, FuncInfo):
                return [tgt]
            if isinstance(tgt, ClassInfo):
                init = self.resolve_method(tgt, "__init__")
                return [init] if init else []
            return []
        if isinstance(f, ast.Attribute):
            v = f.value
            # super().m(...)
            if isinstance(v, ast.Call) and isinstance(v.func, ast.Name) and v.func.id == "super" and fn.cls is not None:
                defining = fn.cls
                if v.args and isinstance(v.args[0], ast.Name) and v.args[0].id in self.classes:
                    defining = self.classes[v.args[0].id]
                base = receiver if (receiver is not None and defining in self.mro(receiver)) else defining
                t = self.resolve_method(base, f.attr, after=defining)
                return [t] if t else []
            # self.m(...)
            if isinstance(v, ast.Name) and v.id == "self" and fn.cls is not None:
                if receiver is not None:
                    t = self.resolve_method(receiver, f.attr)
                    return [t] if t else []
                for c in self.classes.values():
                    if fn.cls in self.mro(c):
                        t = self.resolve_method(c, f.attr)
                        if t and t not in out:
                            out.append(t)
                return out
            # module.function(...) / Class.method(...)
            if isinstance(v, ast.Name):
                tgt = fn.module.imports.get(v.id)
                if tgt and tgt.startswith(PKG):
                    mn = tgt.split(".")[-1]
                    if mn in self.modules:
                        r = self.lookup_name(self.modules[mn], f.attr)
                        if isinstance(r, FuncInfo):
                            return [r]
                        if isinstance(r, ClassInfo):
                            init = self.resolve_method(r, "__init__")
                            return [init] if init else []
                if v.id in self.classes and f.attr in self.classes[v.id].methods:
                    return [self.classes[v.id].methods[f.attr]]
            # x.m(...) on an unresolved receiver: closed world over eaopack method names
            return list(self.methods_named(f.attr))
        return []

    def calls_in(self, fn: FuncInfo) -> list:
        return [n for n in au.walk_local(fn.node, include_self=False) if isinstance(n, ast.Call)]

    def reachable(self, roots: Iterable[FuncInfo], receiver: Optional[ClassInfo] = None) -> list:
        seen, order, stack = set(), [], list(roots)
        while stack:
            f = stack.pop()
            if f in seen:
                continue
            seen.add(f)
            order.append(f)
            for c in self.calls_in(f):
                for t in self.resolve_call(c, f, receiver):
                    if t not in seen:
                        stack.append(t)
            for n in f.nested.values():
                if n not in seen:
                    stack.append(n)
        return order

    # ------------------------------------------------------------------ statistics for evidence
    def stats(self) -> dict:
        return {
            "modules": len(self.modules),
            "classes": len(self.classes),
            "functions": len(self.functions),
            "call_sites": sum(len(self.calls_in(f)) for f in self.functions.values() if f.parent is None),
            "source_digest": self.digest[:16],
        }
