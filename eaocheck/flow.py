"""E1 - structured forward walk over Python statements with a pluggable domain.

Python has no goto: if / for / while / try / with / return / raise / break / continue are interpreted
compositionally, which yields must-precede / all-paths facts without a CFG library.

Pieces:
  Domain            interface a rule-specific state must implement
  Walker            the structured interpreter (records the state *before* every statement)
  Partitioned       trace partitioning wrapper: state = {path condition -> inner state}; a branch on an atom already
                    decided on the path follows that decision (keeps two tests of the same condition from being a "maybe")
  ReachingDefs      classic reaching definitions (names and self.<attr>), the basis of origin queries
  Origins           expands an expression through reaching definitions to its leaf atoms
"""
from __future__ import annotations
import ast
from dataclasses import dataclass
from typing import Optional, Callable
from . import astutil as au

# ---------------------------------------------------------------------------------------------- domain


class Domain:
    def initial(self, fn):  # pragma: no cover - interface
        raise NotImplementedError

    def join(self, a, b):  # pragma: no cover - interface
        raise NotImplementedError

    def equal(self, a, b) -> bool:
        return a == b

    def stmt(self, s, node):
        """Transfer of a simple statement (Assign, AugAssign, AnnAssign, Expr, Assert, Delete, Return, Raise ...)."""
        return s

    def refine(self, s, test, truth: bool):
        """State on the branch where `test` evaluates to `truth`; None = branch unreachable."""
        return s

    def bind_loop(self, s, node):
        """State at the head of a for-body after binding node.target from node.iter."""
        return s

    def bind_with(self, s, node):
        return s

    def bind_handler(self, s, handler):
        return s

    def stored_names(self, node) -> set:
        """Names (re)bound by a statement - used to invalidate path-condition atoms."""
        out = set()
        for t in au.stmt_targets(node):
            out.update(au.target_names(t))
        if isinstance(node, (ast.For, ast.AsyncFor)):
            out.update(au.target_names(node.target))
        if isinstance(node, ast.Delete):
            for t in node.targets:
                out.update(au.target_names(t))
        return out


# ---------------------------------------------------------------------------------------------- walker


class Walker:
    MAX_LOOP_ROUNDS = 4

    def __init__(self, domain: Domain):
        self.d = domain
        self.before: dict = {}   # stmt node -> state before it (joined over all visits)
        self.after: dict = {}    # stmt node -> state after it (normal completion; joined)
        self.returns: list = []  # (Return node | None for fall-off, state)
        self.raises: list = []
        self._breaks: list = []
        self._continues: list = []
        self.on_stmt: Optional[Callable] = None  # callback(node, state_before)

    # -- helpers
    def _j(self, a, b):
        if a is None:
            return b
        if b is None:
            return a
        return self.d.join(a, b)

    def _record(self, table, node, s):
        if s is None:
            return
        table[node] = self._j(table.get(node), s)

    def run_function(self, fn, state=None):
        s = self.d.initial(fn) if state is None else state
        end = self.block(fn.node.body, s)
        if end is not None:
            self.returns.append((None, end))
        return end

    def exit_state(self):
        """Join of all normal exits (returns and falling off the end)."""
        out = None
        for _, s in self.returns:
            out = self._j(out, s)
        return out

    def block(self, stmts, s):
        for st in stmts:
            if s is None:
                return None
            s = self.statement(st, s)
        return s

    def statement(self, node, s):
        self._record(self.before, node, s)
        if self.on_stmt is not None:
            self.on_stmt(node, s)
        m = getattr(self, "s_" + type(node).__name__, None)
        out = m(node, s) if m else self.d.stmt(s, node)
        self._record(self.after, node, out)
        return out

    # -- compound statements
    def s_If(self, node, s):
        st = self.d.refine(s, node.test, True)
        sf = self.d.refine(s, node.test, False)
        a = self.block(node.body, st) if st is not None else None
        b = self.block(node.orelse, sf) if sf is not None else None
        return self._j(a, b)

    def _loop(self, node, s, is_for):
        breaks_save, conts_save = self._breaks, self._continues
        head = s
        exit_normal = None
        for _ in range(self.MAX_LOOP_ROUNDS):
            self._breaks, self._continues = [], []
            if is_for:
                body_in = self.d.bind_loop(head, node)
                exit_cond = head          # iterator exhausted (possibly zero iterations)
            else:
                body_in = self.d.refine(head, node.test, True)
                exit_cond = self.d.refine(head, node.test, False)
            body_out = self.block(node.body, body_in) if body_in is not None else None
            for c in self._continues:
                body_out = self._j(body_out, c)
            new_head = self._j(head, body_out)
            brk = None
            for b in self._breaks:
                brk = self._j(brk, b)
            exit_normal = exit_cond
            if self.d.equal(new_head, head):
                head = new_head
                break
            head = new_head
        # one more evaluation of the exit condition on the stabilised head
        if is_for:
            exit_normal = head
        else:
            exit_normal = self.d.refine(head, node.test, False)
        out = self.block(node.orelse, exit_normal) if (node.orelse and exit_normal is not None) else exit_normal
        out = self._j(out, brk)
        self._breaks, self._continues = breaks_save, conts_save
        return out

    def s_For(self, node, s):
        return self._loop(node, s, True)

    s_AsyncFor = s_For

    def s_While(self, node, s):
        return self._loop(node, s, False)

    def s_With(self, node, s):
        s = self.d.bind_with(s, node)
        return self.block(node.body, s)

    s_AsyncWith = s_With

    def s_Try(self, node, s):
        # body; handlers start from the join of the states before/after every statement of the body
        pre = s
        cur = s
        for st in node.body:
            if cur is None:
                break
            cur = self.statement(st, cur)
            pre = self._j(pre, cur)
        out = cur
        if node.orelse and out is not None:
            out = self.block(node.orelse, out)
        for h in node.handlers:
            hs = self.d.bind_handler(pre, h)
            out = self._j(out, self.block(h.body, hs))
        if node.finalbody:
            out = self.block(node.finalbody, out) if out is not None else None
        return out

    s_TryStar = s_Try

    def s_Return(self, node, s):
        s = self.d.stmt(s, node)
        self.returns.append((node, s))
        return None

    def s_Raise(self, node, s):
        s = self.d.stmt(s, node)
        self.raises.append((node, s))
        return None

    def s_Break(self, node, s):
        self._breaks.append(s)
        return None

    def s_Continue(self, node, s):
        self._continues.append(s)
        return None

    def s_FunctionDef(self, node, s):
        return self.d.stmt(s, node)

    s_AsyncFunctionDef = s_FunctionDef
    s_ClassDef = s_FunctionDef


# ---------------------------------------------------------------------------------------------- trace partitioning


_MIRROR = {ast.Lt: ast.Gt, ast.Gt: ast.Lt, ast.LtE: ast.GtE, ast.GtE: ast.LtE}


def _canon_cmp(t):
    """Canonical (key, polarity) of an ordering comparison: operands in lexicographic order, only '<' and '<=' as keys:
       a < b -> ('a < b', True)   a <= b -> ('a <= b', True)   a > b -> ('a <= b', False)   a >= b -> ('a < b', False)."""
    l, r, op = au.U(t.left), au.U(t.comparators[0]), type(t.ops[0])
    if l > r:
        l, r, op = r, l, _MIRROR[op]
    if op is ast.Lt:
        return "%s < %s" % (l, r), True
    if op is ast.LtE:
        return "%s <= %s" % (l, r), True
    if op is ast.Gt:
        return "%s <= %s" % (l, r), False
    return "%s < %s" % (l, r), False


def atom_of(test):
    """(key, polarity, names) for a test that is a single atom, else None."""
    nt = au.none_test(test)
    if nt is not None:
        x, isnone = nt
        return ("%s is None" % au.U(x), isnone, frozenset(au.names_in(x)))
    t, pol = au.strip_not(test)
    if isinstance(t, ast.BoolOp):
        return None
    if isinstance(t, ast.Compare) and len(t.ops) == 1 and type(t.ops[0]) in _MIRROR:
        key, p2 = _canon_cmp(t)
        return (key, pol == p2, frozenset(au.names_in(t)))
    if isinstance(t, ast.Compare) and len(t.ops) == 1 and isinstance(t.ops[0], (ast.NotEq, ast.IsNot, ast.NotIn)):
        pos = ast.Compare(left=t.left, ops=[{ast.NotEq: ast.Eq, ast.IsNot: ast.Is, ast.NotIn: ast.In}[type(t.ops[0])]()], comparators=t.comparators)
        return (au.U(pos), not pol, frozenset(au.names_in(t)))
    return (au.U(t), pol, frozenset(au.names_in(t)))


def _lookup(key, pc):
    """Value of an atom under pc, using  (a < b) => (a <= b)."""
    if key in pc:
        return pc[key][0]
    if " <= " in key:
        k2 = key.replace(" <= ", " < ", 1)
        if k2 in pc and pc[k2][0] is True:
            return True
    elif " < " in key:
        k2 = key.replace(" < ", " <= ", 1)
        if k2 in pc and pc[k2][0] is False:
            return False
    return None


def eval3(test, pc: dict):
    """Three-valued evaluation of a test under a path condition {atom key: bool}."""
    t, pol = au.strip_not(test)
    if isinstance(t, ast.BoolOp):
        vals = [eval3(v, pc) for v in t.values]
        if isinstance(t.op, ast.And):
            r = False if any(v is False for v in vals) else (True if all(v is True for v in vals) else None)
        else:
            r = True if any(v is True for v in vals) else (False if all(v is False for v in vals) else None)
    else:
        a = atom_of(t)
        r = None
        if a is not None:
            v = _lookup(a[0], pc)
            if v is not None:
                r = v if a[1] else (not v)
    if r is None:
        return None
    return r if pol else (not r)


def atoms_implied(test, truth: bool) -> list:
    """Atoms that are certainly decided when `test` evaluated to `truth`."""
    t, pol = au.strip_not(test)
    truth = truth if pol else (not truth)
    if isinstance(t, ast.BoolOp):
        if (isinstance(t.op, ast.And) and truth) or (isinstance(t.op, ast.Or) and not truth):
            out = []
            for v in t.values:
                out.extend(atoms_implied(v, truth))
            return out
        return []
    a = atom_of(t)
    if a is None:
        return []
    key, apol, names = a
    return [(key, truth if apol else (not truth), names)]


class Partitioned(Domain):
    """state = tuple of (pc, inner) with pc = frozenset of (key, value, names)."""
    CAP = 48

    def __init__(self, inner: Domain):
        self.inner = inner

    def initial(self, fn):
        return ((frozenset(), self.inner.initial(fn)),)

    def _norm(self, pairs):
        merged = {}
        for pc, st in pairs:
            if st is None:
                continue
            if pc in merged:
                merged[pc] = self.inner.join(merged[pc], st)
            else:
                merged[pc] = st
        items = list(merged.items())
        # merge partitions whose inner states are equal (keep the common part of the path conditions)
        out = []
        for pc, st in items:
            for i, (pc2, st2) in enumerate(out):
                if self.inner.equal(st, st2):
                    out[i] = (pc & pc2, st2)
                    break
            else:
                out.append((pc, st))
        if len(out) > self.CAP:
            pc = out[0][0]
            st = out[0][1]
            for pc2, st2 in out[1:]:
                pc = pc & pc2
                st = self.inner.join(st, st2)
            out = [(pc, st)]
        out.sort(key=lambda p: sorted((k, v) for k, v, _ in p[0]))
        return tuple(out)

    def join(self, a, b):
        return self._norm(list(a) + list(b))

    def equal(self, a, b):
        if len(a) != len(b):
            return False
        for (p1, s1), (p2, s2) in zip(a, b):
            if p1 != p2 or not self.inner.equal(s1, s2):
                return False
        return True

    @staticmethod
    def _pcdict(pc):
        return {k: (v, n) for k, v, n in pc}

    def stmt(self, s, node):
        stored = self.inner.stored_names(node)
        out = []
        for pc, st in s:
            if stored:
                pc = frozenset(a for a in pc if not (a[2] & stored))
            out.append((pc, self.inner.stmt(st, node)))
        return self._norm(out)

    def refine(self, s, test, truth):
        out = []
        for pc, st in s:
            v = eval3(test, self._pcdict(pc))
            if v is not None and v != truth:
                continue
            st2 = self.inner.refine(st, test, truth)
            if st2 is None:
                continue
            new = set(pc)
            for key, val, names in atoms_implied(test, truth):
                new = {a for a in new if a[0] != key}
                new.add((key, val, names))
            out.append((frozenset(new), st2))
        r = self._norm(out)
        return r if r else None

    def _lift(self, s, f, node, stored=None):
        out = []
        for pc, st in s:
            if stored:
                pc = frozenset(a for a in pc if not (a[2] & stored))
            out.append((pc, f(st, node)))
        return self._norm(out)

    def bind_loop(self, s, node):
        return self._lift(s, self.inner.bind_loop, node, set(au.target_names(node.target)))

    def bind_with(self, s, node):
        stored = set()
        for it in node.items:
            if it.optional_vars is not None:
                stored.update(au.target_names(it.optional_vars))
        return self._lift(s, self.inner.bind_with, node, stored)

    def bind_handler(self, s, h):
        return self._lift(s, self.inner.bind_handler, h, {h.name} if h.name else None)

    @staticmethod
    def states(s):
        return [st for _, st in (s or ())]

    @staticmethod
    def describe_pc(pc) -> str:
        return " and ".join(("%s" if v else "not (%s)") % k for k, v, _ in sorted(pc, key=lambda a: a[0])) or "always"


# ---------------------------------------------------------------------------------------------- reaching definitions


@dataclass(eq=False)
class Def:
    """One object per definition site (identity semantics). `prev` accumulates monotonically (prior definitions of an
    augmented assignment / container store), so that loop fix-points converge."""
    kind: str            # 'param' | 'assign' | 'aug' | 'unpack' | 'for' | 'with' | 'store' | 'import' | 'def' | 'except' | 'del'
    name: str
    node: object = None  # the statement
    value: object = None  # value expression (assign), iter expression (for), call (with)
    index: object = None  # tuple position for unpack / for-unpack
    prev: set = None     # prior definitions (aug / store: the container still carries them)

    def __post_init__(self):
        if self.prev is None:
            self.prev = set()
        else:
            self.prev = set(self.prev)

    def __repr__(self):
        return "<Def %s %s %s>" % (self.kind, self.name, au.short(self.value, 40) if self.value is not None else "")


class ReachingDefs(Domain):
    """env: dict name -> frozenset[Def].  Attribute stores on self are tracked under 'self.<attr>'."""

    def __init__(self):
        self._cache = {}

    def initial(self, fn):
        env = {}
        for p in fn.params:
            env[p.name] = frozenset([self._def(("param", p.name, fn.node), "param", p.name, fn.node, p.default)])
        return env

    def _def(self, key, *a, **k):
        # one Def object per (site, name, index): makes states comparable across loop rounds
        if key not in self._cache:
            self._cache[key] = Def(*a, **k)
        d = self._cache[key]
        if k.get("prev"):
            d.prev |= {x for x in k["prev"] if x is not d}
        return d

    def join(self, a, b):
        if a is b:
            return a
        out = dict(a)
        for k, v in b.items():
            out[k] = (out[k] | v) if k in out else v
        return out

    def equal(self, a, b):
        return a == b

    # -- binding helpers
    def _bind_target(self, env, t, node, value, kind, index=None):
        if isinstance(t, ast.Name):
            env[t.id] = frozenset([self._def((id(node), t.id, index), kind, t.id, node, value, index)])
        elif isinstance(t, (ast.Tuple, ast.List)):
            for i, e in enumerate(t.elts):
                sub_kind = "unpack" if kind in ("assign", "unpack") else kind
                self._bind_target(env, e, node, value, sub_kind, (index + (i,)) if isinstance(index, tuple) else (i,))
        elif isinstance(t, ast.Starred):
            self._bind_target(env, t.value, node, value, kind, index)
        elif isinstance(t, ast.Attribute):
            p = au.path(t)
            if p is not None and p.startswith("self."):
                env[p] = frozenset([self._def((id(node), p, index), kind, p, node, value, index)])
            else:
                self._weak(env, t, node, value)
        elif isinstance(t, ast.Subscript):
            self._weak(env, t, node, value)

    def _weak(self, env, t, node, value):
        """x[...] = v / x.a = v: the container x keeps its definitions and gains a 'store'."""
        b = au.base_name(t)
        if b is None:
            return
        key = b
        if b == "self":
            c = au.attr_chain(t.value if isinstance(t, ast.Subscript) else t)
            # self.a[...] = v  -> key 'self.a'
            n = t
            while isinstance(n, (ast.Subscript,)):
                n = n.value
            p = au.path(n)
            key = p if p else "self"
        prev = env.get(key, frozenset())
        env[key] = prev | frozenset([self._def((id(node), key, "store"), "store", key, node, value, au.U(t), prev=prev)])

    def stmt(self, s, node):
        env = s
        if isinstance(node, ast.Assign):
            env = dict(env)
            for t in node.targets:
                self._bind_target(env, t, node, node.value, "assign")
        elif isinstance(node, ast.AnnAssign):
            if node.value is not None:
                env = dict(env)
                self._bind_target(env, node.target, node, node.value, "assign")
        elif isinstance(node, ast.AugAssign):
            env = dict(env)
            t = node.target
            if isinstance(t, ast.Name):
                prev = env.get(t.id, frozenset())
                env[t.id] = frozenset([self._def((id(node), t.id, "aug"), "aug", t.id, node, node.value, None, prev=prev)])
            elif isinstance(t, ast.Attribute) and (au.path(t) or "").startswith("self."):
                p = au.path(t)
                prev = env.get(p, frozenset())
                env[p] = frozenset([self._def((id(node), p, "aug"), "aug", p, node, node.value, None, prev=prev)])
            else:
                self._weak(env, t, node, node.value)
        elif isinstance(node, (ast.Import, ast.ImportFrom)):
            env = dict(env)
            for a in node.names:
                nm = a.asname or a.name.split(".")[0]
                env[nm] = frozenset([self._def((id(node), nm, None), "import", nm, node, None)])
        elif isinstance(node, (ast.FunctionDef, ast.AsyncFunctionDef, ast.ClassDef)):
            env = dict(env)
            env[node.name] = frozenset([self._def((id(node), node.name, None), "def", node.name, node, None)])
        elif isinstance(node, ast.Delete):
            env = dict(env)
            for t in node.targets:
                if isinstance(t, ast.Name):
                    env[t.id] = frozenset([self._def((id(node), t.id, None), "del", t.id, node, None)])
                else:
                    self._weak(env, t, node, None)
        elif isinstance(node, ast.Expr) and isinstance(node.value, ast.Call):
            # in-place method call on a local / self attribute: x.append(v), x.reset_index(inplace=True) ...
            c = node.value
            if isinstance(c.func, ast.Attribute):
                recv = c.func.value
                p = au.path(recv)
                if p is not None:
                    key = p if p.startswith("self.") else au.base_name(recv)
                    if key:
                        env = dict(env)
                        prev = env.get(key, frozenset())
                        env[key] = prev | frozenset([self._def((id(node), key, "call"), "store", key, node, c, "call", prev=prev)])
        return env

    def bind_loop(self, s, node):
        env = dict(s)
        self._bind_target(env, node.target, node, node.iter, "for", ())
        return env

    def bind_with(self, s, node):
        env = dict(s)
        for it in node.items:
            if it.optional_vars is not None:
                self._bind_target(env, it.optional_vars, node, it.context_expr, "with")
        return env

    def bind_handler(self, s, h):
        if h.name:
            env = dict(s)
            env[h.name] = frozenset([self._def((id(h), h.name, None), "except", h.name, h, h.type)])
            return env
        return s


class FnFlow:
    """Reaching definitions of one function + convenience queries. Cached per function by the Context."""

    def __init__(self, fn):
        self.fn = fn
        self.rd = ReachingDefs()
        self.w = Walker(self.rd)
        self.w.run_function(fn)
        self._stmt_of = {}
        for st in au.walk_stmts(fn.node.body):
            for n in au.walk_local(st):
                # innermost statement wins (walk_stmts yields outer first)
                self._stmt_of[n] = st
            # compound statements: header expressions belong to the compound statement itself
        self._fix_headers(fn.node.body)

    def _fix_headers(self, body):
        for st in au.walk_stmts(body):
            hdr = []
            if isinstance(st, (ast.If, ast.While)):
                hdr = [st.test]
            elif isinstance(st, (ast.For, ast.AsyncFor)):
                hdr = [st.iter]
            elif isinstance(st, (ast.With, ast.AsyncWith)):
                hdr = [i.context_expr for i in st.items]
            for h in hdr:
                for n in au.walk_local(h):
                    self._stmt_of[n] = st

    def stmt_of(self, node):
        return self._stmt_of.get(node)

    def env_at(self, node) -> dict:
        """Reaching definitions before the statement that contains `node` ({} if unreachable/unknown)."""
        st = node if isinstance(node, ast.stmt) else self._stmt_of.get(node)
        if st is None:
            return {}
        env = self.w.before.get(st)
        if env is None:
            return {}
        # names bound by an enclosing for-loop header are bound inside the body: handled by bind_loop
        return env

    def env_after(self, st) -> dict:
        return self.w.after.get(st) or {}

    def defs(self, name: str, at) -> frozenset:
        return self.env_at(at).get(name, frozenset())

    def exit_env(self) -> dict:
        return self.w.exit_state() or {}

    def all_defs(self, name: str) -> set:
        out = set()
        for env in list(self.w.before.values()) + list(self.w.after.values()):
            out |= env.get(name, frozenset())
        return out


class Origins:
    """Expand an expression through reaching definitions.

    leaves(expr, at)  -> set of leaf descriptors (strings):
        'param:<name>'           a parameter of the function
        'path:<access path>'     self.timegrid.restricted.I, op.mapping['type'] with local bases expanded when they are
                                 themselves bound to pure access paths
        'const:<repr>'           literals
        'call:<callee>'          a call whose result is opaque (arguments are expanded too)
        'iter:<...>'             element of an iterable (for targets)
    nodes(expr, at)   -> every expression node that contributes (for pattern queries such as "is there a .copy()").
    """

    def __init__(self, ff: FnFlow, max_depth: int = 25, values_only: bool = False):
        self.ff = ff
        self.max_depth = max_depth
        # values_only: do not follow selectors (the index of x[mask], x.loc[mask, col]): the origin of the *value* is x
        self.values_only = values_only

    def _walk(self, expr):
        if not self.values_only:
            for n in au.walk_local(expr):
                if isinstance(n, ast.expr):
                    yield n
            return
        stack = [expr]
        while stack:
            n = stack.pop()
            if isinstance(n, ast.keyword):
                stack.append(n.value)
                continue
            if isinstance(n, ast.comprehension):
                stack.append(n.iter)
                continue
            if not isinstance(n, ast.expr):
                continue
            yield n
            if isinstance(n, au.SCOPE_NODES) and n is not expr:
                continue
            if isinstance(n, ast.Compare):
                continue   # a comparison yields booleans: neither operand is the origin of the *value*
            if isinstance(n, ast.Call) and isinstance(n.func, ast.Name) and n.func.id == "len":
                continue   # a count: the counted values are not its origin
            if isinstance(n, ast.Attribute) and n.attr in ("shape", "size", "ndim"):
                continue
            if isinstance(n, ast.Subscript):
                stack.append(n.value)
                if isinstance(n.slice, ast.Constant):
                    stack.append(n.slice)
                elif isinstance(n.slice, ast.Tuple):
                    # frame.loc[mask, 'col']: keep the constant column selectors (they name the value), drop masks
                    stack.extend(e for e in n.slice.elts if isinstance(e, ast.Constant))
                continue
            stack.extend(reversed([c for c in ast.iter_child_nodes(n) if isinstance(c, (ast.expr, ast.keyword, ast.comprehension))]))

    def expand(self, expr, at=None, _seen=None, _depth=0):
        """Yield (node, env_stmt) for expr and everything it is defined from."""
        if expr is None:
            return
        at = at if at is not None else expr
        _seen = _seen if _seen is not None else set()
        if _depth > self.max_depth:
            return
        env = self.ff.env_at(at)
        for n in self._walk(expr):
            if not isinstance(n, ast.expr):
                for c in ast.iter_child_nodes(n):   # keyword / comprehension wrappers
                    if isinstance(c, ast.expr):
                        yield from self.expand(c, at, _seen, _depth)
                continue
            yield n, at
            key = None
            if isinstance(n, ast.Name) and isinstance(n.ctx, ast.Load):
                key = n.id
            elif isinstance(n, ast.Attribute) and isinstance(n.ctx, ast.Load):
                p = au.path(n)
                if p and p.startswith("self.") and p in env:
                    key = p
            if key is None:
                continue
            for d in env.get(key, ()):  # type: Def
                yield from self._expand_def(d, _seen, _depth)

    def _expand_def(self, d: Def, _seen, _depth):
        if d in _seen:
            return
        _seen.add(d)
        if d.kind in ("assign", "unpack", "aug", "for", "with", "store") and d.value is not None:
            v = d.value
            idx = d.index if isinstance(d.index, tuple) else None
            if d.kind == "for" and idx and isinstance(v, ast.Call) and isinstance(v.func, ast.Name) and v.func.id == "enumerate" and v.args:
                if idx[0] == 0:
                    v = None              # the counter of enumerate(): an integer, no origin in the iterated values
                else:
                    v, idx = v.args[0], idx[1:]
            # a, b = x, y : each target takes its own element
            while v is not None and idx and d.kind in ("unpack", "assign") and isinstance(v, (ast.Tuple, ast.List)) and idx[0] < len(v.elts) \
                    and not any(isinstance(e, ast.Starred) for e in v.elts):
                v, idx = v.elts[idx[0]], idx[1:]
            if v is not None:
                yield from self.expand(v, d.node, _seen, _depth + 1)
        for p in d.prev:
            yield from self._expand_def(p, _seen, _depth)

    def nodes(self, expr, at=None) -> list:
        return [n for n, _ in self.expand(expr, at)]

    def defs_of(self, expr, at=None) -> set:
        """All Def objects reachable from expr."""
        seen = set()
        for _ in self.expand(expr, at, seen):
            pass
        return seen

    def leaves(self, expr, at=None) -> set:
        out = set()
        seen = set()
        for n, st in self.expand(expr, at, seen):
            if isinstance(n, ast.Constant):
                out.add("const:%r" % (n.value,))
            elif isinstance(n, ast.Call):
                cn = au.call_name(n)
                if cn:
                    out.add("call:" + cn)
            elif isinstance(n, (ast.Attribute, ast.Subscript)):
                p = au.path(n)
                if p:
                    out.add("path:" + p)
            elif isinstance(n, ast.Name) and isinstance(n.ctx, ast.Load):
                env = self.ff.env_at(st)
                ds = env.get(n.id, ())
                if not ds:
                    out.add("free:" + n.id)
                for d in ds:
                    if d.kind == "param":
                        out.add("param:" + d.name)
                    elif d.kind == "for":
                        out.add("iter:" + au.U(d.value))
        return out

    def paths(self, expr, at=None) -> set:
        return {l[5:] for l in self.leaves(expr, at) if l.startswith("path:")}

    def params(self, expr, at=None) -> set:
        return {l[6:] for l in self.leaves(expr, at) if l.startswith("param:")}

    def resolve_path(self, expr, at=None, _depth=0) -> set:
        """Access paths an expression may denote, with local names bound to pure access paths substituted:
           I = self.timegrid.restricted.I ; x[I]  ->  resolve_path(I) = {'self.timegrid.restricted.I'}."""
        at = at if at is not None else expr
        p = au.path(expr)
        if p is None or _depth > 8:
            return set()
        b = au.base_name(expr)
        if b == "self":
            env = self.ff.env_at(at)
            # self.x may have been assigned a pure path in this function
            return {p}
        env = self.ff.env_at(at)
        ds = env.get(b, ())
        out = set()
        rest = p[len(b):]
        for d in ds:
            if d.kind == "param":
                out.add("param:" + d.name + rest)
            elif d.kind in ("assign",) and d.value is not None and au.path(d.value) is not None:
                for q in self.resolve_path(d.value, d.node, _depth + 1):
                    out.add(q + rest)
            else:
                out.add("local:" + b + rest)
        if not ds:
            out.add("free:" + b + rest)
        return out
