"""Frozen tables: which rule serves which property, instance floors, schema vocabulary, seeds.

Every entry carries its reason. Floors are *anchor* counts confirmed by reading today's tree: a run that finds fewer
instances than the floor exits 2 (analysis broken), so no rule can pass vacuously.
"""

ALL_PROPERTIES = ["C%02d" % i for i in range(1, 21)]

# rule id -> properties it is reported under (default: the property named by the rule id's prefix)
SERVES = {}

# rule id -> minimal number of obligations (any verdict) that must be found
FLOORS = {}

# rule id -> one-line statement of the rule (goes into the evidence)
TITLES = {}


def serves(rule: str) -> list:
    return SERVES.get(rule, [rule.split(".")[0]])


_FROZEN = None


def _frozen_floors():
    global _FROZEN
    if _FROZEN is None:
        import json, os
        path = os.path.join(os.path.dirname(os.path.abspath(__file__)), "floors.json")
        try:
            with open(path) as f:
                _FROZEN = json.load(f).get("floors", {})
        except OSError:
            _FROZEN = {}
    return _FROZEN


def rule(rule_id: str, title: str, floor: int = 1, props=None):
    """Register a rule.  The floor given here is the hand-confirmed count at the time the rule was written; the frozen table
    eaocheck/floors.json (60 % of the instance count on the clean tree, tools/gen_floors.py) takes precedence."""
    TITLES[rule_id] = title
    FLOORS[rule_id] = _frozen_floors().get(rule_id, floor)
    if props:
        SERVES[rule_id] = list(props)


# ------------------------------------------------------------------------------------------------ schema vocabulary
OPTIM_FIELDS = ("c", "l", "u", "A", "b", "cType", "mapping", "map_nodal_restr")
VAR_CARRIERS = ("c", "l", "u")            # one entry per variable
ROW_CARRIERS = ("b", "cType")             # one entry per row
MAPPING_COLUMNS = ("asset", "node", "type", "time_step", "var_name", "disp_factor", "bool")
SCHEMA_COLUMNS = ("time_step", "node", "asset", "type")   # every mapping an asset returns carries these
ROW_LETTERS = {"U": "<=", "L": ">=", "S": "==", "N": "=="}
GRID_CACHE_ATTRS = ("restricted", "discount_factors")     # per-asset state kept on the shared Timegrid object
TIME_CARRIERS = ("I", "dt", "Dt", "timepoints", "discount_factors")

# in-place methods (E2)
INPLACE_METHODS = {"append", "extend", "insert", "pop", "remove", "clear", "update", "sort", "reverse", "fill",
                   "setdefault", "popitem"}
# calls that return a fresh top-level object
FRESH_CALLS = {"dict", "list", "copy", "deepcopy", "DataFrame", "from_dict", "asarray_copy", "array", "tolist", "to_list"}
FRESH_METHODS = {"copy", "tolist", "to_list", "astype", "reindex", "interpolate", "reset_index_copy"}

COMMON_ASSUMPTIONS = [
    "trusted base: CPython's ast module, the frozen tables of eaocheck/tables.py, the schema vocabulary (attribute and "
    "column names that are de-facto API: c l u A b cType mapping map_nodal_restr; asset node type time_step var_name "
    "disp_factor bool; Timegrid I T dt Dt timepoints discount_factors restricted I_minor_in_major)",
    "exceptions are not modelled as control flow (except try/except bodies, joined conservatively)",
    "library calls outside the modelled numpy / pandas / scipy surface are assumed not to mutate their arguments",
    "a value the analysis cannot type is Top and is reported as UNDECIDED, never as a violation",
    "the behaviour named in the property is not executed or solved: only the structural clauses listed in "
    "coverage.explanation are decided",
]
