"""Per-property wording for the evidence files: what is decided (from the rules that ran) and what is not."""
from . import tables

NOT_DECIDED = {
    "C01": "that a returned solution satisfies the nodal rows numerically (solver, tolerances)",
    "C02": "equality of the optimum with a reference model, the numeric value of the discount exponent, asset mixes",
    "C03": "feasibility / optimality of the vector the solver returns, tolerances, MIP gaps (the solver is trusted)",
    "C04": "the numeric identity value = sum of cash flows",
    "C05": "level bounds of a concrete solution, the window arithmetic of the holding duration",
    "C06": "which on/off patterns the MIP admits (runtime / downtime windows, ramps, initial state): that needs enumeration "
           "against the MIP, another family of technique",
    "C07": "that numeric bounds stay ordered / NaN-free after post-construction edits by the user",
    "C08": "invariance of value and dispatch under adding out-of-horizon elements (behavioural)",
    "C09": "invariance of optimal values; tie-breaking among multiple optima",
    "C10": "aliasing deeper than one level and effects hidden inside pandas / numpy calls outside the modelled in-place list",
    "C11": "value fidelity of individual timestamps / floats / dtypes through JSON",
    "C12": "Timegrid.dt on DST / month grids numerically (pandas calendar arithmetic)",
    "C13": "equality with the constrained fine problem; averaging of limits and prices",
    "C14": "equality / ordering of split and unsplit optima",
    "C15": "that re-optimisation reproduces the values / the value is unchanged",
    "C16": "equivalence of optima between wrapper and wrapped formulation",
    "C17": "every inequality of the property (values of SLP vs scenario optima): they need a solver",
    "C18": "sign, scale and the supergradient inequality of solver duals",
    "C19": "monotonicity of time points, DST arithmetic, pass-through of gridded prices (pandas runtime)",
    "C20": "equality with an independent order-book formulation",
}

EXTRA_ASSUMPTIONS = {}


def explanation(prop: str, rules_run: list) -> str:
    parts = []
    for r in rules_run:
        parts.append("%s: %s" % (r, tables.TITLES.get(r, "(untitled)")))
    txt = ("Static rule checking on the AST of /repo/eaopack (no execution, no solver). Each rule is a necessary "
           "structural condition of %s, checked on every path of every class it applies to. Rules decided in this run - "
           % prop) + " ; ".join(parts) + ". NOT decided: " + NOT_DECIDED.get(prop, "the behaviour itself") + "."
    return txt


def assumptions(prop: str) -> list:
    return list(EXTRA_ASSUMPTIONS.get(prop, []))
