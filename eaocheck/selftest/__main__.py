"""/venv/bin/python -m eaocheck.selftest --setup   : offline sanity check of the analyser itself (MANIFEST.setup_cmd)."""
import sys
import os
import argparse


def main():
    ap = argparse.ArgumentParser()
    ap.add_argument("--setup", action="store_true")
    ap.add_argument("--repo", default=os.environ.get("EAO_REPO", "/repo"))
    args = ap.parse_args()
    from ..ir import Program
    from .. import rules
    p = Program(args.repo)
    an = rules.load_all()
    print("eaocheck ready: %d analyses, %s" % (len(an), p.stats()))
    os.makedirs(os.path.join(os.path.dirname(os.path.dirname(os.path.dirname(os.path.abspath(__file__)))), "evidence"), exist_ok=True)
    return 0


if __name__ == "__main__":
    sys.exit(main())
