"""Self-tests of the checker (positive examples, breakers, neutral twins). See __main__.py."""
