"""eaocheck - repository-specific static analysis of EnergyAssetOptimization/EAO (see /verif/DESIGN.md).

Pure standard-library `ast` analysis. Nothing in this package imports or executes `eaopack`.
"""
__all__ = ["ir", "astutil", "flow", "report", "tables"]
