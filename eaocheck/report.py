"""Obligations, verdicts, known findings, evidence and replay files."""
from __future__ import annotations
import hashlib
import json
import os
import time
from dataclasses import dataclass, field, asdict
from typing import Optional
from . import astutil as au
from .ir import Program, AnalysisError, FuncInfo
from .flow import FnFlow, Origins

VERIF_DIR = os.path.dirname(os.path.dirname(os.path.abspath(__file__)))
EVIDENCE_DIR = os.path.join(VERIF_DIR, "evidence")
REPLAY_DIR = os.path.join(EVIDENCE_DIR, "replay")
KNOWN_FILE = os.path.join(VERIF_DIR, "known_findings.jsonl")

HOLDS, VIOLATED, UNDECIDED, NOTE = "holds", "violated", "undecided", "note"


@dataclass
class Ob:
    rule: str
    fn: str            # qualified function / class the construct lives in (part of the key)
    construct: str     # normalised text of the construct (part of the key; never a line number)
    verdict: str
    detail: str = ""
    where: str = ""    # file:line for the human reader (not part of the key)
    trivial: bool = False
    key_construct: str = ""   # optional stable replacement of `construct` in the key (free of local-variable names)

    @property
    def key(self) -> str:
        return "%s|%s|%s" % (self.rule, self.fn, self.key_construct or self.construct)


class Context:
    def __init__(self, program: Program, tier: str = "quick", seed: int = 0):
        self.p = program
        self.tier = tier
        self.seed = seed
        self.obs: list = []
        self._flows: dict = {}
        self._memo: dict = {}
        self.anchor_errors: list = []

    # -- cached per-function dataflow
    def flow(self, fn: FuncInfo) -> FnFlow:
        if fn not in self._flows:
            self._flows[fn] = FnFlow(fn)
        return self._flows[fn]

    def origins(self, fn: FuncInfo, values_only: bool = False) -> Origins:
        return Origins(self.flow(fn), values_only=values_only)

    def resolve(self, fn, expr, at, depth: int = 4):
        """Follow a local with exactly one reaching plain definition to the defining expression (rules that match the shape
        of an expression must not depend on whether it was given a name first)."""
        import ast as _ast
        while depth and isinstance(expr, _ast.Name):
            ds = list(self.flow(fn).defs(expr.id, at))
            if len(ds) != 1 or ds[0].kind != "assign" or ds[0].value is None or ds[0].index not in (None, ()):
                break
            at, expr = ds[0].node, ds[0].value
            depth -= 1
        return expr

    def memo(self, key, compute):
        if key not in self._memo:
            self._memo[key] = compute()
        return self._memo[key]

    # -- recording
    def ob(self, rule: str, fn, construct, ok, detail: str = "", node=None, trivial: bool = False, ok_detail: str = "", key: str = "") -> Ob:
        """ok: True holds / False violated / None undecided.  `detail` explains a violation / undecided verdict and is
        dropped when the obligation holds (use ok_detail to say why it holds)."""
        if ok is True:
            detail = ok_detail
        fq = fn.qualname if isinstance(fn, FuncInfo) else str(fn)
        cons = construct if isinstance(construct, str) else au.short(construct, 160)
        verdict = HOLDS if ok is True else (VIOLATED if ok is False else UNDECIDED)
        where = ""
        n = node if node is not None else (construct if not isinstance(construct, str) else None)
        if n is not None and hasattr(n, "lineno"):
            where = self.p.where(n, fn if isinstance(fn, FuncInfo) else None)
        elif isinstance(fn, FuncInfo):
            where = self.p.where(fn.node, fn)
        o = Ob(rule, fq, cons, verdict, detail, where, trivial, key)
        self.obs.append(o)
        return o

    def note(self, rule: str, fn, construct, detail: str = "", node=None) -> Ob:
        o = self.ob(rule, fn, construct, True, detail, node)
        o.verdict = NOTE
        return o

    def require(self, cond, msg: str, rules=None):
        """Schema-level anchor: when it is gone the analysis cannot run (exit 2), never a silent pass.  `rules` names the rules
        the anchor belongs to: it only counts for a property that one of them serves (an analysis module holds rules of several
        properties; a vanished anchor of one of them must not break the checks of the others)."""
        if cond:
            return
        cur = getattr(self, "current_rules", None)
        if rules is not None and cur is not None and not (set(rules) & set(cur)):
            return
        raise AnalysisError(msg)


# ---------------------------------------------------------------------------------------------- known findings


def load_known(path: str = KNOWN_FILE) -> list:
    out = []
    if not os.path.exists(path):
        return out
    with open(path, "r", encoding="utf-8") as f:
        for line in f:
            line = line.strip()
            if not line or line.startswith("#"):
                continue
            out.append(json.loads(line))
    return out


def match_known(ob: Ob, known: list) -> Optional[dict]:
    for k in known:
        if k.get("status") != "known":
            continue  # a 'fixed' entry suppresses nothing
        if k.get("rule") == ob.rule and k.get("key") == ob.key:
            return k
    return None


# ---------------------------------------------------------------------------------------------- outcome of one property run


@dataclass
class Outcome:
    property_id: str
    tier: str
    obs: list
    floors_missing: list = field(default_factory=list)
    error: Optional[str] = None
    wall_s: float = 0.0
    extra: dict = field(default_factory=dict)

    def violations(self, known):
        new, listed = [], []
        for o in self.obs:
            if o.verdict != VIOLATED:
                continue
            k = match_known(o, known)
            (listed if k else new).append((o, k))
        return new, listed


def write_replay(prop: str, ob: Ob) -> str:
    os.makedirs(REPLAY_DIR, exist_ok=True)
    h = hashlib.sha1(ob.key.encode()).hexdigest()[:10]
    path = os.path.join(REPLAY_DIR, "%s-%s-%s.json" % (prop, ob.rule.replace(".", "_"), h))
    with open(path, "w", encoding="utf-8") as f:
        json.dump({"property": prop, "rule": ob.rule, "key": ob.key, "fn": ob.fn, "construct": ob.construct,
                   "where": ob.where, "detail": ob.detail}, f, indent=1)
    return path


def write_evidence(out: Outcome, program: Optional[Program], rules_run: list, explanation: str, known: list,
                   assumptions: list, seed: int) -> str:
    os.makedirs(EVIDENCE_DIR, exist_ok=True)
    obs = [o for o in out.obs if o.verdict != NOTE]
    notes = [o for o in out.obs if o.verdict == NOTE]
    new, listed = out.violations(known)
    distinct = {o.key for o in obs if not o.trivial}
    by_rule = {}
    for o in obs:
        r = by_rule.setdefault(o.rule, {"obligations": 0, "holds": 0, "violated": 0, "undecided": 0})
        r["obligations"] += 1
        r[o.verdict] += 1
    samples = []
    seen_rules = set()
    for o in obs:  # one sample per rule first, then violations
        if o.rule not in seen_rules:
            seen_rules.add(o.rule)
            samples.append({"rule": o.rule, "where": o.where, "function": o.fn, "construct": o.construct,
                            "verdict": o.verdict, "detail": o.detail[:300]})
    for o, _ in (new + listed)[:20]:
        samples.append({"rule": o.rule, "where": o.where, "function": o.fn, "construct": o.construct,
                        "verdict": o.verdict, "detail": o.detail[:300]})
    cov = {
        "explanation": explanation,
        "obligations": len(obs),
        "discharged": sum(1 for o in obs if o.verdict == HOLDS),
        "undecided": sum(1 for o in obs if o.verdict == UNDECIDED),
        "violated_new": len(new),
        "violated_known": len(listed),
        "notes": len(notes),
        "evaluations": max(len(obs), 1) if obs else 0,
        "distinct_nontrivial": len(distinct),
        "rule": "one evaluation = one rule instance (obligation) found in the current source of /repo/eaopack; distinct = "
                "distinct (rule, function, normalised construct) keys; an instance is trivial when the rule's own "
                "non-triviality test says so (e.g. a same-selector group with a single member)",
        "samples": samples[:40],
        "rules": by_rule,
        "rules_run": rules_run,
        "known_findings": [{"rule": o.rule, "key": o.key, "what": (k or {}).get("what", "")} for o, k in listed],
        "checker_cmd": "/venv/bin/python -m eaocheck --property %s --tier %s" % (out.property_id, out.tier),
        "trusted_base": ["CPython 3.12 ast module", "frozen tables in eaocheck/tables.py", "schema vocabulary of DESIGN.md section 3"],
        "exhaustive": False,
    }
    if program is not None:
        cov["analysed"] = program.stats()
    cov.update(out.extra)
    ev = {
        "property_id": out.property_id,
        "tier": out.tier,
        "seed": seed,
        "level": "other",
        "coverage": cov,
        "assumptions": assumptions,
        "wall_s": round(out.wall_s, 3),
        "violations": len(new),
    }
    if out.error:
        ev["coverage"]["analysis_error"] = out.error
    path = os.path.join(EVIDENCE_DIR, "%s.json" % out.property_id)
    tmp = path + ".tmp"
    with open(tmp, "w", encoding="utf-8") as f:
        json.dump(ev, f, indent=1, sort_keys=False)
    os.replace(tmp, path)
    return path
