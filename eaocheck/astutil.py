"""Small AST helpers shared by every engine and rule."""
from __future__ import annotations
import ast
from typing import Iterator, Optional, Iterable

FUNC_NODES = (ast.FunctionDef, ast.AsyncFunctionDef, ast.Lambda)
SCOPE_NODES = FUNC_NODES + (ast.ClassDef,)


def U(node) -> str:
    """Normalised source text of a node (formatting, comments and line numbers are gone)."""
    if node is None:
        return "None"
    if isinstance(node, str):
        return node
    try:
        return ast.unparse(node).strip()
    except Exception:  # pragma: no cover - defensive
        return "<%s>" % type(node).__name__


def short(node, n: int = 110) -> str:
    s = U(node).replace("\n", " ")
    return s if len(s) <= n else s[: n - 3] + "..."


def walk_local(node, include_self: bool = True) -> Iterator[ast.AST]:
    """ast.walk that does not descend into nested function / class / lambda bodies."""
    stack = [node]
    first = True
    while stack:
        n = stack.pop()
        if not first and isinstance(n, SCOPE_NODES):
            # the nested definition itself is visited (so that rules can see it), its body is not
            yield n
            continue
        if first:
            first = False
            if include_self:
                yield n
        else:
            yield n
        stack.extend(reversed(list(ast.iter_child_nodes(n))))


def walk_stmts(body: Iterable[ast.stmt]) -> Iterator[ast.stmt]:
    """All statements nested in a body (not inside nested defs)."""
    for s in body:
        yield s
        for fld in ("body", "orelse", "finalbody"):
            sub = getattr(s, fld, None)
            if sub and not isinstance(s, SCOPE_NODES):
                yield from walk_stmts(sub)
        if isinstance(s, ast.Try):
            for h in s.handlers:
                yield from walk_stmts(h.body)
        if isinstance(s, ast.Match):  # pragma: no cover - not used by eaopack
            for c in s.cases:
                yield from walk_stmts(c.body)


def attr_chain(node) -> Optional[list]:
    """['self','timegrid','restricted','dt'] for self.timegrid.restricted.dt; None if not a pure chain."""
    out = []
    while isinstance(node, ast.Attribute):
        out.append(node.attr)
        node = node.value
    if isinstance(node, ast.Name):
        out.append(node.id)
        return list(reversed(out))
    return None


def dotted(node) -> Optional[str]:
    c = attr_chain(node)
    return ".".join(c) if c else None


def path(node) -> Optional[str]:
    """Access path with constant subscripts kept: op.mapping['type'] ; None when not a pure access path."""
    parts = []
    while True:
        if isinstance(node, ast.Attribute):
            parts.append("." + node.attr)
            node = node.value
        elif isinstance(node, ast.Subscript) and isinstance(node.slice, ast.Constant):
            parts.append("[%r]" % (node.slice.value,))
            node = node.value
        elif isinstance(node, ast.Name):
            parts.append(node.id)
            return "".join(reversed(parts))
        else:
            return None


def base_name(node) -> Optional[str]:
    """Root Name id of an attribute / subscript / call-on-attribute chain (x in x.a[b].c)."""
    while True:
        if isinstance(node, (ast.Attribute, ast.Subscript, ast.Starred)):
            node = node.value
        elif isinstance(node, ast.Call):
            node = node.func
        elif isinstance(node, ast.Name):
            return node.id
        else:
            return None


def terminal(node) -> Optional[str]:
    """Last identifier of a Name / Attribute (cType in op.cType)."""
    if isinstance(node, ast.Attribute):
        return node.attr
    if isinstance(node, ast.Name):
        return node.id
    return None


def call_name(node) -> Optional[str]:
    """Dotted callee of a Call ('np.hstack', 'self.set_timegrid', 'super().setup_optim_problem')."""
    if not isinstance(node, ast.Call):
        return None
    f = node.func
    if isinstance(f, ast.Attribute) and isinstance(f.value, ast.Call) and isinstance(f.value.func, ast.Name) \
            and f.value.func.id == "super":
        return "super()." + f.attr
    d = dotted(f)
    if d:
        return d
    if isinstance(f, ast.Attribute):
        return "?." + f.attr
    return None


def method_name(node) -> Optional[str]:
    """Attribute name of a method call x.y.m(...) -> 'm'; plain function f(...) -> 'f'."""
    if not isinstance(node, ast.Call):
        return None
    f = node.func
    if isinstance(f, ast.Attribute):
        return f.attr
    if isinstance(f, ast.Name):
        return f.id
    return None


def const_str(node) -> Optional[str]:
    if isinstance(node, ast.Constant) and isinstance(node.value, str):
        return node.value
    return None


def const_num(node):
    if isinstance(node, ast.Constant) and isinstance(node.value, (int, float)) and not isinstance(node.value, bool):
        return node.value
    if isinstance(node, ast.UnaryOp) and isinstance(node.op, ast.USub):
        v = const_num(node.operand)
        return -v if v is not None else None
    return None


def names_loaded(node) -> set:
    return {n.id for n in walk_local(node) if isinstance(n, ast.Name) and isinstance(n.ctx, ast.Load)}


def names_in(node) -> set:
    return {n.id for n in walk_local(node) if isinstance(n, ast.Name)}


def target_names(t) -> list:
    """Plain names bound by an assignment / for target (tuples flattened)."""
    out = []
    if isinstance(t, ast.Name):
        out.append(t.id)
    elif isinstance(t, (ast.Tuple, ast.List)):
        for e in t.elts:
            out.extend(target_names(e))
    elif isinstance(t, ast.Starred):
        out.extend(target_names(t.value))
    return out


def stmt_targets(s) -> list:
    """Target expressions of an assignment-like statement."""
    if isinstance(s, ast.Assign):
        return list(s.targets)
    if isinstance(s, (ast.AugAssign, ast.AnnAssign)):
        return [s.target]
    return []


def parents_map(tree) -> dict:
    pm = {}
    for n in ast.walk(tree):
        for c in ast.iter_child_nodes(n):
            pm[c] = n
    return pm


def kwarg(call: ast.Call, name: str):
    for k in call.keywords:
        if k.arg == name:
            return k.value
    return None


def arg_or_kw(call: ast.Call, pos: int, name: str):
    v = kwarg(call, name)
    if v is not None:
        return v
    if pos is not None and pos < len(call.args) and not any(isinstance(a, ast.Starred) for a in call.args[: pos + 1]):
        return call.args[pos]
    return None


def strip_not(test):
    """(expr, polarity) with leading `not`s removed."""
    pol = True
    while isinstance(test, ast.UnaryOp) and isinstance(test.op, ast.Not):
        test = test.operand
        pol = not pol
    return test, pol


def is_none(node) -> bool:
    return isinstance(node, ast.Constant) and node.value is None


def none_test(test):
    """If test is `X is None` / `X is not None` / `not X is None` ... return (X, is_none_when_true) else None."""
    t, pol = strip_not(test)
    if isinstance(t, ast.Compare) and len(t.ops) == 1 and isinstance(t.ops[0], (ast.Is, ast.IsNot, ast.Eq, ast.NotEq)):
        l, r = t.left, t.comparators[0]
        if is_none(r):
            x = l
        elif is_none(l):
            x = r
        else:
            return None
        isnone = isinstance(t.ops[0], (ast.Is, ast.Eq))
        return x, (isnone if pol else not isnone)
    return None


def contains(node, pred) -> bool:
    return any(pred(n) for n in walk_local(node))


def find_all(node, typ) -> list:
    return [n for n in walk_local(node) if isinstance(n, typ)]


def subscript_index(node):
    """The index expression of a Subscript (py>=3.9: node.slice)."""
    return node.slice if isinstance(node, ast.Subscript) else None


def flatten_binop(node, op_types) -> list:
    """Flatten a left-assoc chain a op b op c for the given operator classes."""
    if isinstance(node, ast.BinOp) and isinstance(node.op, op_types):
        return flatten_binop(node.left, op_types) + flatten_binop(node.right, op_types)
    return [node]


def flatten_boolop(node, op_type) -> list:
    if isinstance(node, ast.BoolOp) and isinstance(node.op, op_type):
        out = []
        for v in node.values:
            out.extend(flatten_boolop(v, op_type))
        return out
    return [node]


def flatten_bitand(node) -> list:
    """Conjuncts of a pandas/numpy mask expression `a & b & c` (parentheses are gone in the AST)."""
    if isinstance(node, ast.BinOp) and isinstance(node.op, ast.BitAnd):
        return flatten_bitand(node.left) + flatten_bitand(node.right)
    return [node]


def walk_own(stmt) -> Iterator[ast.AST]:
    """Expression nodes that belong to a statement itself: for compound statements only the header expressions,
    never the nested statements (each of which is visited on its own by walk_stmts)."""
    if isinstance(stmt, (ast.If, ast.While)):
        roots = [stmt.test]
    elif isinstance(stmt, (ast.For, ast.AsyncFor)):
        roots = [stmt.target, stmt.iter]
    elif isinstance(stmt, (ast.With, ast.AsyncWith)):
        roots = [x for it in stmt.items for x in (it.context_expr, it.optional_vars) if x is not None]
    elif isinstance(stmt, (ast.Try,)):
        roots = []
    elif isinstance(stmt, SCOPE_NODES):
        roots = []
    else:
        roots = [stmt]
    for r in roots:
        yield from walk_local(r)


def sign_of(e) -> int:
    """Syntactic sign of a product expression: -a @ b -> -1 ; a * (-b) -> -1 ; anything else +1."""
    if isinstance(e, ast.UnaryOp) and isinstance(e.op, ast.USub):
        return -sign_of(e.operand)
    if isinstance(e, ast.UnaryOp) and isinstance(e.op, ast.UAdd):
        return sign_of(e.operand)
    if isinstance(e, ast.BinOp) and isinstance(e.op, (ast.MatMult, ast.Mult, ast.Div)):
        return sign_of(e.left) * sign_of(e.right)
    if isinstance(e, ast.Call) and method_name(e) in ("sum",) and e.args:
        return sign_of(e.args[0])
    c = const_num(e)
    if c is not None and c < 0:
        return -1
    return 1


def stmt_lists(body, guards=()):
    """Every statement list nested in `body` (not inside nested defs) with the chain of enclosing headers:
    yields (list, guards) where guards = ((kind, node, polarity), ...) with kind 'if' / 'loop' / 'try' / 'with'."""
    body = list(body)
    yield body, tuple(guards)
    for s in body:
        if isinstance(s, SCOPE_NODES):
            continue
        if isinstance(s, ast.If):
            yield from stmt_lists(s.body, tuple(guards) + (("if", s.test, True),))
            if s.orelse:
                yield from stmt_lists(s.orelse, tuple(guards) + (("if", s.test, False),))
        elif isinstance(s, (ast.For, ast.AsyncFor, ast.While)):
            yield from stmt_lists(s.body, tuple(guards) + (("loop", s, True),))
            if s.orelse:
                yield from stmt_lists(s.orelse, tuple(guards))
        elif isinstance(s, ast.Try):
            yield from stmt_lists(s.body, tuple(guards) + (("try", s, True),))
            for h in s.handlers:
                yield from stmt_lists(h.body, tuple(guards) + (("try", s, False),))
            if s.orelse:
                yield from stmt_lists(s.orelse, tuple(guards) + (("try", s, True),))
            if s.finalbody:
                yield from stmt_lists(s.finalbody, tuple(guards))
        elif isinstance(s, (ast.With, ast.AsyncWith)):
            yield from stmt_lists(s.body, tuple(guards))
