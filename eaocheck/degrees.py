"""E5 - degree (dimension) analysis.

Every numeric expression carries a *set* of possible degrees (one per path that reaches it); a degree is a pair of integer
exponents (T, D): T = main time unit, D = discount factor.  'N' (neutral: zeros / ones / literals / absolute times) is the
multiplicative identity and adopts the other operand's degree under + and -.  'T' (Top) is unknown.

  x * y   adds exponents          x / y   subtracts           x + y, x - y, x[..] = y   need equal degrees (a definite
  mismatch is recorded as a *conflict* at that construct)

Seeds come from a frozen table derived from the constructor docstrings (rates are per main time unit: T^-1, durations T^1,
volumes / prices / efficiencies T^0) and from the schema vocabulary (dt, Dt: T^1; discount_factors: D^1).
"""
from __future__ import annotations
import ast
from . import astutil as au
from . import canon
from .flow import Domain, Walker
from .carriers import local_roles

N, TOP = "N", "T"
MAXSET = 8

# ------------------------------------------------------------------------------------------------ seeds (T exponent), one reason per line
SEEDS = {
    "Storage": {
        "cap_in": -1, "cap_out": -1,     # doc: maximum flow rate
        "inflow": -1,                     # doc: constant rate of inflow volumes
        "cost_store": -1,                 # doc: $/volume/main time unit
        "size": 0, "start_level": 0, "end_level": 0,   # volumes
        "cost_in": 0, "cost_out": 0,      # doc: $/volume
        "eff_in": 0,
        "max_store_duration": 1,          # doc: duration in main time units
    },
    "SimpleContract": {
        "min_cap": -1, "max_cap": -1,     # doc: flow / capacity
        "extra_costs": 0,                 # added to the price ($/volume)
    },
    "Contract": {"min_take": 0, "max_take": 0},           # doc: volume within period
    "MultiCommodityContract": {"factors_commodities": 0},
    "Transport": {
        "min_cap": -1, "max_cap": -1,     # doc: flow / capacity
        "costs_const": 0, "efficiency": 0,
    },
    "ExtendedTransport": {"min_take": 0, "max_take": 0},
    "CHPAsset": {
        "ramp": -1, "last_dispatch": -1,                  # use: multiplied by the step length
        "running_costs": -1, "consumption_if_on": -1,     # use: make_vector(convert=True)
        "start_costs": 0, "start_fuel": 0, "fuel_efficiency": 0, "conversion_factor_power_heat": 0, "max_share_heat": 0,
        "min_runtime": 1, "time_already_running": 1, "min_downtime": 1, "time_already_off": 1,   # doc: in main time unit
        # start / shutdown ramp bounds are NOT seeded: they are converted (x step length) only under `if self.start_ramp_time:`
        # and are None otherwise - a correlation the path-insensitive union cannot see (would be a false conflict)
    },
    "CHPAsset_with_min_load_costs": {"min_load_threshhold": -1, "min_load_costs": -1},   # use: make_vector(convert=True)
    "ScaledAsset": {"fix_costs": -1, "min_scale": 0, "max_scale": 0, "norm_scale": 0},    # doc: costs per norm scale and per main time unit
    "LinkedAsset": {"time_back": 1, "time_forward": 1, "asset2_time_already_running": 1},
    "Asset": {"wacc": 0},
}
ORDER_KEYS = {"capa": -1, "price": 0}     # doc: capacity (a rate), price
GRID_T1 = {"dt", "Dt"}
GRID_D1 = {"discount_factors"}
GRID_NEUTRAL = {"T", "I", "timepoints", "start", "end", "tz", "freq", "I_minor_in_major"}

PASS_FIRST = {"tile", "asarray", "array", "cumsum", "flatten", "copy", "astype", "abs", "sum", "mean", "reshape", "transpose", "ravel",
              "squeeze", "tolist", "toarray", "diags", "tril", "sort", "unique", "float", "int", "max", "min", "average", "interp_y",
              "nan_to_num", "ceil", "floor", "round", "lil_matrix_from", "coo_matrix", "csr_matrix", "csc_matrix", "negative"}
STACK = {"hstack", "vstack", "concatenate", "append"}
NEUTRAL_CALLS = {"zeros", "ones", "empty", "eye", "identity", "arange", "len", "range", "isnan", "where", "argwhere", "full_like_n", "lil_matrix",
                 "Timestamp", "to_datetime", "date_range", "all", "any", "isinstance", "hasattr", "str", "DataFrame", "Series", "get_indexer",
                 "enumerate_n", "fill", "print"}


def deg(t=0, d=0):
    return frozenset([(t, d)])


NEUTRAL = frozenset([N])
UNKNOWN = frozenset([TOP])


def show1(x):
    if x == N:
        return "neutral"
    if x == TOP:
        return "?"
    t, d = x
    return "T^%d D^%d" % (t, d)


def show(s):
    return "{" + ", ".join(sorted(show1(x) for x in s)) + "}" if s else "{}"


def _cap(s):
    if len(s) > MAXSET:
        return UNKNOWN
    return frozenset(s)


def mul(a, b, sign=1):
    out = set()
    for x in a:
        for y in b:
            if x == TOP or y == TOP:
                out.add(TOP)
            elif x == N and y == N:
                out.add(N)
            elif y == N:
                out.add(x)
            elif x == N:
                out.add((sign * y[0], sign * y[1]))
            else:
                out.add((x[0] + sign * y[0], x[1] + sign * y[1]))
    return _cap(out)


def add(a, b, conflicts=None, where=None):
    """Result of a + b / a - b / storing b into elements of a.  Definite mismatches are appended to `conflicts`."""
    if not a:
        return b
    if not b:
        return a
    out = set()
    for x in a:
        for y in b:
            if x == TOP or y == TOP:
                out.add(TOP if (x == TOP and y == TOP) else (y if x == TOP else x))
                if x == TOP and y == TOP:
                    pass
            elif x == N:
                out.add(y)
            elif y == N:
                out.add(x)
            elif x == y:
                out.add(x)
            else:
                if conflicts is not None:
                    conflicts.append((where, x, y))
                out.add(x)
    return _cap(out)


def union(a, b):
    return _cap(set(a) | set(b))


class DegEval:
    """Expression evaluator.  `env` maps local names and attribute paths ('op.c') to degree sets."""

    def __init__(self, program, fn, cls_for_seeds=None, summaries=None):
        self.p = program
        self.fn = fn
        self.cls = cls_for_seeds or fn.cls
        self.seeds = {}
        if self.cls is not None:
            for c in reversed(program.mro(self.cls)):
                self.seeds.update(SEEDS.get(c.name, {}))
        self.summaries = summaries or {}
        self.conflicts = []

    # -- helpers
    def seed_attr(self, attr):
        if attr in self.seeds:
            return deg(self.seeds[attr], 0)
        return None

    def ev(self, e, env):
        if e is None:
            return UNKNOWN
        if isinstance(e, ast.Constant):
            return NEUTRAL
        if isinstance(e, ast.Name):
            if e.id in env:
                return env[e.id]
            if e.id in ("True", "False", "None"):
                return NEUTRAL
            return UNKNOWN
        if isinstance(e, ast.Attribute):
            p = au.path(e)
            if p is not None and p in env:
                return env[p]
            if e.attr in GRID_T1 and ("timegrid" in (p or "") or "restricted" in (p or "") or (self.cls is not None and self.cls.name == "Timegrid")):
                return deg(1, 0)
            if e.attr in GRID_D1:
                return deg(0, 1)
            if e.attr in GRID_NEUTRAL and ("timegrid" in (p or "") or "restricted" in (p or "")):
                return NEUTRAL
            if isinstance(e.value, ast.Name) and e.value.id == "self":
                s = self.seed_attr(e.attr)
                if s is not None:
                    return s
                if e.attr in ("name", "nodes", "node_names", "n", "heat_idx", "on_idx", "start_idx", "shutdown_idx", "idx_nodes", "freq", "start", "end"):
                    return NEUTRAL
                return UNKNOWN
            if e.attr in ("values", "T"):
                return self.ev(e.value, env)
            if p in ("np.nan", "np.inf", "np.pi"):
                return NEUTRAL
            return UNKNOWN
        if isinstance(e, ast.UnaryOp):
            if isinstance(e.op, ast.Not):
                return NEUTRAL
            return self.ev(e.operand, env)
        if isinstance(e, ast.BinOp):
            # durations: <timedelta> / pd.Timedelta(1, <unit>)  ->  T^1 ;  x * pd.Timedelta(1, unit) -> x * T^-1
            l, r = e.left, e.right
            if isinstance(e.op, (ast.Mult, ast.MatMult)):
                return mul(self.ev(l, env), self.ev(r, env))
            if isinstance(e.op, (ast.Div, ast.FloorDiv)):
                return mul(self.ev(l, env), self.ev(r, env), -1)
            if isinstance(e.op, (ast.Add, ast.Sub)):
                return add(self.ev(l, env), self.ev(r, env), self.conflicts, e)
            if isinstance(e.op, ast.Pow):
                ex = self.ev(r, env)
                bad = [x for x in ex if x not in (N, TOP) and x != (0, 0)]
                if bad:
                    self.conflicts.append((e, ("exponent",), bad[0]))
                b = self.ev(l, env)
                if b <= frozenset([N, (0, 0)]):
                    return b
                return UNKNOWN
            if isinstance(e.op, (ast.BitAnd, ast.BitOr, ast.Mod)):
                return NEUTRAL
            return UNKNOWN
        if isinstance(e, ast.Compare):
            # a quantity with a time dimension compared with a pure number (other than 0) makes the outcome depend on the unit
            sides = [e.left] + list(e.comparators)
            vals = [self.ev(x, env) for x in sides]
            for x, v in zip(sides, vals):
                definite = [d for d in v if d not in (N, TOP)]
                if definite and all(d[0] != 0 for d in definite):
                    for y in sides:
                        c = au.const_num(y)
                        if y is not x and c is not None and c != 0:
                            self.conflicts.append((e, ("threshold",), definite[0]))
            return NEUTRAL
        if isinstance(e, ast.BoolOp):
            for v in e.values:
                self.ev(v, env)
            return NEUTRAL
        if isinstance(e, ast.IfExp):
            return union(self.ev(e.body, env), self.ev(e.orelse, env))
        if isinstance(e, ast.Subscript):
            base = e.value
            k = au.const_str(e.slice)
            if k is not None:
                # prices[...] are T^0 D^0; orders have a keyed table
                bp = au.path(base) or ""
                if bp.endswith("orders") and k in ORDER_KEYS:
                    return deg(ORDER_KEYS[k], 0)
                if isinstance(base, ast.Name) and base.id in ("prices", "price_samples") :
                    return deg(0, 0)
                if k in ("values",):
                    return self.ev(base, env)
                pth = au.path(e)
                if pth in env:
                    return env[pth]
                if k in ("time_step", "node", "asset", "type", "var_name", "bool", "start", "end"):
                    return NEUTRAL
                if k == "disp_factor":
                    return deg(0, 0)
                return UNKNOWN
            if isinstance(base, ast.Name) and base.id == "prices":
                return deg(0, 0)
            return self.ev(base, env)
        if isinstance(e, (ast.Tuple, ast.List)):
            out = frozenset()
            for x in e.elts:
                out = union(out, self.ev(x, env))
            return out or NEUTRAL
        if isinstance(e, (ast.ListComp, ast.GeneratorExp)):
            env2 = dict(env)
            for g in e.generators:
                it = self.ev(g.iter, env)
                for nm in au.target_names(g.target):
                    env2[nm] = it if not (isinstance(g.iter, ast.Call) and au.method_name(g.iter) in ("range", "enumerate")) else NEUTRAL
            return self.ev(e.elt, env2)
        if isinstance(e, ast.Call):
            return self.call(e, env)
        return UNKNOWN

    def call(self, e, env):
        m = au.method_name(e)
        cn = au.call_name(e) or ""
        f = e.func
        args = canon.pos_args(e)     # package callees are spelled with keywords after canonicalisation
        if m == "Timedelta":
            # pd.Timedelta(1, <x>.main_time_unit): one main time unit as absolute time  ->  T^-1 ; any other: absolute time (neutral)
            if len(args) >= 2 and "main_time_unit" in au.U(args[1]):
                return deg(-1, 0)
            return NEUTRAL
        if m in NEUTRAL_CALLS and not (m in ("max", "min")):
            return NEUTRAL
        if m == "make_vector":
            v = self.ev(args[0], env) if args else UNKNOWN
            conv = au.kwarg(e, "convert")
            if conv is None and len(args) >= 4:
                conv = args[3]
            if isinstance(conv, ast.Constant) and conv.value is True:
                v = mul(v, deg(1, 0))
            return v
        if m in ("values_to_grid", "prep_date_dict"):
            return self.ev(args[0], env) if args else UNKNOWN
        if m == "convert_time_unit":
            # value [old_freq] -> value * old/new. With old = grid freq, new = main unit: one grid step in main units (T^1)
            v = au.kwarg(e, "value") or (args[0] if args else None)
            new = au.kwarg(e, "new_freq") or (args[2] if len(args) > 2 else None)
            old = au.kwarg(e, "old_freq") or (args[1] if len(args) > 1 else None)
            if new is not None and "main_time_unit" in au.U(new):
                return mul(self.ev(v, env), deg(1, 0))
            if old is not None and "main_time_unit" in au.U(old):
                return mul(self.ev(v, env), deg(-1, 0))
            return UNKNOWN
        if m == "convert_to_timegrid_freq":
            v = au.kwarg(e, "time_value") or (args[0] if args else None)
            old = au.kwarg(e, "old_freq") or (args[2] if len(args) > 2 else None)
            if old is None or au.is_none(old):
                return mul(self.ev(v, env), deg(-1, 0))     # main time units -> number of grid steps
            return UNKNOWN
        if m == "_convert_ramp":
            return self.ev(args[0], env) if args else UNKNOWN
        if m in STACK:
            out = frozenset()
            parts = []
            if args and isinstance(args[0], (ast.Tuple, ast.List)):
                parts = list(args[0].elts)
            else:
                parts = list(args[:2])
            for x in parts:
                out = union(out, self.ev(x, env))
            return out or NEUTRAL
        if m in ("minimum", "maximum") and len(args) == 2:
            return add(self.ev(args[0], env), self.ev(args[1], env), self.conflicts, e)
        if m in ("max", "min") and isinstance(f, ast.Name) and len(args) == 2:
            return add(self.ev(args[0], env), self.ev(args[1], env), self.conflicts, e)
        if m in PASS_FIRST or m in ("max", "min"):
            if isinstance(f, ast.Attribute) and au.dotted(f.value) not in ("np", "numpy", "sp", "pd", "scipy.sparse"):
                return self.ev(f.value, env)
            if args:
                return self.ev(args[0], env)
            return UNKNOWN
        if m in ("insert", "drop", "union", "delete", "sort_values", "tz_localize", "tz_convert") and isinstance(f, ast.Attribute) \
                and au.dotted(f.value) not in ("np", "numpy", "sp", "pd"):
            return self.ev(f.value, env)          # an Index with a point added / removed is still a sequence of the same kind
        if m == "get" and isinstance(f, ast.Attribute):
            return UNKNOWN
        # eaopack set-up: summary of the returned problem
        if m == "setup_optim_problem":
            return frozenset(["PROBLEM"])
        return UNKNOWN


class _Env(Domain):
    def __init__(self, an):
        self.an = an

    def initial(self, fn):
        return dict(self.an.init_env)

    def join(self, a, b):
        if a is b:
            return a
        out = dict(a)
        for k, v in b.items():
            out[k] = union(out[k], v) if k in out else v
        return out

    def equal(self, a, b):
        return a == b

    def stmt(self, s, node):
        return self.an.transfer(s, node)

    def bind_loop(self, s, node):
        env = dict(s)
        it = node.iter
        val = self.an.ev.ev(it, s)
        names = au.target_names(node.target)
        if isinstance(it, ast.Call) and au.method_name(it) == "range":
            for nm in names:
                env[nm] = NEUTRAL
        elif isinstance(it, ast.Call) and au.method_name(it) == "enumerate" and isinstance(node.target, ast.Tuple) and len(node.target.elts) == 2:
            env[au.U(node.target.elts[0])] = NEUTRAL
            v = self.an.ev.ev(it.args[0], s) if it.args else UNKNOWN
            for nm in au.target_names(node.target.elts[1]):
                env[nm] = v
        elif isinstance(it, ast.Call) and au.method_name(it) == "zip" and isinstance(node.target, ast.Tuple) and len(node.target.elts) == len(it.args):
            for t, a in zip(node.target.elts, it.args):
                for nm in au.target_names(t):
                    env[nm] = self.an.ev.ev(a, s)
        elif isinstance(it, ast.Call) and au.method_name(it) == "iterrows":
            for nm in names:
                env[nm] = UNKNOWN
        else:
            for nm in names:
                env[nm] = val
        return env


class FnDegrees:
    """Forward degree analysis of one function.  sinks: list of (kind, node, degree set, description)."""

    def __init__(self, program, fn, cls=None, init_env=None, summaries=None, depth=0, inline=True):
        self.p, self.fn, self.cls, self.depth, self.inline = program, fn, (cls or fn.cls), depth, inline
        self.init_env = init_env or {}
        self.summaries = summaries if summaries is not None else {}
        self.ev = DegEval(program, fn, self.cls, self.summaries)
        self.sinks = []
        self.returns_problem = {}      # 'c' / 'l' / 'u' / 'b' -> degree set of the returned problem
        self.returns_tuple = None
        self.roles = local_roles(fn)
        self.sub = []                  # nested analyses (inlined helpers)
        self._seen_sink = set()
        w = Walker(_Env(self))
        self.w = w

        def headers(node, state):
            """expressions that are evaluated but not assigned - branch conditions, loop ranges, the bounds of a slice that is
            written to: a sum of quantities of different degree there (steps minus main time units) is a conflict all the same"""
            exprs = []
            if isinstance(node, (ast.If, ast.While)):
                exprs.append(node.test)
            elif isinstance(node, ast.For):
                exprs.append(node.iter)
            elif isinstance(node, (ast.Assign, ast.AugAssign)):
                for t in au.stmt_targets(node):
                    if isinstance(t, ast.Subscript):
                        exprs += [b for sl in ([t.slice] if not isinstance(t.slice, ast.Tuple) else t.slice.elts) if isinstance(sl, ast.Slice)
                                  for b in (sl.lower, sl.upper) if b is not None]
            for e in exprs:
                for x in ast.walk(e):
                    if isinstance(x, ast.BinOp) and isinstance(x.op, (ast.Add, ast.Sub)):
                        try:
                            self.ev.ev(x, state)
                        except Exception:
                            pass
        w.on_stmt = headers
        w.run_function(fn)
        self.exit_env = w.exit_state() or {}

    # -- conflicts of the evaluator, de-duplicated
    def conflicts(self):
        seen, out = set(), []
        for where, x, y in self.ev.conflicts:
            k = (id(where), x, y)
            if k not in seen:
                seen.add(k)
                out.append((where, x, y))
        for s in self.sub:
            out.extend(s.conflicts())
        return out

    def all_sinks(self):
        out = list(self.sinks)
        for s in self.sub:
            out.extend(s.all_sinks())
        return out

    def _sink(self, kind, node, val, desc):
        k = (kind, id(node), desc)
        if k in self._seen_sink:
            # keep the union over loop rounds / paths
            for i, (k2, n2, v2, d2) in enumerate(self.sinks):
                if k2 == kind and n2 is node and d2 == desc:
                    self.sinks[i] = (k2, n2, union(v2, val), d2)
            return
        self._seen_sink.add(k)
        self.sinks.append((kind, node, val, desc))

    def _problem_attrs(self, env, name, summ):
        for k in ("c", "l", "u", "b"):
            if k in summ:
                env["%s.%s" % (name, k)] = summ[k]
        if "c" in summ:
            env[name] = summ["c"]     # with costs_only the result *is* the cost vector

    def transfer(self, s, node):
        ev = self.ev
        env = s
        if isinstance(node, ast.Assign) and len(node.targets) == 1:
            t, v = node.targets[0], node.value
            env = dict(env)
            # result of another set-up: bring in the summary of the problem it returns
            if isinstance(v, ast.Call) and au.method_name(v) == "setup_optim_problem" and isinstance(t, ast.Name):
                targets = [x for x in self.p.resolve_call(v, self.fn, self.cls) if x in self.summaries]
                summ = {}
                for x in targets:          # closed world: the union over every set-up the call may reach
                    for k, val in self.summaries[x].items():
                        summ[k] = union(summ.get(k, frozenset()), val)
                for k in ("c", "l", "u", "b"):
                    # a problem without rows has b = None: neutral, not unknown
                    env["%s.%s" % (t.id, k)] = summ.get(k, NEUTRAL if (k == "b" and "c" in summ) else UNKNOWN) or UNKNOWN
                env[t.id] = summ.get("c", UNKNOWN) or UNKNOWN
                return env
            # tuple result of a module-level eaopack function with a summary (A1, b1, c1 = define_restr(...))
            if isinstance(v, ast.Call) and isinstance(t, ast.Tuple) and isinstance(v.func, ast.Name):
                targets = self.p.resolve_call(v, self.fn, self.cls)
                if len(targets) == 1 and "ret" in self.summaries.get(targets[0], {}):
                    ret = self.summaries[targets[0]]["ret"]
                    for i, e in enumerate(t.elts):
                        for nm in au.target_names(e):
                            env[nm] = ret[i] if i < len(ret) else UNKNOWN
                    return env
            # inlined private helper: op = self._helper(op, a, b)
            if self.inline and isinstance(v, ast.Call) and isinstance(v.func, ast.Attribute) and isinstance(v.func.value, ast.Name) and v.func.value.id == "self" \
                    and self.depth < 2 and (au.method_name(v) or "").startswith("_") and not (au.method_name(v) or "").startswith("__"):
                targets = self.p.resolve_call(v, self.fn, self.cls)
                if len(targets) == 1:
                    callee = targets[0]
                    init = {}
                    ps = [q.name for q in callee.params[1:]]
                    for q, a in zip(ps, canon.pos_args(v)):
                        init[q] = ev.ev(a, env)
                        if isinstance(a, ast.Name):
                            for k2, v2 in env.items():
                                if k2.startswith(a.id + "."):
                                    init[q + k2[len(a.id):]] = v2
                    sub = FnDegrees(self.p, callee, self.cls, init, self.summaries, self.depth + 1)
                    self.sub.append(sub)
                    if isinstance(t, ast.Name):
                        rn = None
                        for st2 in au.walk_stmts(callee.body):
                            if isinstance(st2, ast.Return) and isinstance(st2.value, ast.Name):
                                rn = st2.value.id
                        if rn:
                            for k2, v2 in sub.exit_env.items():
                                if k2.startswith(rn + "."):
                                    env[t.id + k2[len(rn):]] = v2
                    return env
            val = ev.ev(v, env)
            self._assign(env, t, val, node)
            return env
        if isinstance(node, ast.AugAssign):
            env = dict(env)
            t = node.target
            cur = ev.ev(t, env) if (not isinstance(t, ast.Subscript) or au.const_str(t.slice) is not None) else ev.ev(t.value, env)
            val = ev.ev(node.value, env)
            if isinstance(node.op, (ast.Add, ast.Sub)):
                new = add(cur, val, ev.conflicts, node)
            elif isinstance(node.op, ast.Mult):
                new = mul(cur, val)
            elif isinstance(node.op, ast.Div):
                new = mul(cur, val, -1)
            else:
                new = UNKNOWN
            key = t.id if isinstance(t, ast.Name) else (au.path(t) or au.path(getattr(t, "value", None)))
            if isinstance(t, ast.Subscript):
                key = au.path(t.value) if au.const_str(t.slice) is None else au.path(t)
                if au.const_str(t.slice) == "disp_factor":
                    self._sink("disp_factor", node, new, au.short(node, 70))
            if key:
                env[key] = new
                self._maybe_sink_attr(key, node, new)
            return env
        if isinstance(node, ast.Expr) and isinstance(node.value, ast.Call):
            c = node.value
            if au.method_name(c) == "append" and isinstance(c.func, ast.Attribute) and c.args:
                key = au.path(c.func.value)
                if key:
                    env = dict(env)
                    cur = env.get(key, frozenset())
                    env[key] = union(cur if cur != NEUTRAL else frozenset(), ev.ev(c.args[0], env))
            return env
        if isinstance(node, ast.Return) and node.value is not None:
            v = node.value
            if isinstance(v, ast.Call) and au.method_name(v) == "OptimProblem":
                for k in ("c", "l", "u", "b"):
                    a = au.kwarg(v, k)
                    if a is not None:
                        val = ev.ev(a, env)
                        self._sink(k, node, val, "%s of the returned problem" % k)
                        self.returns_problem[k] = union(self.returns_problem.get(k, frozenset()), val)
            elif isinstance(v, ast.Name):
                for k in ("c", "l", "u", "b"):
                    kk = "%s.%s" % (v.id, k)
                    if kk in env:
                        self.returns_problem[k] = union(self.returns_problem.get(k, frozenset()), env[kk])
                # `return c` under costs_only
                if self.roles.get(v.id) == "c" and v.id in env and not any(("%s.%s" % (v.id, k)) in env for k in ("l", "u")):
                    self._sink("c", node, env[v.id], "cost vector returned under costs_only")
            elif isinstance(v, ast.Tuple) and self.fn.name == "define_restr" and len(v.elts) >= 2:
                self._sink("b", node, ev.ev(v.elts[1], env), "right-hand side of the take rows")
                self.returns_tuple = [ev.ev(x, env) for x in v.elts]
            return env
        return env

    def _maybe_sink_attr(self, key, node, val):
        if "." in key and not key.startswith("self."):
            attr = key.rsplit(".", 1)[1]
            if attr in ("c", "l", "u", "b"):
                self._sink(attr, node, val, "%s written to the problem" % attr)

    def _assign(self, env, t, val, node):
        if isinstance(t, ast.Name):
            env[t.id] = val
        elif isinstance(t, ast.Attribute):
            p = au.path(t)
            if p:
                env[p] = val
                sink_val = val
                v = getattr(node, "value", None)
                # growth x.b = hstack((x.b, new)): the obligation is on the appended part (the old part had its own sink)
                if isinstance(v, ast.Call) and au.method_name(v) in STACK and v.args and isinstance(v.args[0], (ast.Tuple, ast.List)) \
                        and len(v.args[0].elts) >= 2 and au.path(v.args[0].elts[0]) == p:
                    sink_val = frozenset()
                    for x in v.args[0].elts[1:]:
                        sink_val = union(sink_val, self.ev.ev(x, env))
                self._maybe_sink_attr(p, node, sink_val)
                if p == "self.dt" or p == "self.discount_factors":
                    self._sink(p, node, val, p)
        elif isinstance(t, ast.Subscript):
            col = au.const_str(t.slice)
            if col is None and isinstance(t.slice, ast.Tuple) and t.slice.elts:
                col = au.const_str(t.slice.elts[-1])
            if col == "disp_factor":
                self._sink("disp_factor", node, val, au.short(node, 70))
                return
            if col is not None:
                return   # other columns of a frame
            key = au.path(t.value)
            if key:
                cur = env.get(key, frozenset())
                env[key] = add(cur, val, self.ev.conflicts, node)
                self._maybe_sink_attr(key, node, env[key])
        elif isinstance(t, (ast.Tuple, ast.List)):
            for e in t.elts:
                for nm in au.target_names(e):
                    env[nm] = UNKNOWN
