"""Contradiction and sibling-agreement rules (Engler-style), added after independently seeded changes slipped through
(DESIGN section 12): each is a belief the code states in one place and must not contradict in another.

C07.n  decided branch: a branch condition that is already decided by a dominating guard (`if i > t: continue` ... `if t < i`)
       guards dead code - the row / bound variant it was meant to generate is never generated (reported under the property
       of the class it occurs in)
C02.f  guard agreement: the branch that handles "dispatch is one-signed" is entered under the same predicates
       (quantifier, operand, relation) as the ones its body uses to apply the spread / cost sign
C19.f  sibling sub-grid constructions in one function agree on every argument except the one the branch is about
C07.o  a local array alias (a = b, no copy) is not written through one name while the other is still used
C09.f  a numpy array created from one name (np.full / np.repeat / np.array of a name) is not assigned other names by item:
       numpy fixes the string width at creation and silently truncates longer names
"""
from __future__ import annotations
import ast
from .. import astutil as au
from ..flow import Domain, Walker, Partitioned, eval3
from ..tables import rule
from . import analysis
from .keys import _is_name_expr

rule("C07.n", "no branch condition is already decided by a dominating guard (a decided condition guards dead code: the variant it "
              "should generate never is)", floor=40, props=["C07", "C06", "C05"])
rule("C02.f", "the one-variable branch of contracts / transports is entered under the same predicates its body uses to apply the "
              "spread or cost sign", floor=2)
rule("C19.f", "sibling sub-grid constructions agree on every argument except the one the branch is about", floor=1, props=["C19", "C08"])
rule("C07.o", "a local array alias (a = b without copy) is not written through one name while the other is still used", floor=1,
     props=["C07", "C05"])
rule("C07.p", "every de-duplication of a mapping by index keeps the same row (keep='first': the variable's first-appearance row, "
              "i.e. its earliest time step) - siblings agree", floor=4, props=["C07", "C17", "C04"])
rule("C03.g", "optimize() reads the boolean flag of a variable from the same mapping row as every other consumer (the de-duplication "
              "convention keep='first' of C07.p, seen from C03)", floor=1)
rule("C07.t", "a parameter that defaults to None and takes numbers (callers pass numeric literals, or it is annotated float / int) is "
              "tested with `is None`, never by truthiness: 0 is a value, not 'not given'", floor=5, props=["C07", "C02"])
rule("C04.g", "an option string is normalised the same way everywhere it is compared (target.lower() == ... at every site): the branch "
              "that solves a variant and the branch that reports its value must agree on when the variant is active", floor=1,
     props=["C04", "C03"])
rule("C07.y", "twin statements - two neighbouring statements that are equal up to a consistent renaming - use the same comparison "
              "operators (`<=` next to `<` for the same test on two sequences is a slip in one of them)", floor=1, props=["C07", "C13"])
rule("C07.v", "dual twins clip alike: two neighbouring assignments to dual targets (l / u, lower / upper, min / max, in / out) either both "
              "clip their value (np.minimum / np.maximum / min / max / clip) or neither does", floor=10, props=["C07", "C16"])
rule("C19.l", "a loop over consecutive intervals skips an interval without steps (`continue`); it does not stop at it (`break`): intervals "
              "before the grid are empty as well as those behind it", floor=0, props=["C19", "C08", "C13"])
rule("C16.k", "scale homogeneity of the bounds: wherever the scale range (min_scale / max_scale) multiplies a quantity of the base asset "
              "it is divided by norm_scale in the same product", floor=2)
rule("C12.g", "values obtained from the same conversion helper get the same follow-up conversion: all ramp profiles returned by "
              "_convert_ramp are multiplied by the step length (conversion_factor) - power and heat, start and shutdown alike", floor=4)
rule("C12.j", "the unit travels with the value: in a function that is given the frequency its input is expressed in (a parameter used as "
              "old_freq / new_freq of a conversion call), every duration conversion in that function names that parameter - none falls "
              "back to the default (main time unit)", floor=3)
NEUTRAL = "a term that is only applied under a test of its own parameter is skipped exactly when it is zero (`p != 0`): a one-sided test " \
          "(`p > 0`) drops the term for the other sign, although the set-up applies the parameter for every value"
rule("C05.m", "storage: " + NEUTRAL, floor=1)
rule("C06.l", "plant / CHP: " + NEUTRAL, floor=0)
rule("C02.h", "contracts and transports: " + NEUTRAL, floor=0)
rule("C14.o", "what a function is given under a name, it hands on under that name: when a call inside the package passes a local whose name is "
              "one of the callee's parameters, it is bound to *that* parameter (positional arguments are matched to the callee's signature first) - "
              "two options swapped in a forwarding call (make_soft_problem <-> solver_params in the split problem) reach every interval problem as "
              "the other one", floor=20, props=["C14", "C03", "C10"])
rule("C11.h", "the JSON writer decides 'naive' by `tzinfo is None` (a None test), never by the truthiness of an offset "
              "(timedelta(0) is falsy: UTC would be saved as naive)", floor=1)
rule("C09.f", "a numpy array created from one name is not assigned other names by item (fixed string width truncates them: the mapping would "
              "name a node that does not exist - its rows enter no nodal restriction)", floor=1, props=["C09", "C07", "C01"])


class _Unit(Domain):
    def initial(self, fn):
        return 0

    def join(self, a, b):
        return 0


def _prop_rule(fn):
    return "C07.n"


@analysis("siblings", ["C07.n", "C02.f", "C19.f", "C07.o", "C09.f", "C07.p", "C11.h", "C03.g", "C07.t", "C04.g", "C05.m", "C06.l", "C02.h", "C12.g", "C07.y", "C19.l", "C16.k", "C07.v", "C12.j", "C14.o"])
def run(ctx):
    p = ctx.p
    # ================================================================= C07.n decided branches
    n_tests = 0
    for fn in sorted(p.all_functions(), key=lambda f: f.qualname):
        tests = [s for s in au.walk_stmts(fn.body) if isinstance(s, (ast.If, ast.While))]
        if not tests:
            continue
        dom = Partitioned(_Unit())
        w = Walker(dom)
        decided = {}

        def on_stmt(node, state, decided=decided):
            if not isinstance(node, (ast.If, ast.While)) or isinstance(node.test, ast.Constant):
                return
            vals = set()
            for pc, _ in state:
                vals.add(eval3(node.test, Partitioned._pcdict(pc)))
            cur = decided.get(id(node))
            if cur is None:
                decided[id(node)] = (node, vals)
            else:
                decided[id(node)] = (node, cur[1] | vals)
        w.on_stmt = on_stmt
        w.run_function(fn)
        n_tests += len(tests)
        bad = [(n, v) for n, v in decided.values() if len(v) == 1 and None not in v]
        if not bad:
            ctx.ob("C07.n", fn, "branch conditions", True, ok_detail="%d condition(s), none decided by a dominating guard" % len(tests),
                   trivial=len(tests) < 2)
        for n, v in bad:
            val = next(iter(v))
            ctx.ob("C07.n", fn, "if %s" % au.short(n.test, 80), False,
                   "this condition is always %s here: a dominating guard (an enclosing branch or an earlier `if ...: continue / return`) "
                   "already decides it, so the %s branch is dead code - the constraint / bound variant it was written for is never "
                   "generated (or always is)" % (val, "true" if not val else "else"), node=n)
    ctx.require(n_tests >= 150, "fewer than 150 branch conditions in the package", rules=['C07.n'])

    # ---- decided by linear arithmetic over the guards that dominate the test (enclosing ifs, range() loops, earlier conjuncts)
    import itertools
    from .. import linforms as lf

    def lin(e):
        ev = lf.LinEval(lambda x: au.U(x) if isinstance(x, (ast.Name, ast.Attribute, ast.Subscript)) or
                        (isinstance(x, ast.Call) and au.call_name(x) == "len") else None)
        return ev.ev(e)

    def facts_of(test, truth):
        """[(form, strict)] meaning form > 0 (strict) / form >= 0, from one comparison that is known true / false."""
        t, pol = au.strip_not(test)
        truth = truth == pol
        if isinstance(t, ast.BoolOp):
            if isinstance(t.op, ast.And) and truth:
                return [f for v in t.values for f in facts_of(v, True)]
            if isinstance(t.op, ast.Or) and not truth:
                return [f for v in t.values for f in facts_of(v, False)]
            return []
        if not (isinstance(t, ast.Compare) and len(t.ops) == 1):
            return []
        a, b = lin(t.left), lin(t.comparators[0])
        if a is None or b is None:
            return []
        op = type(t.ops[0])
        if not truth:
            op = {ast.Lt: ast.GtE, ast.LtE: ast.Gt, ast.Gt: ast.LtE, ast.GtE: ast.Lt, ast.Eq: ast.NotEq, ast.NotEq: ast.Eq}.get(op)
        d = lf.add(b, a, -1)        # b - a
        e = lf.add(a, b, -1)        # a - b
        if op is ast.Lt:
            return [(d, True)]
        if op is ast.LtE:
            return [(d, False)]
        if op is ast.Gt:
            return [(e, True)]
        if op is ast.GtE:
            return [(e, False)]
        if op is ast.Eq:
            return [(d, False), (e, False)]
        return []

    def lower_bound(F, facts):
        """(c, strict) with F >= c (F > c if strict) derivable as F = sum(lambda_k * G_k) + c, lambda_k in {0, 1, 2}; else None."""
        best = None
        fs = facts[:6]
        for lam in itertools.product((0, 1, 2), repeat=len(fs)):
            D = dict(F)
            strict = False
            for l_, (G, st_) in zip(lam, fs):
                if l_:
                    D = lf.add(D, lf.scale(G, l_), -1)
                    strict = strict or st_
            c = lf.const_of(D)
            if c is not None:
                if best is None or (c, strict) > best:
                    best = (c, strict)
        return best

    n_lin = 0
    for fn in sorted(p.all_functions(), key=lambda f: f.qualname):
        stores = {}
        for x in au.walk_local(fn.node, include_self=False):
            if isinstance(x, ast.Name) and isinstance(x.ctx, ast.Store):
                stores[x.id] = stores.get(x.id, 0) + 1
        for node in au.walk_local(fn.node, include_self=False):
            if not isinstance(node, (ast.If, ast.While)):
                continue
            conj = au.flatten_boolop(node.test, ast.And) if isinstance(node.test, ast.BoolOp) and isinstance(node.test.op, ast.And) else [node.test]
            # dominating facts
            facts = []
            child = node
            for a in p.ancestors(node):
                if a is fn.node:
                    break
                if isinstance(a, ast.If):
                    in_body = any(child is x for x in a.body)
                    in_else = any(child is x for x in a.orelse)
                    if in_body or in_else:
                        facts += [(G, st_, a) for G, st_ in facts_of(a.test, in_body)]
                if isinstance(a, ast.For) and isinstance(a.target, ast.Name) and isinstance(a.iter, ast.Call) and au.call_name(a.iter) == "range" \
                        and any(child is x for x in a.body):
                    args = a.iter.args
                    lo = lin(args[0]) if len(args) >= 2 else {}
                    hi = lin(args[1]) if len(args) >= 2 else (lin(args[0]) if args else None)
                    v = {a.target.id: 1}
                    if len(args) <= 2:
                        if lo is not None:
                            facts.append((lf.add(v, lo, -1), False, a))              # i - lo >= 0
                        if hi is not None:
                            facts.append((lf.add(hi, v, -1), True, a))               # hi - i > 0
                # earlier `if c: continue / break / return` in the same block
                blk = None
                for fld in ("body", "orelse"):
                    if any(child is x for x in getattr(a, fld, []) or []):
                        blk = getattr(a, fld)
                if blk:
                    for s0 in blk:
                        if s0 is child:
                            break
                        if isinstance(s0, ast.If) and not s0.orelse and s0.body and isinstance(s0.body[-1], (ast.Continue, ast.Break, ast.Return, ast.Raise)):
                            facts += [(G, st_, a) for G, st_ in facts_of(s0.test, False)]
                child = a
            for k, c in enumerate(conj):
                t, pol = au.strip_not(c)
                if not (isinstance(t, ast.Compare) and len(t.ops) == 1 and isinstance(t.ops[0], (ast.Eq, ast.NotEq, ast.Lt, ast.LtE, ast.Gt, ast.GtE))):
                    continue
                a_, b_ = lin(t.left), lin(t.comparators[0])
                if a_ is None or b_ is None:
                    continue
                F = lf.add(a_, b_, -1)
                if lf.const_of(F) is not None:
                    continue
                def stable(G, scope):
                    """no variable of the fact is (re)bound inside the construct the fact comes from (loop targets of inner loops,
                    assignments in the guarded block): the fact still holds where the test is evaluated"""
                    if G is None or not (set(G) - {lf.ONE}):
                        return False
                    roots = {a0.split(".")[0].split("[")[0].split("(")[-1] for a0 in G if a0 != lf.ONE}
                    body = scope.body + getattr(scope, "orelse", []) if not isinstance(scope, ast.For) else scope.body
                    for s1 in body:
                        for x in ast.walk(s1):
                            if isinstance(x, ast.Name) and isinstance(x.ctx, ast.Store) and x.id in roots:
                                return False
                            if isinstance(x, (ast.Attribute, ast.Subscript)) and isinstance(x.ctx, ast.Store) and au.base_name(x) in roots:
                                return False
                    return True
                here = [(G, st_) for G, st_, sc in facts if stable(G, sc)] + [f for c0 in conj[:k] for f in facts_of(c0, True)]
                here = [(G, st_) for G, st_ in here if G is not None and set(G) - {lf.ONE}]
                if not here:
                    continue
                n_lin += 1
                lo_b = lower_bound(F, here)                       # F >= c
                up_b = lower_bound(lf.scale(F, -1), here)         # -F >= c'  i.e. F <= -c'
                pos = lo_b is not None and (lo_b[0] > 0 or (lo_b[0] == 0 and lo_b[1]))      # F > 0
                neg = up_b is not None and (up_b[0] > 0 or (up_b[0] == 0 and up_b[1]))      # F < 0
                op = type(t.ops[0])
                val = None
                if pos or neg:
                    val = {ast.Eq: False, ast.NotEq: True, ast.Lt: neg, ast.LtE: neg, ast.Gt: pos, ast.GtE: pos}[op]
                    if not pol:
                        val = not val
                if val is None:
                    continue
                ctx.ob("C07.n", fn, "if %s" % au.short(c, 80), False,
                       "under the guards that dominate it (%s) this comparison is always %s: %s is %s there. The branch it guards is dead "
                       "(or unconditional) - the case it was written for (e.g. a start ramp still in progress at the beginning of the "
                       "horizon) is never recognised" % ("; ".join(sorted({("%s %s 0" % (lf.show(G), ">" if st_ else ">=")) for G, st_ in here}))[:200],
                                                         val, lf.show(F), "> 0" if pos else "< 0"), node=c)
    ctx.require(n_lin >= 20, "fewer than 20 guarded comparisons analysed by the linear pass", rules=['C07.n'])

    # ================================================================= C02.f guard agreement
    def quant_atoms(test):
        """{(quantifier, operand, relation, constant)} for all( x <= 0 ) / any( x != 0 ) atoms of a test."""
        out = set()
        for c in au.walk_local(test):
            if isinstance(c, ast.Call) and au.method_name(c) in ("all", "any") and c.args and isinstance(c.args[0], ast.Compare) \
                    and len(c.args[0].ops) == 1:
                cmp_ = c.args[0]
                out.add((au.method_name(c), au.U(cmp_.left), type(cmp_.ops[0]).__name__, au.U(cmp_.comparators[0])))
        return out
    n = 0
    for q in ("SimpleContract.setup_optim_problem", "Transport.setup_optim_problem"):
        fn = p.fn_opt(q)
        if fn is None:
            continue
        for st in au.walk_stmts(fn.body):
            if not isinstance(st, ast.If):
                continue
            # `if A or B: <one variable> else: <two>`  or, with the arms swapped,  `if not (A or B): <two> else: <one variable>`
            core, branch = st.test, st.body
            if isinstance(core, ast.UnaryOp) and isinstance(core.op, ast.Not):
                core, branch = core.operand, st.orelse
            if not (isinstance(core, ast.BoolOp) and isinstance(core.op, ast.Or)):
                continue
            outer = quant_atoms(core)
            if len(outer) < 2:
                continue
            inner = set()
            for s2 in au.walk_stmts(branch):
                if isinstance(s2, ast.If):
                    inner |= {a for a in quant_atoms(s2.test) if a[2] in ("LtE", "GtE", "Lt", "Gt")}
            if not inner:
                # the sign tests may live in a shared helper called from the branch (def h(costs, min_cap, max_cap): if all(max_cap <= 0): ...)
                for c in [x for s2 in au.walk_stmts(branch) for x in au.walk_own(s2) if isinstance(x, ast.Call) and isinstance(x.func, ast.Name)]:
                    for t in p.resolve_call(c, fn):
                        if t.cls is None and t.parent is None:
                            names = [q.name for q in t.params]
                            same = all(isinstance(a, ast.Name) and i < len(names) and (a.id == names[i] or names[i] not in au.names_in(t.node)) or not isinstance(a, ast.Name)
                                       for i, a in enumerate(c.args))
                            for s3 in au.walk_stmts(t.body):
                                if isinstance(s3, ast.If) and same:
                                    inner |= {a for a in quant_atoms(s3.test) if a[2] in ("LtE", "GtE", "Lt", "Gt")}
            if not inner:
                continue
            n += 1
            sign_outer = {a for a in outer if a[2] in ("LtE", "GtE", "Lt", "Gt")}
            ok = inner <= sign_outer      # (an outer predicate without inner twin is fine when its action is the identity)
            ctx.ob("C02.f", fn, "if %s" % au.short(core, 90), ok,
                   "the single-variable branch is entered under %s but applies the spread / cost sign under %s: in the gap (entered, but no "
                   "inner predicate true) the spread / sign is silently dropped - e.g. a capacity profile that is <= 0 in some steps only"
                   % (sorted(sign_outer - inner) or sorted(sign_outer), sorted(inner - sign_outer) or sorted(inner)), node=st)
    ctx.require(n >= 2, "the one-variable / two-variable branch selection of SimpleContract and Transport was not found", rules=['C02.f'])

    # ================================================================= C19.f sibling sub-grid constructions
    tg = p.cls("Timegrid")
    n = 0
    for fn in tg.methods.values():
        for st in au.walk_stmts(fn.body):
            if not (isinstance(st, ast.If) and st.orelse):
                continue
            a = [c for s2 in st.body for c in au.walk_own(s2) if isinstance(c, ast.Call) and au.method_name(c) == "Timegrid"] if all(
                not isinstance(s2, (ast.If, ast.For)) for s2 in st.body) else []
            b = [c for s2 in st.orelse for c in au.walk_own(s2) if isinstance(c, ast.Call) and au.method_name(c) == "Timegrid"] if all(
                not isinstance(s2, (ast.If, ast.For)) for s2 in st.orelse) else []
            if len(a) != 1 or len(b) != 1:
                continue
            n += 1
            about = au.names_in(st.test) - {"self"}
            def argmap(c):
                m = {"#%d" % i: au.U(x) for i, x in enumerate(c.args)}
                m.update({k.arg: au.U(k.value) for k in c.keywords if k.arg})
                return m
            ma, mb = argmap(a[0]), argmap(b[0])
            diff = {k for k in set(ma) | set(mb) if ma.get(k) != mb.get(k)}
            allowed = {k for k in diff if k in about or (ma.get(k, "").replace("self.", "") in about) or (mb.get(k, "").replace("self.", "") in about)}
            ok = diff <= allowed
            ctx.ob("C19.f", fn, "sibling constructions under `if %s`" % au.short(st.test, 40), ok,
                   "the two arms build the sub-grid with different arguments %s although the branch is only about %s: one arm ignores "
                   "the (defaulted) argument of the call, e.g. the asset's own start" % (
                       {k: (ma.get(k), mb.get(k)) for k in sorted(diff - allowed)}, sorted(about)), node=st)
    ctx.require(n >= 1, "sibling Timegrid constructions (set_restricted_grid) not found", rules=['C19.f'])

    # ================================================================= C07.o alias written through the other name
    n_alias = 0
    for fn in sorted(p.all_functions(), key=lambda f: f.qualname):
        if fn.parent is not None:
            continue
        stmts = list(au.walk_stmts(fn.body))
        for i, st in enumerate(stmts):
            if not (isinstance(st, ast.Assign) and len(st.targets) == 1 and isinstance(st.targets[0], ast.Name) and isinstance(st.value, ast.Name)):
                continue
            a, b = st.targets[0].id, st.value.id
            if a == b or fn.param(b) is not None:
                continue
            # b must be a local array (defined by an expression, subscript-stored somewhere)
            later = [s for s in stmts if s.lineno > st.lineno]
            def writes(name):
                return [s for s in later if (isinstance(s, ast.Assign) and isinstance(s.targets[0], ast.Subscript) and isinstance(s.targets[0].value, ast.Name)
                                             and s.targets[0].value.id == name and au.const_str(s.targets[0].slice) is None)
                        or (isinstance(s, ast.AugAssign) and ((isinstance(s.target, ast.Name) and s.target.id == name) or
                                                              (isinstance(s.target, ast.Subscript) and au.base_name(s.target) == name and au.const_str(s.target.slice) is None)))]
            def rebinds(name, before):
                return any(isinstance(s, ast.Assign) and any(isinstance(t, ast.Name) and t.id == name for t in s.targets) and s.lineno < before for s in later)
            def reads(name, after):
                return [s for s in later if s.lineno > after and any(isinstance(x, ast.Name) and x.id == name and isinstance(x.ctx, ast.Load) for x in au.walk_own(s))]
            for w_name, o_name in ((a, b), (b, a)):
                for ws in writes(w_name):
                    if rebinds(w_name, ws.lineno) or rebinds(o_name, ws.lineno):
                        continue
                    rs = reads(o_name, ws.lineno)
                    if rs:
                        n_alias += 1
                        ctx.ob("C07.o", fn, "%s = %s ... %s" % (a, b, au.short(ws, 50)), False,
                               "`%s = %s` makes both names refer to one array; `%s` then changes it in place while `%s` is still used "
                               "(line %s): the second vector silently receives the same change (a missing .copy())" % (
                                   a, b, au.short(ws, 50), o_name, rs[0].lineno), node=ws)
                        break
    ctx.ob("C07.o", "package", "local array aliases", True, ok_detail="no alias is written through one name while the other is used")

    # ================================================================= C09.f fixed-width arrays of names
    n_f = 0
    for fn in sorted(p.all_functions(), key=lambda f: f.qualname):
        for st in au.walk_stmts(fn.body):
            if isinstance(st, ast.Assign) and isinstance(st.targets[0], ast.Name) and isinstance(st.value, ast.Call) \
                    and au.call_name(st.value) in ("np.full", "np.repeat", "np.array", "np.asarray", "np.full_like") :
                args = list(st.value.args) + [k.value for k in st.value.keywords]
                if not any(_is_name_expr(x) for a in args for x in au.walk_local(a)):
                    continue
                arr = st.targets[0].id
                stores = [s for s in au.walk_stmts(fn.body) if s.lineno > st.lineno and isinstance(s, ast.Assign) and isinstance(s.targets[0], ast.Subscript)
                          and isinstance(s.targets[0].value, ast.Name) and s.targets[0].value.id == arr
                          and any(_is_name_expr(x) for x in au.walk_local(s.value))]
                for s in stores:
                    n_f += 1
                    ctx.ob("C09.f", fn, "%s ... %s" % (au.short(st, 50), au.short(s, 50)), False,
                           "numpy fixes the string width of `%s` when it is created from the first name; assigning another, longer name by "
                           "item silently truncates it ('N10' -> 'N1'): rows are attributed to another node / asset, or to none" % arr, node=s)
    ctx.ob("C09.f", "package", "arrays of names", True, ok_detail="no fixed-width array of names receives other names by item")

    # ================================================================= C07.p de-duplication convention
    dd = []
    for fn in sorted(p.all_functions(), key=lambda f: f.qualname):
        for st in au.walk_stmts(fn.body):
            for n in au.walk_own(st):
                if isinstance(n, ast.Call) and au.method_name(n) in ("duplicated", "drop_duplicates") and isinstance(n.func, ast.Attribute) \
                        and au.terminal(n.func.value) == "index":
                    k = au.kwarg(n, "keep")
                    keep = au.const_str(k) if k is not None else ("first" if k is None else None)
                    if isinstance(k, ast.Constant) and k.value is False:
                        keep = "False"
                    dd.append((fn, n, keep))
    ctx.require(len(dd) >= 2, "fewer than 2 de-duplications by index found", rules=['C07.p', 'C03.g'])
    tally = {}
    for _, _, k in dd:
        tally[k] = tally.get(k, 0) + 1
    major = max(tally, key=lambda k: tally[k])
    for fn, n, k in dd:
        ctx.ob("C03.g" if fn.qualname == "OptimProblem.optimize" else "C07.p", fn, au.short(n, 80), k == major,
               "this de-duplication keeps %r while the other %d keep %r: for a variable with several rows (coarse frequency, periodic "
               "asset, transport) different code paths then disagree about which row - which time step - stands for the variable "
               "(e.g. present / future classification in make_slp)" % (k, tally[major], major), node=n)

    # ================================================================= C07.t optional numbers are not tested by truthiness
    def truth_operands(test):
        t = test
        if isinstance(t, ast.BoolOp):
            return [x for v in t.values for x in truth_operands(v)]
        if isinstance(t, ast.UnaryOp) and isinstance(t.op, ast.Not):
            return truth_operands(t.operand)
        if isinstance(t, (ast.Name, ast.Attribute)):
            return [t]
        return []

    def numeric_annotation(arg):
        a = arg.annotation
        return a is not None and any(isinstance(x, ast.Name) and x.id in ("float", "int") for x in ast.walk(a))

    # numeric literals passed by callers, by callee name and parameter (closed world)
    passed = {}
    for fn in p.all_functions():
        for c in p.calls_in(fn):
            nm = au.method_name(c)
            for t in p.resolve_call(c, fn):
                tps = t.params
                off = 1 if (t.cls is not None and t.parent is None and tps and tps[0].name in ("self", "cls")) else 0
                for i, a in enumerate(c.args):
                    if isinstance(a, ast.Starred):
                        break
                    if i + off < len(tps) and au.const_num(a) is not None and not isinstance(getattr(a, "value", None), bool):
                        passed.setdefault((t.qualname, tps[i + off].name), []).append(c)
                for k in c.keywords:
                    if k.arg and au.const_num(k.value) is not None and not isinstance(getattr(k.value, "value", None), bool):
                        passed.setdefault((t.qualname, k.arg), []).append(c)
    n_t = 0
    for fn in sorted(p.all_functions(), key=lambda f: f.qualname):
        if fn.parent is not None:
            continue
        args = {a.arg: a for a in fn.node.args.posonlyargs + fn.node.args.args + fn.node.args.kwonlyargs}
        cands = {}
        for q in fn.params:
            if q.has_default and au.is_none(q.default) and q.name in args:
                why = None
                if numeric_annotation(args[q.name]):
                    why = "annotated %s" % au.U(args[q.name].annotation)
                elif (fn.qualname, q.name) in passed:
                    c0 = passed[(fn.qualname, q.name)][0]
                    why = "callers pass numbers (%s)" % p.where(c0)
                if why:
                    cands[q.name] = why
        if not cands:
            continue
        ff = None
        uses = {}
        # constructor-kept copies: self.x = x makes `self.x` the same optional number in every method of the class
        for n in au.walk_local(fn.node, include_self=False):
            test = n.test if isinstance(n, (ast.If, ast.While, ast.IfExp, ast.Assert)) else None
            if test is None:
                continue
            for x in truth_operands(test):
                if isinstance(x, ast.Name) and x.id in cands:
                    ff = ff or ctx.flow(fn)
                    st = p.enclosing_stmt(n) if not isinstance(n, ast.stmt) else n
                    if all(d.kind == "param" for d in ff.defs(x.id, st)):
                        uses.setdefault(x.id, []).append(n)
        for name, why in sorted(cands.items()):
            n_t += 1
            bad = uses.get(name, [])
            ctx.ob("C07.t", fn, "optional number %s" % name, not bad,
                   "%s defaults to None and takes numbers (%s) but is tested by truthiness (`%s`): the value 0 is treated as 'not "
                   "given' - e.g. a default of 0 for steps outside all intervals is never filled in and the vector keeps NaN there"
                   % (name, why, au.short(bad[0].test, 50) if bad else ""), node=(bad[0] if bad else fn.node), ok_detail=why)
    ctx.require(n_t >= 8, "fewer than 8 optional numeric parameters found", rules=['C07.t'])

    # ================================================================= C07.y twin statements
    class _Skel(ast.NodeTransformer):
        def __init__(self):
            self.names, self.ops = {}, []

        def visit_Name(self, node):
            self.names.setdefault(node.id, "v%d" % len(self.names))
            return ast.copy_location(ast.Name(id=self.names[node.id], ctx=node.ctx), node)

        def visit_Compare(self, node):
            self.generic_visit(node)
            self.ops.append(tuple(type(o).__name__ for o in node.ops))
            node.ops = [ast.Eq() for _ in node.ops]
            return node

    import copy as _copy
    n_y = 0
    for fn in sorted(p.all_functions(), key=lambda f: f.qualname):
        if fn.parent is not None:
            continue
        blocks = [fn.body] + [b for s0 in au.walk_stmts(fn.body) for b in (getattr(s0, "body", None), getattr(s0, "orelse", None)) if isinstance(b, list) and b]
        for blk in blocks:
            for a, b in zip(blk, blk[1:]):
                if not (isinstance(a, ast.If) and isinstance(b, ast.If)) or not any(isinstance(x, ast.Compare) for x in au.walk_local(a.test)):
                    continue
                if au.U(a) == au.U(b):
                    continue
                ka, kb = _Skel(), _Skel()
                ta, tb = ka.visit(_copy.deepcopy(a)), kb.visit(_copy.deepcopy(b))
                if au.U(ta) != au.U(tb) or len(ka.names) != len(kb.names):
                    continue
                # equal up to renaming: exactly the renamed identifiers differ
                diff = [(x, y) for (x, i), (y, j) in zip(sorted(ka.names.items(), key=lambda kv: kv[1]), sorted(kb.names.items(), key=lambda kv: kv[1])) if x != y]
                if not diff or len(diff) > 2:
                    continue
                n_y += 1
                ctx.ob("C07.y", fn, "twins: %s / %s" % (au.short(a.test, 40), au.short(b.test, 40)), ka.ops == kb.ops,
                       "the two neighbouring statements are the same statement for %s, except that one compares with %s and the other with %s: "
                       "when the compared values coincide (a boundary that falls exactly on the first time point) the two sequences are treated "
                       "differently - one keeps a superfluous leading boundary, and the first step forms an interval of its own" % (
                           " / ".join("%s and %s" % d for d in diff), ka.ops, kb.ops), node=b)
    ctx.require(n_y >= 1, "no twin statements found (periods / durations of the periodic merge)", rules=["C07.y"])

    # ================================================================= C07.v dual twins
    import re as _re
    DUALS = [("l", "u"), ("min", "max"), ("minimum", "maximum"), ("lower", "upper"), ("start", "end"), ("in", "out"), ("L", "U")]

    def _ctok(t):
        for a0, b0 in DUALS:
            if t in (a0, b0):
                return "<%s>" % a0
        parts = t.split("_")
        if len(parts) > 1:
            return "_".join(_ctok(x) for x in parts)
        return t

    def _canon(txt):
        return _re.sub(r"[A-Za-z_][A-Za-z_0-9]*", lambda m: _ctok(m.group(0)), txt)
    CLIPS = {"minimum", "maximum", "min", "max", "clip", "fmin", "fmax"}
    for fn in sorted(p.all_functions(), key=lambda f: f.qualname):
        if fn.parent is not None:
            continue
        blocks = [fn.body] + [b for s0 in au.walk_stmts(fn.body) for b in (getattr(s0, "body", None), getattr(s0, "orelse", None)) if isinstance(b, list) and b]
        for blk in blocks:
            for a, b in zip(blk, blk[1:]):
                if not (isinstance(a, ast.Assign) and isinstance(b, ast.Assign) and len(a.targets) == 1 and len(b.targets) == 1):
                    continue
                ta, tb = au.U(a.targets[0]), au.U(b.targets[0])
                if ta == tb or _canon(ta) != _canon(tb):
                    continue
                ca = sorted(au.method_name(c) for c in au.walk_local(a.value) if isinstance(c, ast.Call) and au.method_name(c) in CLIPS)
                cb = sorted(au.method_name(c) for c in au.walk_local(b.value) if isinstance(c, ast.Call) and au.method_name(c) in CLIPS)
                ctx.ob("C07.v", fn, "%s / %s" % (au.short(a.targets[0], 30), au.short(b.targets[0], 30)), len(ca) == len(cb),
                       "`%s` clips its value (%s) but its twin `%s` does not (%s): the two bounds of the same variables are treated "
                       "differently - e.g. the rescaled upper bound of a scaled asset's dispatch variables is no longer cut at 0, so a base asset "
                       "with a negative upper capacity forces the scale up (value -3753 at scale 1.2 instead of 0 at scale 0)" % (
                           au.short(a if len(ca) > len(cb) else b, 60), ", ".join(ca if len(ca) > len(cb) else cb),
                           au.short(b if len(ca) > len(cb) else a, 60), ", ".join(cb if len(ca) > len(cb) else ca) or "no clip"), node=b)

    # ================================================================= C19.l stop at an empty interval
    for fn in sorted(p.all_functions(), key=lambda f: f.qualname):
        if fn.parent is not None:
            continue
        for lp in [s0 for s0 in au.walk_stmts(fn.body) if isinstance(s0, ast.For)]:
            lvs = set(au.target_names(lp.target))
            for iff in [s0 for s0 in lp.body if isinstance(s0, ast.If) and not s0.orelse and any(isinstance(x, ast.Break) for x in s0.body)]:
                t, pol = au.strip_not(iff.test)
                empt = None
                if isinstance(t, ast.Call) and au.method_name(t) == "any" and isinstance(t.func, ast.Attribute) and not pol:
                    empt = t.func.value
                elif isinstance(t, ast.Compare) and len(t.ops) == 1 and isinstance(t.ops[0], ast.Eq) and au.const_num(t.comparators[0]) == 0 and pol \
                        and isinstance(t.left, ast.Call) and au.call_name(t.left) in ("len", "sum", "np.sum"):
                    empt = t.left.args[0] if t.left.args else None
                if empt is None:
                    continue
                sel = ctx.resolve(fn, empt, iff)
                if not (lvs & au.names_in(sel)) or not any(isinstance(x, ast.Compare) for x in au.walk_local(sel)):
                    continue
                ctx.ob("C19.l", fn, "if %s: break" % au.short(iff.test, 50), False,
                       "the loop over the intervals stops at the first interval without steps; that is right for intervals behind the grid but "
                       "intervals *before* the grid are empty too: a window that starts one coarse interval or more before the reference grid "
                       "(an asset active since last year) ends up with no steps at all - the asset silently has no variables", node=iff)

    # ================================================================= C16.k scale range x base quantity / norm_scale
    sa = p.fn_opt("ScaledAsset.setup_optim_problem")
    if sa is not None:
        for n in au.walk_local(sa.node, include_self=False):
            if not (isinstance(n, ast.BinOp) and isinstance(n.op, (ast.Mult, ast.Div))):
                continue
            par = p.parent(n)
            if isinstance(par, ast.BinOp) and isinstance(par.op, (ast.Mult, ast.Div)):
                continue                    # only the top of a multiplicative chain
            chain = []
            todo = [n]
            while todo:
                x = todo.pop()
                if isinstance(x, ast.BinOp) and isinstance(x.op, (ast.Mult, ast.Div)):
                    todo += [x.left, x.right]
                else:
                    chain.append(x)
            paths = [au.path(x) for x in chain]
            if not any(q in ("self.max_scale", "self.min_scale") for q in paths) or len(chain) < 2:
                continue
            ctx.ob("C16.k", sa, au.short(n, 80), "self.norm_scale" in paths,
                   "a quantity of the base asset is multiplied by the scale range without being divided by norm_scale: a scale s stands for "
                   "s / norm_scale base assets, so this bound is that of max_scale base assets instead of max_scale / norm_scale. With "
                   "norm_scale < 1 it cuts off dispatch the coupling rows allow (fixed scale 1.5, norm_scale 0.5: value 244.7 instead of 321.7)",
                   node=n)

    # ================================================================= C12.j the unit travels with the value
    CONV = {"convert_to_timegrid_freq": (("old_freq", 2),), "convert_time_unit": (("old_freq", 1), ("new_freq", 2))}
    for fn in sorted(p.all_functions(), key=lambda f: f.qualname):
        calls = [c for c in au.walk_local(fn.node, include_self=False) if isinstance(c, ast.Call) and au.method_name(c) in CONV]
        if not calls:
            continue

        def unit_args(c):
            out = []
            for kw, pos in CONV[au.method_name(c)]:
                a = au.kwarg(c, kw)
                if a is None and len(c.args) > pos and not any(isinstance(x, ast.Starred) for x in c.args):
                    a = c.args[pos]
                if a is not None:
                    out.append(a)
            return out
        given = {a.id for c in calls for a in unit_args(c) if isinstance(a, ast.Name) and fn.param(a.id) is not None}
        if not given:
            continue
        for c in calls:
            names = {x.id for a in unit_args(c) for x in au.walk_local(a) if isinstance(x, ast.Name)}
            val = au.kwarg(c, "time_value") or au.kwarg(c, "value") or (c.args[0] if c.args else None)
            if val is not None and any(isinstance(x, ast.Attribute) and au.base_name(x) == "self" for x in au.walk_local(val)):
                continue        # an attribute of the asset itself (given in the main time unit by definition), not the function's input
            ctx.ob("C12.j", fn, au.short(c, 90), bool(names & given),
                   "%s is told the unit of its input (%s) and converts with it elsewhere, but this conversion does not name it: the value is read as "
                   "if it were given in the main time unit of the grid. With a ramp frequency of 'h' on a 15-minute grid, 3 ramp points become 12 "
                   "steps for main time unit 'h' but 1 for 'min' and 288 for 'd' - re-expressing the problem in another main time unit changes "
                   "the result" % (fn.qualname, ", ".join(sorted(given))), node=c)

    # ================================================================= C12.g siblings from one conversion helper
    for fn in sorted(p.all_functions(), key=lambda f: f.qualname):
        if fn.parent is not None or fn.cls is None:
            continue
        by_helper = {}
        for st in au.walk_stmts(fn.body):
            if isinstance(st, ast.Assign) and len(st.targets) == 1 and isinstance(st.targets[0], ast.Name) and isinstance(st.value, ast.Call) \
                    and isinstance(st.value.func, ast.Attribute) and au.base_name(st.value.func) == "self" and (au.method_name(st.value) or "").startswith("_convert"):
                by_helper.setdefault(au.method_name(st.value), []).append(st)
        for helper, sites in by_helper.items():
            if len(sites) < 3:
                continue
            follow = {}
            for st in sites:
                nm = st.targets[0].id
                ups = set()
                for s2 in au.walk_stmts(fn.body):
                    if s2.lineno <= st.lineno:
                        continue
                    if isinstance(s2, ast.AugAssign) and isinstance(s2.target, ast.Name) and s2.target.id == nm:
                        ups.add((type(s2.op).__name__, au.U(s2.value)))
                    elif isinstance(s2, ast.Assign) and len(s2.targets) == 1 and isinstance(s2.targets[0], ast.Name) and s2.targets[0].id == nm \
                            and isinstance(s2.value, ast.BinOp) and (au.U(s2.value.left) == nm or au.U(s2.value.right) == nm):
                        other = s2.value.right if au.U(s2.value.left) == nm else s2.value.left
                        ups.add((type(s2.value.op).__name__, au.U(other)))
                follow[st] = frozenset(ups)
            tally = {}
            for v in follow.values():
                tally[v] = tally.get(v, 0) + 1
            major = max(tally, key=lambda k: tally[k])
            if not major:
                continue
            for st in sites:
                ctx.ob("C12.g", fn, "%s = self.%s(..)" % (st.targets[0].id, helper), follow[st] == major,
                       "%d of the %d values returned by %s are then converted with %s; this one %s. The profile stays a rate per main time "
                       "unit but is used as a volume per step: on a grid whose step is not one main time unit (hourly grid in 'd' or 'min') "
                       "the bound is off by the step length, and the same plant is worth 6230.5 in 'd' and 6167.5 in 'h'" % (
                           tally[major], len(sites), helper, " and ".join("%s %s" % (o, f) for o, f in sorted(major)),
                           "is not" if not follow[st] else "gets %s" % sorted(follow[st])), node=st)

    # ================================================================= C05.m / C06.l / C02.h neutral shortcuts
    for fn in sorted(p.all_functions(), key=lambda f: f.qualname):
        if fn.parent is not None or fn.cls is None or not p.is_subclass(fn.cls, "Asset"):
            continue
        rid = "C05.m" if fn.cls.name == "Storage" else ("C06.l" if p.is_subclass(fn.cls, "CHPAsset") else "C02.h")
        for iff in [s0 for s0 in au.walk_stmts(fn.body) if isinstance(s0, ast.If) and not s0.orelse]:
            t = iff.test
            if not (isinstance(t, ast.Compare) and len(t.ops) == 1):
                continue
            side, other = t.left, t.comparators[0]
            if au.const_num(side) is not None:
                side, other = other, side
            if au.const_num(other) is None or not (isinstance(side, ast.Attribute) and au.base_name(side) == "self" and au.path(side).count(".") == 1):
                continue
            # the body only adds terms that carry the tested parameter as a factor
            inner = list(au.walk_stmts(iff.body))
            terms = [x for x in inner if isinstance(x, ast.AugAssign) and isinstance(x.op, (ast.Add, ast.Sub))]
            # besides the terms: expression statements, case distinctions and locals that prepare the terms
            rest = [x for x in inner if x not in terms and not isinstance(x, (ast.Pass, ast.Expr, ast.If))
                    and not (isinstance(x, ast.Assign) and all(isinstance(t0, ast.Name) for t0 in x.targets))]
            if not terms or rest:
                continue
            if not all(any(au.U(y) == au.U(side) for y in au.walk_local(x.value)) for x in terms):
                continue
            neutral = isinstance(t.ops[0], ast.NotEq) and au.const_num(other) == 0
            if not neutral and isinstance(t.ops[0], ast.Gt) and au.const_num(other) == 0 and t.left is side:
                # `p > 0` is the same as `p != 0` when the constructor asserts p >= 0
                for c in p.mro(fn.cls):
                    init = c.methods.get("__init__")
                    for a0 in ([x for x in au.walk_stmts(init.body) if isinstance(x, ast.Assert)] if init else []):
                        tt = a0.test
                        if isinstance(tt, ast.Compare) and len(tt.ops) == 1 and isinstance(tt.ops[0], (ast.GtE, ast.Gt)) and au.const_num(tt.comparators[0]) == 0 \
                                and au.U(tt.left) in (side.attr, au.U(side)):
                            neutral = True
            ctx.ob(rid, fn, "if %s: %s" % (au.short(t, 40), au.short(terms[0], 50)), neutral,
                   "the term is applied only under `%s`; for the values that fail this test and are not zero (a negative %s - a drain - is a "
                   "legal value that the set-up applies like any other) the term is silently dropped: the reported level leaves out the "
                   "accumulated amount and drifts away from the physical level" % (au.short(t, 40), side.attr), node=iff)

    # ================================================================= C04.g one normalisation per option string
    n_g = 0
    for fn in sorted(p.all_functions(), key=lambda f: f.qualname):
        if fn.parent is not None:
            continue
        if fn.module.name != "optimization":
            continue            # the solver entry points: here a mismatch changes what is solved / reported
        pnames = {q.name for q in fn.params}
        sites = {}      # param -> [(normaliser | '', Compare)]
        for n in au.walk_local(fn.node, include_self=False):
            if not (isinstance(n, ast.Compare) and len(n.ops) == 1 and isinstance(n.ops[0], (ast.Eq, ast.NotEq, ast.In, ast.NotIn))):
                continue
            for a, b in ((n.left, n.comparators[0]), (n.comparators[0], n.left)):
                lit = au.const_str(b) is not None or (isinstance(b, (ast.Tuple, ast.List, ast.Set)) and b.elts and all(au.const_str(e) is not None for e in b.elts))
                if not lit:
                    continue
                norm = ""
                x = a
                if isinstance(x, ast.Call) and isinstance(x.func, ast.Attribute) and x.func.attr in ("lower", "upper", "casefold", "strip") and not x.args:
                    norm, x = x.func.attr, x.func.value
                if isinstance(x, ast.Name) and x.id in pnames:
                    sites.setdefault(x.id, []).append((norm, n))
        for name, ss in sorted(sites.items()):
            norms = {nm for nm, _ in ss}
            if len(ss) < 2 or norms == {""}:
                continue
            n_g += 1
            tally = {}
            for nm, _ in ss:
                tally[nm] = tally.get(nm, 0) + 1
            major = max(tally, key=lambda k: tally[k])
            dev = [c for nm, c in ss if nm != major]
            ctx.ob("C04.g", fn, "option string %s" % name, not dev,
                   "%s is compared as %s at %d site(s) but as %s here (`%s`): for a spelling that only the normalised comparison accepts "
                   "(target='Robust') one branch treats the option as active and the other does not - the robust problem is solved but "
                   "the reported value is not recomputed from the cost vector the DCF table uses" % (
                       name, ("%s.%s()" % (name, major)) if major else name, tally[major],
                       ("%s.%s()" % (name, [nm for nm, c in ss if c is dev[0]][0]) if [nm for nm, c in ss if c is dev[0]][0] else "the raw string") if dev else "",
                       au.short(dev[0], 50) if dev else ""), node=(dev[0] if dev else ss[0][1]),
                   ok_detail="%d comparisons, all through .%s()" % (len(ss), major))
    ctx.require(n_g >= 1, "no option string with a normalised comparison found (optimize target)", rules=['C04.g'])

    # ================================================================= C11.h naive test of the writer
    ser = p.modules.get("serialization")
    ctx.require(ser is not None, "serialization module vanished", rules=['C11.h'])
    found = False
    for fn in ser.functions.values():
        for st in au.walk_stmts(fn.body):
            if isinstance(st, ast.If) and any(isinstance(s2, ast.Assign) and isinstance(s2.value, ast.Constant) and s2.value.value is None
                                              and any(isinstance(t, ast.Name) and "tz" in t.id.lower() for t in s2.targets) for s2 in st.body):
                found = True
                nt = au.none_test(st.test)
                ok = nt is not None and isinstance(nt[0], ast.Attribute) and nt[0].attr in ("tzinfo", "tz") and nt[1] is True
                ctx.ob("C11.h", fn, "if %s" % au.short(st.test, 60), ok,
                       "the writer treats a timestamp as naive under `%s`; only `tzinfo is None` is a test for naive: an offset of zero "
                       "(UTC, London in winter) is falsy, so zone-aware dates are saved without zone and load back naive" % au.short(st.test, 40), node=st)
    if not found:
        ctx.ob("C11.h", "serialization", "naive test", None, "the writer's branch that stores __tz__ = None was not found")


    # ================================================================= C14.o forwarded names reach their own parameter
    n_o = 0
    for fno in sorted(p.all_functions(), key=lambda f: f.qualname):
        if fno.parent is not None:
            continue
        own = {q.name for q in fno.params}
        for c in p.calls_in(fno):
            targets = p.resolve_call(c, fno)
            if not targets or len(targets) > 4:
                continue
            # receivers that are not resolved give every function of that name: keep those whose signature fits the call
            fits = []
            for t1 in targets:
                nm1 = [q.name for q in t1.params]
                if all(k.arg in nm1 for k in c.keywords if k.arg) and len(c.args) <= len(nm1):
                    fits.append(t1)
            sigs = {tuple(q.name for q in t1.params if q.name not in ("self", "cls")) for t1 in fits}
            if not fits or len(sigs) != 1:
                continue
            t0 = fits[0]
            names = [q.name for q in t0.params]
            off = 1 if (t0.cls is not None and t0.parent is None and names and names[0] in ("self", "cls")) else 0
            bound = []
            if not any(isinstance(a, ast.Starred) for a in c.args):
                for i2, a in enumerate(c.args):
                    if i2 + off < len(names):
                        bound.append((names[i2 + off], a))
            bound += [(k.arg, k.value) for k in c.keywords if k.arg]
            cand = [(k, v) for k, v in bound if isinstance(v, ast.Name) and v.id in names[off:] and v.id in own]
            for k, v in cand:
                n_o += 1
                ok = k == v.id
                # a deliberate re-binding uses another local name; here the *same* name exists as a parameter of the callee, which in turn gets something else
                twin = next((v2 for k2, v2 in bound if k2 == v.id), None)
                ctx.ob("C14.o", fno, "%s(... %s=%s ...)" % (au.method_name(c) or "?", k, v.id), ok or twin is None or (isinstance(twin, ast.Name) and twin.id == v.id),
                       "%s passes its own `%s` to the parameter `%s` of %s, while `%s` of the callee receives %s: two arguments are swapped (positional order "
                       "differs from the callee's signature). optimize(make_soft_problem=True) on a split problem lands in solver_params - the intervals are "
                       "solved as MIPs, the split value (25.04) is no longer the sum of the relaxed interval optima (29.32)" % (
                           fno.qualname, v.id, k, t0.qualname, v.id, au.short(twin, 30) if twin is not None else "nothing"), node=c,
                       trivial=True)
    ctx.require(n_o >= 20, "fewer than 20 forwarded arguments found in the package", rules=["C14.o"])
