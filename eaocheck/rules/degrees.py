"""Analysis 7 - degrees (C02.a, C02.b, C12.a, C12.c, C19.d, C08.e, C20.d).

If every formula is homogeneous in the time dimension and the readers of main_time_unit have the declared degrees, then
re-expressing rates and durations in another unit cannot change l, u, b, c'x: that is the invariance argument of C12,
decided for the formulas (given the seed table).  C02 needs the same (limit = rate x step length) plus exactly one discount
factor in every term of the cost vector.
"""
from __future__ import annotations
import ast
from .. import astutil as au
from ..degrees import FnDegrees, show, show1, N, TOP, SEEDS
from ..tables import rule
from . import analysis

rule("C12.a", "time homogeneity: whatever reaches c, l, u, b or a dispatch factor has time degree 0 (each rate meets exactly one "
              "step length, each duration is converted to steps), and no two quantities of different degree are added", floor=30)
rule("C12.k", "a window of accumulated step lengths (how many steps fit into a duration given by the user) is measured from every start "
              "position it is used for: inside a loop over start positions the running sum starts at the loop's position - a number of steps "
              "determined once assumes that all steps are equally long (daylight saving, months, grids cut by the horizon)", floor=1, props=["C12", "C05"])
rule("C12.f", "a running sum of step lengths is compared with a duration given by the user with a tolerance: k steps of 1/24 day do not sum "
              "to exactly k/24, so an exact <= drops the last step for some main time units", floor=1)
rule("C12.h", "a conversion helper returns the converted quantity on every path: what it returns is the result of the unit conversion, "
              "possibly rounded - never the raw argument again (rounding the value in main time units instead of the value in grid "
              "steps)", floor=1, props=["C12", "C06"])
rule("C12.i", "unit conversion stays exact: the value is multiplied by a Timedelta before it is divided by a Timedelta (integer nanoseconds); "
              "the ratio of two frequencies is never formed as a float first (7 steps would come out as 7.000000000000001 and be rounded "
              "up to 8)", floor=1, props=["C12", "C06"])
rule("C20.j", "order book: the cost of an order is capacity x price x covered step lengths x discount factor and its delivered "
              "volume capacity x step length - time degree 0, discounted exactly once (the degree rules C12.a / C02.b on OrderBook)", floor=2)
rule("C02.a", "time homogeneity of bounds, costs and take right-hand sides of storages, contracts and transports", floor=15,
     props=["C02", "C05"])
rule("C02.b", "every term of the cost vector of storages, contracts, transports and order books carries exactly one discount factor", floor=6)
rule("C12.c", "limits follow the actual step: a rate is multiplied by the step-length *vector* of the restricted grid, not by one "
              "nominal step", floor=4)
rule("C19.d", "dt is (difference of successive time points) / (one main time unit), i.e. of time degree 1; the discount exponent is "
              "dimensionless", floor=2, props=["C19", "C12"])
rule("C12.e", "a duration / rate in main time units is never compared with a pure number: thresholds use the value converted to "
              "grid steps", floor=1, props=["C12", "C06"])
rule("C08.e", "the take right-hand side is value / period length x covered step lengths (time degree 0)", floor=1)

rule("C12.n", "Asset.make_vector with convert=True returns volume per step on every path: each way a value can be given (number, array, name of a "
              "series, interval dictionary) ends in the one place where the rate meets the step lengths - no branch returns its vector before that",
     floor=1, props=["C12", "C02"])
rule("C12.m", "what accumulates over time is accumulated with the step lengths inside: cumsum(rate x dt ...), a suffix sum of cost x dt x discount. "
              "The step-length vector never multiplies a cumulated vector from outside (dt_i x sum_j z_j is sum_j dt_j z_j only when all steps are "
              "equally long: holding costs of a storage on a monthly grid, across a daylight-saving switch)", floor=1, props=["C12", "C05", "C02"])
rule("C12.l", "a rate or duration given in main time units is kept as given: the constructor stores the parameter itself - not int(), round(), "
              "floor() or ceil() of it. Whole numbers in one main time unit are fractions in another (6 h = 0.25 d): rounding before the "
              "conversion to grid steps makes the result depend on the main time unit", floor=10, props=["C12", "C06"])
rule("C06.o", "plant / CHP: capacities, ramp, last dispatch, running and start costs are rates - in every bound, restriction and cost term "
              "each meets a step length exactly once (time degree 0; the degree rule C12.a on the CHP classes): 'at most the ramp between "
              "consecutive steps, the first step relative to the last dispatch' is a statement about volumes per step", floor=10)
CHP_CLASSES = ("CHPAsset", "Plant", "CHPAsset_with_min_load_costs")
C02_CLASSES = ("Storage", "SimpleContract", "Contract", "Transport", "ExtendedTransport", "MultiCommodityContract")
DISCOUNT_CLASSES = C02_CLASSES + ("OrderBook",)
ORDER = ["Asset", "Storage", "SimpleContract", "Transport", "OrderBook", "Contract", "ExtendedTransport", "MultiCommodityContract",
         "CHPAsset", "Plant", "CHPAsset_with_min_load_costs", "ScaledAsset"]


def _verdict(vals, want_t, want_d):
    """(ok, offending) ; ok None = undecided."""
    definite = [x for x in vals if x not in (N, TOP)]
    bad = [x for x in definite if x[0] != want_t or (want_d is not None and x[1] != want_d)]
    if bad:
        return False, bad
    if TOP in vals and not definite:
        return None, []
    if TOP in vals:
        return None, []
    return True, []


rule("C16.l", "scaled asset: what it adds to the cost vector - the fix costs of the scale variable - is cost rate x active duration in main time "
              "units (time degree 0), like every other entry of c; not rate x number of steps", floor=1)


@analysis("degrees", ["C12.a", "C02.a", "C02.b", "C12.c", "C19.d", "C08.e", "C12.e", "C20.j", "C12.f", "C12.k", "C12.h", "C12.i", "C16.l", "C06.o", "C12.l", "C12.m", "C12.n"])
def run(ctx):
    p = ctx.p
    summaries = {}
    analyses = []
    extra = []
    # the take-row helper first: its callers unpack (A, b, cType); take values are volumes (seed T^0)
    dr = p.fn_opt("assets.define_restr")
    if dr is not None:
        fd = FnDegrees(p, dr, None, {"my_take": frozenset([(0, 0)])}, summaries)
        extra.append((None, dr, fd))
        if fd.returns_tuple:
            summaries[dr] = {"ret": fd.returns_tuple}
    for cname in ORDER:
        ci = p.classes.get(cname)
        if ci is None:
            continue
        fn = ci.methods.get("setup_optim_problem")
        if fn is None or all(isinstance(s, (ast.Pass, ast.Expr)) for s in fn.body):
            continue
        fd = FnDegrees(p, fn, ci, None, summaries)
        summaries[fn] = dict(fd.returns_problem)
        # the cost vector returned under costs_only is the c of the problem as far as callers are concerned
        analyses.append((ci, fn, fd))
    # the grid
    for q in ("Timegrid.__init__", "Timegrid.set_wacc", "Asset.make_vector"):
        f = p.fn_opt(q)
        if f is not None:
            extra.append((f.cls, f, FnDegrees(p, f, f.cls, None, summaries, inline=False)))

    n_sinks = 0
    n_thr = [0]
    for ci, fn, fd in analyses + extra:
        cname = ci.name if ci is not None else ""
        for kind, node, vals, desc in fd.all_sinks():
            if kind in ("self.dt", "self.discount_factors"):
                if fn.qualname == "Timegrid.__init__" and kind == "self.dt":
                    ok, bad = _verdict(vals, 1, 0)
                    if N in vals and not [x for x in vals if x not in (N, TOP)]:
                        continue   # copies of the reference grid's arrays / list initialisations
                    ctx.ob("C19.d", fn, au.short(node, 80), ok,
                           "dt must be step length in main time units (time degree 1); found %s" % show(vals), node=node, ok_detail=show(vals))
                continue
            want_d = None
            if kind == "c":
                want_d = 1 if cname in DISCOUNT_CLASSES else None
            elif kind in ("l", "u", "b", "disp_factor"):
                want_d = 0
            ok, bad = _verdict(vals, 0, want_d if kind != "c" else None)
            n_sinks += 1
            where_fn = p.enclosing_fn(node) or fn
            cons = "%s: %s" % (desc, au.short(node, 60)) if kind not in ("disp_factor",) else desc
            detail = "%s has degree %s; it must be a plain volume / money amount per step (T^0): a rate that never met a step length, " \
                     "a duration that was not converted, or a step length applied twice" % (desc, show(vals))
            ctx.ob("C12.a", where_fn, cons, ok, detail, node=node, ok_detail=show(vals))
            if cname == "OrderBook":
                ctx.ob("C20.j", where_fn, cons, ok, detail, node=node, ok_detail=show(vals))
            if cname in CHP_CLASSES:
                ctx.ob("C06.o", where_fn, cons, ok, detail, node=node, ok_detail=show(vals))
            if cname == "ScaledAsset" and kind == "c":
                ctx.ob("C16.l", where_fn, cons, ok, detail + " (the fix costs of a scaled asset are s x cost rate x active duration: with the number of "
                       "steps in place of the duration they are four times too large on a 15-minute grid, 24 times too small on a daily one)",
                       node=node, ok_detail=show(vals))
            if cname in C02_CLASSES or fn.qualname == "assets.define_restr":
                ctx.ob("C02.a", where_fn, cons, ok, detail, node=node, ok_detail=show(vals))
            if fn.qualname == "assets.define_restr" and kind == "b":
                ctx.ob("C08.e", where_fn, cons, ok, detail, node=node, ok_detail=show(vals))
            if kind == "c" and cname in DISCOUNT_CLASSES:
                definite = [x for x in vals if x not in (N, TOP)]
                badd = [x for x in definite if x[1] != 1]
                okd = False if badd else (None if (TOP in vals or not definite) else True)
                ctx.ob("C02.b", where_fn, cons, okd,
                       "%s has discount degree %s: every cash flow must be discounted exactly once (D^1); D^0 = undiscounted term, "
                       "D^2 = discounted twice" % (desc, show(vals)), node=node, ok_detail=show(vals))
            elif kind == "c" and any(x not in (N, TOP) and x[1] != 1 for x in vals):
                ctx.note("C02.b", where_fn, cons, "cost terms of %s are not (all) discounted: %s (outside the classes C02 names)" % (cname, show(vals)), node=node)
        for where, x, y in fd.conflicts():
            where_fn = p.enclosing_fn(where) or fn
            if x == ("threshold",):
                n_thr[0] += 1
                ctx.ob("C12.e", where_fn, "dimensioned threshold: %s" % au.short(where, 70), False,
                       "a quantity of degree %s (a duration / rate in main time units) is compared with a pure number: the outcome depends "
                       "on the main time unit and the grid frequency - the value converted to grid steps has to be used" % show1(y), node=where)
                continue
            if x == ("exponent",):
                ctx.ob("C19.d", where_fn, au.short(where, 80), False,
                       "the exponent of the discount factor has degree %s: elapsed time must be converted from main time units to the "
                       "unit of the rate (days) before it is used as an exponent" % show1(y), node=where)
                continue
            same_t = isinstance(x, tuple) and isinstance(y, tuple) and len(x) == 2 and len(y) == 2 and x[0] == y[0]
            rids = (["C02.b"] if same_t else ["C12.a"]) + (["C20.j"] if cname == "OrderBook" else []) + \
                (["C16.l"] if cname == "ScaledAsset" and not same_t else []) + (["C06.o"] if cname in CHP_CLASSES and not same_t else [])
            for rid in rids:
                # a conflict in the discount exponent only is a matter of discounting (C02.b), not of time units (C12.a)
                ctx.ob(rid, where_fn, "mixed degrees: %s" % au.short(where, 70), False,
                       "quantities of degree %s and %s are added / stored into one vector: one of them lacks (or has one too many) "
                       "step length or discount factor" % (show1(x), show1(y)), node=where)
            if cname in C02_CLASSES and not same_t:
                ctx.ob("C02.a", where_fn, "mixed degrees: %s" % au.short(where, 70), False,
                       "quantities of degree %s and %s are added / stored into one vector" % (show1(x), show1(y)), node=where)
    ctx.require(n_sinks >= 25, "fewer than 25 degree sinks found (c / l / u / b / disp_factor)")
    ctx.ob("C12.e", "package", "thresholds in set-up code", True, ok_detail="no dimensioned quantity is compared with a pure number (other than 0)")
    # exponent of set_wacc holds when no conflict was raised
    sw = p.fn_opt("Timegrid.set_wacc")
    if sw is not None:
        pows = [n for n in au.walk_local(sw.node) if isinstance(n, ast.BinOp) and isinstance(n.op, ast.Pow) and any(
            isinstance(x, ast.Attribute) and x.attr == "Dt" for x in au.walk_local(n.right))]
        for n in pows:
            if not any(w is n for _, _, fd in extra for w, x, _ in fd.conflicts() if x == ("exponent",)):
                ctx.ob("C19.d", sw, au.short(n, 80), True, ok_detail="exponent is dimensionless (Dt x unit / day)", node=n)

    # ================================================================= C12.c nominal step
    n = 0
    for fn in p.all_functions():
        if fn.parent is not None:
            continue
        for st in au.walk_stmts(fn.body):
            for x in au.walk_own(st):
                if isinstance(x, ast.Subscript) and isinstance(x.value, ast.Attribute) and x.value.attr == "dt" and au.const_num(x.slice) is not None \
                        and isinstance(x.ctx, ast.Load):
                    n += 1
                    cname = fn.cls.name if fn.cls is not None else ""
                    if cname in C02_CLASSES or cname == "OrderBook":
                        ctx.ob("C12.c", fn, au.short(x, 60), False,
                               "a rate is converted with the length of one particular step: on grids whose steps differ in length (DST "
                               "switch, months) the per-step limit is wrong for every other step", node=x)
                    else:
                        par = p.parent(x)
                        other = None
                        if isinstance(par, ast.BinOp) and isinstance(par.op, ast.Mult):
                            other = par.right if par.left is x else par.left
                        first_only = other is not None and au.const_num(x.slice) == 0 and any(
                            isinstance(y, ast.Attribute) and y.attr.startswith("last_") for y in au.walk_local(other))
                        if first_only:
                            ctx.ob("C12.c", fn, au.short(par, 60), True, ok_detail="a quantity that is only compared with the first step meets the first step's length", node=x)
                        else:
                            ctx.ob("C12.c", fn, au.short(par if other is not None else x, 60), False,
                                   "a rate that applies to every step (%s) is converted with the length of the first step only: on grids whose steps differ "
                                   "in length (daylight-saving switch, an asset grid cut by the horizon) the limit of every other step is wrong - ramp 1 / h "
                                   "on a daily CET grid starting on the 23 h day allows a change of 23 per day on the 24 h days" % (
                                       au.short(other, 30) if other is not None else "?"), node=x,
                                   key="rate for all steps times the first step length: %s" % (au.short(other, 30) if other is not None else au.short(x, 30)))
    anchors = []
    mv = p.fn_opt("Asset.make_vector")
    for fn, pred in ((mv, "vec"), (p.fn_opt("Storage.setup_optim_problem"), "cap"), (p.fn_opt("Transport.setup_optim_problem"), "cap"),
                     (p.fn_opt("OrderBook.setup_optim_problem"), "myc")):
        if fn is None:
            continue
        for st in au.walk_stmts(fn.body):
            if isinstance(st, ast.Assign) and isinstance(st.value, ast.BinOp) and isinstance(st.value.op, ast.Mult):
                sides = [st.value.left, st.value.right]
                ffn = ctx.flow(fn)

                def is_dt(x, st=st, ffn=ffn):
                    """the step-length vector: <grid>.dt, or a local bound to it (never recognised by its name)"""
                    if isinstance(x, ast.Attribute):
                        return x.attr == "dt"
                    if isinstance(x, ast.Name):
                        ds = [d for d in ffn.defs(x.id, st) if d.kind == "assign" and d.value is not None]
                        return bool(ds) and all(isinstance(d.value, ast.Attribute) and d.value.attr == "dt" for d in ds)
                    return False
                dts = [s for s in sides if is_dt(s) or (isinstance(s, ast.Subscript) and is_dt(s.value))]
                if dts:
                    d = dts[0]
                    whole = not (isinstance(d, ast.Subscript) and au.const_num(d.slice) is not None)
                    restricted = True
                    if isinstance(d, ast.Attribute):
                        restricted = "restricted" in (au.dotted(d) or "")
                    elif isinstance(d, ast.Name):
                        restricted = all("restricted" in (au.dotted(x.value) or "") for x in ffn.defs(d.id, st) if x.kind == "assign")
                    anchors.append((fn, st, whole and restricted))
    for fn, st, ok in anchors:
        ctx.ob("C12.c", fn, au.short(st, 70), ok,
               "the conversion rate -> volume per step must use the restricted grid's step-length vector elementwise", node=st)
    ctx.require(len(anchors) >= 4, "fewer than 4 anchored rate conversions found", rules=['C12.c'])

    # ================================================================= C12.f accumulated step lengths vs. a duration
    n_f = 0
    for fn in sorted(p.all_functions(), key=lambda f: f.qualname):
        if fn.parent is not None:
            continue
        for n in au.walk_local(fn.node, include_self=False):
            if not (isinstance(n, ast.Compare) and len(n.ops) == 1 and isinstance(n.ops[0], (ast.LtE, ast.Lt, ast.GtE, ast.Gt, ast.Eq))):
                continue
            sides = [n.left, n.comparators[0]]
            st_n = p.enclosing_stmt(n)
            acc = [x for x in sides if any(isinstance(c, ast.Call) and au.method_name(c) == "cumsum" for c in au.walk_local(x))
                   and any(isinstance(y, ast.Attribute) and y.attr == "dt" for y in ctx.origins(fn, values_only=True).nodes(x, st_n))]
            if len(acc) != 1:
                continue
            other = sides[1] if acc[0] is sides[0] else sides[0]
            if au.const_num(other) is not None:
                continue
            n_f += 1
            tol = any(isinstance(c, ast.BinOp) and isinstance(c.op, (ast.Add, ast.Sub, ast.Mult)) and any(
                au.const_num(k) is not None and 0 < abs(au.const_num(k) - (1 if isinstance(c.op, ast.Mult) else 0)) < 1e-3 for k in au.walk_local(c) if isinstance(k, ast.Constant))
                for x in sides for c in au.walk_local(x)) or any(isinstance(c, ast.Call) and au.method_name(c) in ("isclose", "round", "around", "rint") for x in sides for c in au.walk_local(x))
            ctx.ob("C12.f", fn, au.short(n, 80), tol,
                   "a running sum of step lengths is compared exactly with %s: in main time units in which a step is not exactly representable "
                   "(hours on a grid in days: 1/24) ten steps sum to slightly more than 10/24 and the tenth step drops out of the window - "
                   "the same storage with max_store_duration of 10 hours is worth 100 in 'h' and 'min' but 99 in 'd'" % au.short(other, 40), node=n)
            # ---- C12.k: the window is measured from every start position (steps differ in length)
            loops = [a for a in p.ancestors(n) if isinstance(a, (ast.For, ast.While))]
            accx = acc[0]
            lv = set()
            for lp in loops:
                if isinstance(lp, ast.For):
                    lv |= set(au.target_names(lp.target))
            dep = False
            for c in au.walk_local(accx):
                if isinstance(c, ast.Subscript) and (au.names_in(c.slice) & lv):
                    dep = True
            if not dep:
                onodes = ctx.origins(fn, values_only=False).nodes(accx, st_n)
                dep = any(isinstance(y, ast.Subscript) and (au.names_in(y.slice) & lv) for y in onodes)
            if dep:
                ctx.ob("C12.k", fn, au.short(n, 80), True, ok_detail="accumulated from the position of the enclosing loop", node=n,
                       key="window of accumulated step lengths is measured from each start position")
            else:
                # computed once: does the result steer a loop that builds one row / entry per start position?
                tainted = set(au.target_names(st_n.targets[0])) if isinstance(st_n, ast.Assign) else set()
                later = [s2 for s2 in au.walk_stmts(fn.body) if s2.lineno > st_n.lineno]
                hit = None
                for s2 in later:
                    if isinstance(s2, ast.Assign) and tainted & au.names_loaded(s2.value):
                        tainted |= set(au.target_names(s2.targets[0]))
                    if isinstance(s2, (ast.For, ast.While)) and hit is None:
                        used = {x.id for b0 in [s2] + list(au.walk_stmts(s2.body)) for x in au.walk_own(b0) if isinstance(x, ast.Name) and isinstance(x.ctx, ast.Load)}
                        if tainted & used:
                            hit = s2
                ctx.ob("C12.k", fn, au.short(n, 80), False if (hit is not None and not loops) else None,
                       ("the number of steps that fit into %s is determined once, from the steps at the beginning of the window (%s), and then used "
                        "for every start position in the loop at line %s: where steps differ in length (a 25 h day at the end of daylight saving "
                        "time, calendar months, an asset grid cut by the horizon) a window further on spans more time than allowed - commodity "
                        "is held for 49 h with a maximum holding time of 48 h, whatever the main time unit"
                        % (au.short(other, 40), au.short(accx, 40), hit.lineno)) if hit is not None else
                       "the accumulated step lengths do not depend on an enclosing loop and no later loop uses the result", node=n,
                       key="window of accumulated step lengths is measured from each start position")
    ctx.require(n_f >= 1, "no comparison of accumulated step lengths with a duration found (max_store_duration window)", rules=['C12.f'])

    # ================================================================= C12.h converters return the converted value
    for fn in sorted(p.all_functions(), key=lambda f: f.qualname):
        if fn.parent is not None or not fn.name.startswith("convert_to_"):
            continue
        rets = [r for r in au.walk_stmts(fn.body) if isinstance(r, ast.Return) and isinstance(r.value, ast.Name)]
        if not rets:
            continue
        rv = rets[-1].value.id
        raw = [q.name for q in fn.params if q.name not in ("self", "cls")][:1]
        defs_ = [st for st in au.walk_stmts(fn.body) if isinstance(st, ast.Assign) and any(isinstance(t0, ast.Name) and t0.id == rv for t0 in st.targets)]
        conv = [st for st in defs_ if isinstance(st.value, ast.Call) and (au.method_name(st.value) or "").startswith("convert_")]
        if not conv or not raw:
            ctx.ob("C12.h", fn, "returned value", None, "conversion call defining the returned variable not found")
            continue
        bad = [st for st in defs_ if st not in conv and raw[0] in au.names_in(st.value) and rv not in au.names_in(st.value)]
        ctx.ob("C12.h", fn, "%s is the converted value on every path" % rv, not bad,
               "`%s` puts a function of the raw argument %s (still in main time units) into the returned variable: on a grid whose step is "
               "not one main time unit the caller gets main time units where it expects grid steps - min_runtime 1.1 h on a 15 min grid "
               "becomes 2 steps instead of 5, min_downtime 0.6 h becomes 1 step (no downtime restriction at all)" % (
                   au.short(bad[0], 60) if bad else "", raw[0]), node=(bad[0] if bad else rets[-1]))

    # ================================================================= C12.i exact conversion
    cv = p.fn_opt("assets.convert_time_unit")
    if cv is None:
        ctx.ob("C12.i", "assets", "convert_time_unit", None, "convert_time_unit not found")
    else:
        vname = cv.params[0].name if cv.params else None
        is_td = lambda e: any(isinstance(c, ast.Call) and au.method_name(c) in ("to_timedelta", "Timedelta") for c in au.walk_local(e))
        divs = [n for n in au.walk_local(cv.node, include_self=False) if isinstance(n, ast.BinOp) and isinstance(n.op, ast.Div) and is_td(n.right)]
        if not divs:
            ctx.ob("C12.i", cv, "division by a Timedelta", None, "no division by a Timedelta found")
        for d in divs:
            left = d.left
            has_value = vname in au.names_in(left) or any(vname in au.names_in(ctx.resolve(cv, x, p.enclosing_stmt(d))) for x in au.walk_local(left) if isinstance(x, ast.Name))
            ctx.ob("C12.i", cv, au.short(d, 70), has_value or not is_td(left),
                   "two durations are divided before the value is multiplied in: the quotient is a float (1/300 for seconds on a 5 min grid) that "
                   "is not exactly representable, so whole numbers of steps come out one ulp too large (2100 s -> 7.000000000000001 steps) and "
                   "the caller's ceil() adds a step - the same plant has a minimum runtime of 8 steps in 's' and 7 in 'h'", node=d)


    # ================================================================= C12.l dimensioned parameters are stored unrounded
    ROUNDERS = ("int", "round", "floor", "ceil", "trunc", "rint", "around", "fix")
    n_l = 0
    for cname, seeds in sorted(SEEDS.items()):
        ci = p.classes.get(cname)
        init = ci.methods.get("__init__") if ci is not None else None
        if init is None:
            continue
        from .serialization import self_attr_writes as _saw
        for attr, st, val in _saw(init):
            if attr not in seeds or seeds[attr] == 0 or val is None:
                continue
            n_l += 1
            rc = [c for c in au.walk_local(val) if isinstance(c, ast.Call) and (
                au.method_name(c) in ROUNDERS or (au.method_name(c) == "astype" and c.args and "int" in au.U(c.args[0])))]
            ctx.ob("C12.l", init, "self.%s" % attr, not rc,
                   "%s.%s is a %s in main time units and is stored as %s: a value that is whole in one main time unit is a fraction in another "
                   "(min_runtime 6 h = 0.25 d is truncated to 0 d, 1.5 h to 1 h) - the same plant runs 12 hours with the main time unit 'h' and 4 "
                   "with 'd' (value 2300 vs 2780)" % (cname, attr, "duration" if seeds[attr] > 0 else "rate", au.short(val, 40)), node=st,
                   ok_detail="stored as given")
    ctx.require(n_l >= 10, "fewer than 10 dimensioned constructor parameters found", rules=["C12.l"])


    # ================================================================= C12.m the step length inside the accumulation
    CUM = ("cumsum", "accumulate", "cumulative_sum")
    n_m = 0
    for fn in sorted(p.all_functions(), key=lambda f: f.qualname):
        if fn.parent is not None or fn.cls is None or not p.is_subclass(fn.cls, "Asset"):
            continue
        ffm = None

        def is_dt(e, st):
            if isinstance(e, ast.Attribute):
                return e.attr == "dt"
            if isinstance(e, ast.Subscript):
                return is_dt(e.value, st) and not (au.const_num(e.slice) is not None)
            if isinstance(e, ast.Name):
                ds = [d for d in ffm.defs(e.id, st) if d.kind == "assign" and d.value is not None]
                return bool(ds) and all(isinstance(d.value, ast.Attribute) and d.value.attr == "dt" for d in ds)
            return False

        def cumulations(e):
            out = []
            for x in au.walk_local(e):
                if isinstance(x, ast.Call) and au.method_name(x) in CUM:
                    operand = x.func.value if (isinstance(x.func, ast.Attribute) and not (isinstance(x.func.value, ast.Name) and x.func.value.id in ("np", "numpy"))
                                               and au.method_name(x) == "cumsum") else (x.args[0] if x.args else None)
                    out.append((x, operand))
                elif isinstance(x, ast.ListComp) and any(isinstance(y, ast.Call) and au.method_name(y) == "sum" for y in au.walk_local(x.elt)) and any(
                        isinstance(y, ast.Subscript) and isinstance(y.slice, ast.Slice) for y in au.walk_local(x.elt)):
                    out.append((x, x.elt))      # [v[i:].sum() for i in ...]: a suffix sum
            return out

        for st in au.walk_stmts(fn.body):
            if not isinstance(st, (ast.Assign, ast.AugAssign)) or st.value is None:
                continue
            ffm = ffm or ctx.flow(fn)
            for x in au.walk_local(st.value):
                if not (isinstance(x, ast.BinOp) and isinstance(x.op, ast.Mult)):
                    continue
                if isinstance(p.parent(x), ast.BinOp) and isinstance(p.parent(x).op, ast.Mult):
                    continue
                factors = au.flatten_binop(x, ast.Mult)
                dts = [f for f in factors if is_dt(f, st)]
                cums = [(f, c) for f in factors for c in cumulations(f)]
                if not cums:
                    continue
                n_m += 1
                outside = bool(dts) and any(op is not None and not any(is_dt(y, st) for y in au.walk_local(op)) and not any(
                    isinstance(y, ast.Name) and any(is_dt(z, d.node) for d in ffm.defs(y.id, st) if d.value is not None for z in au.walk_local(d.value))
                    for y in au.walk_local(op)) for _, (c, op) in cums)
                ctx.ob("C12.m", fn, au.short(x, 80), not outside,
                       "the step-length vector multiplies the cumulated vector %s from outside: step i is charged dt_i x (sum over the later steps) instead "
                       "of the sum over the later steps of dt_j x (...) - equal only on an equidistant grid. Holding 10 units for 120 days on a "
                       "monthly grid costs 12.4 instead of 12.0" % au.short(cums[0][1][0], 50), node=x, ok_detail="step lengths inside the accumulation")
        # cumulation statements without an outer product (the common form): dt must be inside when the operand carries a rate
    if n_m == 0:
        ctx.ob("C12.m", "package", "products with a cumulated factor", True, ok_detail="no product of a step-length vector with a cumulated vector")


    # ================================================================= C12.n every branch of make_vector reaches the conversion
    mvn = p.fn_opt("Asset.make_vector")
    if mvn is None:
        ctx.ob("C12.n", "Asset", "make_vector", None, "Asset.make_vector not found")
    else:
        conv = [st for st in au.walk_stmts(mvn.body) if isinstance(st, ast.If) and "convert" in au.names_in(st.test)]
        if not conv:
            ctx.ob("C12.n", mvn, "conversion rate -> volume", None, "no `if convert:` found")
        else:
            early = [r for r in au.walk_stmts(mvn.body) if isinstance(r, ast.Return) and r.lineno < conv[0].lineno and r.value is not None
                     and not au.is_none(r.value) and not any(isinstance(a, ast.If) and au.none_test(a.test) is not None and any(r is b0 for b0 in au.walk_stmts(a.body))
                                                             for a in p.ancestors(r))]
            ctx.ob("C12.n", mvn, "every branch reaches `if convert:`", not early,
                   "the branch at %s returns its vector before the conversion: a capacity given this way (%s) is used as a volume per step although it "
                   "is a rate - with a step length other than one main time unit (15 min grid, main time unit 'min', daily grid) the limit is off by "
                   "the step length, and re-expressing the rates in another unit changes value and dispatch (10630 in 'h', 2397 in 'min')" % (
                       p.where(early[0]) if early else "", au.short(next((a.test for a in p.ancestors(early[0]) if isinstance(a, ast.If)), early[0]), 60) if early else ""),
                   node=(early[0] if early else conv[0]))
