"""Analysis 8 / 5 (parts) - in/out roles, cost signs, take sign vs row letter (C02.c = C05.d, C02.d, C02.e).

The two-variable formulations lay out an in-side and an out-side block in several parallel artefacts (bounds, costs,
matrix columns, variable names, nodes, mode rows).  Within a class every two-block construct must put the in-side atoms in
the same position and the out-side atoms in the other.  The rule is *relational*: a consistent re-ordering of all blocks
is not reported; a single construct that disagrees with the others is ("efficiency applied on the wrong side", swapped
costs, swapped nodes).
"""
from __future__ import annotations
import ast
from .. import astutil as au
from ..tables import rule
from . import analysis

rule("C02.c", "in/out role consistency: within a class every two-block construct puts the in-side (cap_in, cost_in, eff_in, "
              "'disp_in', nodes[0], min(0,.), -extra_costs, -1) in the same position and the out-side in the other", floor=14,
     props=["C02", "C05"])
rule("C02.n", "costs on |dispatch| get their sign from the predicates that make the dispatch one-signed (all(max_cap <= 0): minus, all(min_cap >= 0): "
              "plus), not from np.sign of a capacity per step (0 where the capacity is 0)", floor=2, props=["C02", "C14"])
rule("C02.d", "a per-volume cost enters the cost vector negated on the side whose dispatch is <= 0 and un-negated on the side whose "
              "dispatch is >= 0 (cost x |x| is an expense on both sides)", floor=5)
rule("C02.e", "at every define_restr call a maximum take is an upper row and a minimum take a lower row, exchanged exactly when "
              "the values are negated", floor=4)

IN_ATTRS = {"cap_in", "cost_in", "eff_in"}
OUT_ATTRS = {"cap_out", "cost_out", "efficiency"}
CLASSES = ("Storage", "SimpleContract", "Transport")


from ..carriers import local_roles


class RoleEval:
    """Role atoms an operand carries *itself*: directly or through scalar / vector locals (cp = self.cap_in * dt), never through
    an accumulating carrier (c, l, u, A, b), which holds both sides."""

    def __init__(self, ctx, fn):
        self.ff = ctx.flow(fn)
        self.carriers = set(local_roles(fn))

    def _nodes(self, e, at, depth=0, seen=None):
        CARRIERS = self.carriers
        seen = seen if seen is not None else set()
        for n in au.walk_local(e):
            if not isinstance(n, ast.expr):
                continue
            yield n
            if isinstance(n, ast.Name) and isinstance(n.ctx, ast.Load) and depth < 5 and n.id not in CARRIERS:
                for d in self.ff.defs(n.id, at):
                    if d in seen or d.kind != "assign" or d.value is None:
                        continue
                    seen.add(d)
                    v = d.value
                    if au.base_name(v) in CARRIERS and not isinstance(v, ast.BinOp):
                        continue
                    if isinstance(v, ast.Call) and au.method_name(v) in ("hstack", "vstack", "concatenate", "csr_matrix", "lil_matrix", "copy"):
                        continue
                    if any(isinstance(x, ast.Name) and x.id in CARRIERS for x in au.walk_local(v)):
                        continue
                    yield from self._nodes(v, d.node, depth + 1, seen)

    def atoms(self, e, at):
        """(set of in-atoms, set of out-atoms) an operand carries."""
        ins, outs = set(), set()
        top_neg = au.sign_of(e) < 0
        for n in self._nodes(e, at):
            if isinstance(n, ast.Attribute) and au.base_name(n) == "self":
                if n.attr in IN_ATTRS:
                    ins.add(n.attr)
                elif n.attr in OUT_ATTRS:
                    outs.add(n.attr)
            s = au.const_str(n)
            if s == "disp_in":
                ins.add("'disp_in'")
            elif s == "disp_out":
                outs.add("'disp_out'")
            if isinstance(n, ast.Subscript) and au.path(n.value) == "self.nodes":
                k = au.const_num(n.slice)
                if k == 0:
                    ins.add("nodes[0]")
                elif k == 1:
                    outs.add("nodes[1]")
            if isinstance(n, ast.Call) and au.call_name(n) in ("np.minimum", "numpy.minimum") and n.args and au.const_num(n.args[0]) == 0:
                ins.add("min(0,.)")
            if isinstance(n, ast.Call) and au.call_name(n) in ("np.maximum", "numpy.maximum") and n.args and au.const_num(n.args[0]) == 0:
                outs.add("max(0,.)")
        # signed atoms: -extra_costs / +extra_costs, -ones / ones * efficiency
        has_extra = any(isinstance(x, ast.Attribute) and au.path(x) == "self.extra_costs" for x in self._nodes(e, at))
        if has_extra and not (ins or outs):
            (ins if top_neg else outs).add("-extra_costs" if top_neg else "+extra_costs")
        if isinstance(e, ast.UnaryOp) and isinstance(e.op, ast.USub) and isinstance(e.operand, ast.Call) and au.method_name(e.operand) == "ones":
            ins.add("-1")
        return ins, outs


def _two_operands(call):
    if isinstance(call, ast.Call) and au.method_name(call) in ("hstack", "vstack", "concatenate") and call.args \
            and isinstance(call.args[0], (ast.Tuple, ast.List)) and len(call.args[0].elts) == 2:
        return call.args[0].elts
    return None


def _slice_pos(sl):
    """0 for a[0:n] / a[0, :] / a[:n] ; 1 for a[n:] / a[n:2*n] / a[1, :] ; None otherwise."""
    first = sl.elts[0] if isinstance(sl, ast.Tuple) and sl.elts else sl
    k = au.const_num(first)
    if k in (0, 1):
        return int(k)
    if isinstance(first, ast.Slice):
        lo = first.lower
        if lo is None or au.const_num(lo) == 0:
            return 0
        return 1
    return None


def _col_pos(sl):
    """position of the *column* block for A[rows, cols]: 0 for 0:n, 1 for n:2*n, 2 for 2*n:3*n."""
    if not (isinstance(sl, ast.Tuple) and len(sl.elts) == 2 and isinstance(sl.elts[1], ast.Slice)):
        return None
    lo = sl.elts[1].lower
    if lo is None or au.const_num(lo) == 0:
        return 0
    if isinstance(lo, ast.Name):
        return 1
    if isinstance(lo, ast.BinOp) and isinstance(lo.op, ast.Mult):
        c = au.const_num(lo.left) if au.const_num(lo.left) is not None else au.const_num(lo.right)
        return int(c) if c is not None else None
    return None


rule("C02.j", "a transport loses commodity on the way to the node that receives it: where the set-up distinguishes the direction of flow (a "
              "transport whose dispatch is always negative flows from node 2 to node 1 - the cost sign is flipped for it), the efficiency factor "
              "sits on the receiving node of that direction too; with one fixed placement a reverse transport *creates* commodity (1 / efficiency)",
     floor=1)


rule("C02.m", "a set-up that re-scales the restriction matrix as a whole (A = A * k) re-scales the right-hand side with it (b = b * k): rows taken "
              "over from the parent class - take volumes, capacities - state limits on the dispatch variable; multiplying only the coefficients turns "
              "`sum x <= V` into `sum k x <= V`", floor=0, props=["C02", "C08"])
rule("C02.l", "a transport is modelled with one variable per step only where the direction of the flow is fixed (all capacities <= 0 or all >= 0) "
              "or does not matter: the disjunct that admits flows in both directions (no costs) also requires efficiency == 1 - one variable "
              "with factors (-1, +efficiency) loses commodity in one direction and creates it in the other", floor=1)


def _reverse_flow_guard(p, st, fn):
    """the enclosing `if all(<cap> <= 0)` (dispatch always negative) in whose body `st` lies, or None"""
    child = st
    for a in p.ancestors(st):
        if isinstance(a, ast.If) and any(child is b0 for b0 in a.body):
            for c in au.walk_local(a.test):
                if isinstance(c, ast.Call) and au.method_name(c) == "all" and c.args and isinstance(c.args[0], ast.Compare) and len(c.args[0].ops) == 1:
                    cmp_ = c.args[0]
                    if isinstance(cmp_.ops[0], ast.LtE) and au.const_num(cmp_.comparators[0]) == 0 and isinstance(a.test, ast.Call):
                        return a
        if a is fn.node:
            break
        child = a
    return None


@analysis("roles", ["C02.c", "C02.d", "C02.e", "C02.j", "C02.l", "C02.m", "C02.n"])
def run(ctx):
    p = ctx.p
    total = 0
    mirrored = []
    for cname in CLASSES:
        ci = p.cls(cname)
        fn = ci.methods.get("setup_optim_problem")
        ctx.require(fn is not None, "%s.setup_optim_problem vanished" % cname)
        re_ = RoleEval(ctx, fn)
        constructs = []   # (node, description, orientation in {'in-first','out-first'}, atoms)
        stmts = list(au.walk_stmts(fn.body))
        # ---- stacking calls with two operands
        for st in stmts:
            for n in au.walk_own(st):
                ops = _two_operands(n)
                if not ops:
                    continue
                if isinstance(st, ast.Assign) and au.U(st.targets[0]) == au.U(ops[0]) and st.value is n and \
                        au.U(st.targets[0]) not in {au.U(x) for x in au.walk_local(ops[1]) if isinstance(x, (ast.Name, ast.Attribute))}:
                    continue   # growth of a carrier (x = hstack((x, new))), not a two-block layout
                (i0, o0), (i1, o1) = re_.atoms(ops[0], st), re_.atoms(ops[1], st)
                # shared atoms (A*eff_in | A : the matrix itself is on both sides) do not count
                i0x, o0x, i1x, o1x = i0 - i1, o0 - o1, i1 - i0, o1 - o0
                votes = set()
                if i0x or o1x:
                    votes.add("in-first")
                if o0x or i1x:
                    votes.add("out-first")
                if not votes:
                    continue
                if _reverse_flow_guard(p, st, fn) is not None:
                    # the layout for the reverse direction of flow mirrors the default one (what is 'in' for positive dispatch is 'out' for negative)
                    votes = {{"in-first": "out-first", "out-first": "in-first"}[v] for v in votes}
                    mirrored.append((cname, st, n, (i0x, o0x, i1x, o1x)))
                constructs.append((n, au.short(n, 80), votes, (i0x, o0x, i1x, o1x)))
        # ---- paired positional stores: X[0,:] / X[1,:], X.iloc[0:n, k] / X.iloc[n:, k]
        groups = {}
        for st in stmts:
            if isinstance(st, ast.Assign) and isinstance(st.targets[0], ast.Subscript):
                t = st.targets[0]
                if isinstance(t.slice, ast.Tuple) and len(t.slice.elts) == 2 and isinstance(t.slice.elts[1], ast.Slice) and isinstance(t.slice.elts[0], ast.Slice) \
                        and t.slice.elts[1].lower is not None and not (isinstance(t.value, ast.Attribute) and t.value.attr == "iloc"):
                    continue  # matrix blocks: handled below
                pos = _slice_pos(t.slice)
                if pos is None:
                    continue
                key = au.U(t.value) + "|" + (au.U(t.slice.elts[1]) if isinstance(t.slice, ast.Tuple) and len(t.slice.elts) == 2 else "")
                groups.setdefault(key, {})[pos] = st
        for key, g in groups.items():
            if 0 in g and 1 in g:
                (i0, o0), (i1, o1) = re_.atoms(g[0].value, g[0]), re_.atoms(g[1].value, g[1])
                votes = set()
                if (i0 - i1) or (o1 - o0):
                    votes.add("in-first")
                if (o0 - o1) or (i1 - i0):
                    votes.add("out-first")
                if votes:
                    constructs.append((g[0], "%s / %s" % (au.short(g[0], 50), au.short(g[1], 50)), votes, (i0, o0, i1, o1)))
        # ---- mode rows: a matrix whose column block k is filled together with a capacity
        mats = {}
        for st in stmts:
            if isinstance(st, ast.Assign) and isinstance(st.targets[0], ast.Subscript) and isinstance(st.targets[0].value, ast.Name):
                cp_ = _col_pos(st.targets[0].slice)
                if cp_ is not None:
                    mats.setdefault((st.targets[0].value.id, _def_line(ctx, fn, st.targets[0].value.id, st)), []).append((cp_, st))
        for (mname, _), entries in mats.items():
            var_blocks = {c for c, s in entries if c in (0, 1) and "eye" in au.U(s.value)}
            caps = set()
            for c, s in entries:
                i, o = re_.atoms(s.value, s)
                if i & {"cap_in"}:
                    caps.add("in")
                if o & {"cap_out"}:
                    caps.add("out")
            if len(var_blocks) == 1 and len(caps) == 1:
                vb, cap = next(iter(var_blocks)), next(iter(caps))
                votes = {"in-first"} if (vb == 0) == (cap == "in") else {"out-first"}
                constructs.append((entries[0][1], "mode rows of %s: variable block %d with cap_%s" % (mname, vb, cap), votes, ()))
                # the right-hand side appended right after the block is stacked: if it names a capacity, it is the block's own
                last = max(s.lineno for _, s in entries)
                fr = local_roles(fn)
                nxt = [s for s in stmts if last < s.lineno <= last + 4 and isinstance(s, ast.Assign) and fr.get(au.U(s.targets[0])) == "b"
                       and isinstance(s.value, ast.Call) and au.method_name(s.value) == "hstack"]
                if nxt:
                    a0 = nxt[0].value.args[0]
                    app = a0.elts[1] if isinstance(a0, (ast.Tuple, ast.List)) and len(a0.elts) == 2 else None
                    if app is not None:
                        i_, o_ = re_.atoms(app, nxt[0])
                        rcap = {"in"} if "cap_in" in i_ else (set() | ({"out"} if "cap_out" in o_ else set()))
                        if rcap:
                            total += 1
                            ctx.ob("C02.c", fn, "mode rows of %s: right-hand side %s" % (mname, au.short(app, 30)), rcap == {cap},
                                   "the rows put cap_%s on the mode binary but their right-hand side uses cap_%s: for asymmetric rates the "
                                   "mode rows no longer switch the other direction off (charge and discharge in one step although "
                                   "no_simult_in_out is set)" % (cap, next(iter(rcap))), node=nxt[0])
        # ---- verdicts: majority orientation of the class
        tally = {"in-first": 0, "out-first": 0}
        for _, _, votes, _ in constructs:
            if len(votes) == 1:
                tally[next(iter(votes))] += 1
        major = "in-first" if tally["in-first"] >= tally["out-first"] else "out-first"
        for node, desc, votes, atoms in constructs:
            total += 1
            ok = votes == {major}
            ctx.ob("C02.c", fn, desc, ok,
                   "this construct is laid out %s while the other %d two-block constructs of %s are %s: one side's parameter ends up on "
                   "the other side's variables (e.g. charging efficiency applied to discharge, costs or nodes swapped)" % (
                       "/".join(sorted(votes)), tally[major], cname, major), node=node, ok_detail=major)
    ctx.require(total >= 12, "fewer than 12 role-carrying two-block constructs found")

    # ================================================================= C02.d cost signs
    n = 0
    sto = p.cls("Storage").methods["setup_optim_problem"]
    re_ = RoleEval(ctx, sto)
    for st in au.walk_stmts(sto.body):
        if isinstance(st, ast.Assign) and isinstance(st.targets[0], ast.Subscript) and au.const_num(st.targets[0].slice.elts[0] if isinstance(st.targets[0].slice, ast.Tuple) else st.targets[0].slice) in (0, 1):
            names = {x.attr for x in au.walk_local(st.value) if isinstance(x, ast.Attribute) and au.base_name(x) == "self"}
            if names & {"cost_in", "cost_out"}:
                n += 1
                side_in = "cost_in" in names
                neg = au.sign_of(st.value) < 0
                ctx.ob("C02.d", sto, au.short(st, 70), neg == side_in,
                       "%s is a cost per volume on the side whose dispatch is %s 0: it must enter c %s so that c*x is an expense" % (
                           "cost_in" if side_in else "cost_out", "<=" if side_in else ">=", "negated" if side_in else "un-negated"), node=st)
    def sign_guard(fn, test):
        """'neg' for all(<max_cap-derived> <= 0), 'pos' for all(<min_cap-derived> >= 0); the operand is recognised by its origin."""
        org = ctx.origins(fn, values_only=True)
        # the test itself must be the all(...) call: inside `not (... or all(cap <= 0) or ...)` it says nothing about the sign in the body
        for c in [test]:
            if isinstance(c, ast.Call) and au.method_name(c) == "all" and c.args and isinstance(c.args[0], ast.Compare) and len(c.args[0].ops) == 1:
                cmp_ = c.args[0]
                attrs = {x.attr for x in org.nodes(cmp_.left, test) if isinstance(x, ast.Attribute) and au.base_name(x) == "self"}
                if au.const_num(cmp_.comparators[0]) == 0:
                    if isinstance(cmp_.ops[0], ast.LtE) and "max_cap" in attrs:
                        return "neg"
                    if isinstance(cmp_.ops[0], ast.GtE) and "min_cap" in attrs:
                        return "pos"
        return None

    sc = p.cls("SimpleContract").methods["setup_optim_problem"]
    org_sc = ctx.origins(sc, values_only=True)
    for st in au.walk_stmts(sc.body):
        if isinstance(st, ast.If) and not isinstance(st.test, ast.BoolOp):
            kind = sign_guard(sc, st.test)
            if kind is None:
                continue
            for s2 in st.body:
                if isinstance(s2, ast.Assign) and isinstance(s2.value, ast.BinOp) and isinstance(s2.value.op, (ast.Add, ast.Sub)) and \
                        any(isinstance(x, ast.Attribute) and au.path(x) == "self.extra_costs" for x in org_sc.nodes(s2.value.right, s2)):
                    n += 1
                    ok = isinstance(s2.value.op, ast.Sub) == (kind == "neg")
                    ctx.ob("C02.d", sc, "%s under %s" % (au.short(s2, 40), au.short(st.test, 30)), ok,
                           "dispatch is always %s here, so the spread must be %s the price" % (
                               "negative" if kind == "neg" else "positive", "subtracted from" if kind == "neg" else "added to"), node=s2)
    tr = p.cls("Transport").methods["setup_optim_problem"]
    for st in au.walk_stmts(tr.body):
        if isinstance(st, ast.If) and not isinstance(st.test, ast.BoolOp) and sign_guard(tr, st.test) == "neg":
            for s2 in st.body:
                if isinstance(s2, ast.Assign) and isinstance(s2.value, ast.UnaryOp):
                    n += 1
                    ctx.ob("C02.d", tr, "%s under %s" % (au.short(s2, 30), au.short(st.test, 30)), isinstance(s2.value.op, ast.USub),
                           "with an always negative flow the per-flow cost must be negated", node=s2)
    # the same sign rule behind a shared helper:  def h(costs, min_cap, max_cap): if all(max_cap <= 0): return -costs; return costs
    sign_helpers = {}
    for hf in p.all_functions():
        if hf.parent is not None or hf.cls is not None:
            continue
        for st in hf.body:
            if isinstance(st, ast.If) and isinstance(st.test, ast.Call) and au.method_name(st.test) == "all" and st.test.args \
                    and isinstance(st.test.args[0], ast.Compare) and isinstance(st.test.args[0].ops[0], ast.LtE) and au.const_num(st.test.args[0].comparators[0]) == 0 \
                    and len(st.body) == 1 and isinstance(st.body[0], ast.Return) and isinstance(st.body[0].value, ast.UnaryOp) \
                    and isinstance(st.body[0].value.op, ast.USub) and isinstance(st.body[0].value.operand, ast.Name) and hf.param(st.body[0].value.operand.id) is not None:
                sign_helpers[hf.name] = (hf, st.body[0].value.operand.id)
    ABS_COSTS = {"SimpleContract": ("extra_costs",), "Transport": ("costs_time_series", "costs_const")}
    for fn_ in (sc, tr):
        org_ = ctx.origins(fn_)      # (with selectors: prices[self.costs_time_series] names the attribute in its subscript)
        for st in au.walk_stmts(fn_.body):
            if not (isinstance(st, ast.Assign) and isinstance(st.value, (ast.BinOp, ast.Call))):
                continue
            calls = [c for c in ast.walk(st.value) if isinstance(c, ast.Call) and isinstance(c.func, ast.Name) and c.func.id in sign_helpers]
            if not calls:
                continue
            n += 1
            unsigned = []
            for t in au.flatten_binop(st.value, (ast.Add,)):
                if any(t is c or any(t is y for y in ast.walk(c)) for c in calls) or any(c is y for c in calls for y in ast.walk(t)) and isinstance(t, ast.Call):
                    continue
                attrs = {x.attr for x in org_.nodes(t, st) if isinstance(x, ast.Attribute) and au.base_name(x) == "self"}
                hit = attrs & set(ABS_COSTS.get(fn_.cls.name, ()))
                if hit:
                    unsigned.append((t, sorted(hit)))
            ctx.ob("C02.d", fn_, "%s: every cost on |dispatch| goes through %s" % (au.short(st, 50), calls[0].func.id), not unsigned,
                   "the term %s (from self.%s) is a cost per volume moved, but it is added outside the helper that gives such costs the sign of the "
                   "flow: with an always negative flow (transport used from node 2 to node 1) it is earned instead of paid (optimum 4351.16 "
                   "instead of 1286.65)" % (au.short(unsigned[0][0], 40) if unsigned else "", ", self.".join(unsigned[0][1]) if unsigned else ""), node=st)
    ctx.require(n >= 3, "fewer than 3 cost-sign sites found")
    # the direction of a one-signed dispatch is decided by the branch predicates, never step by step from the sign of a capacity
    n_sg = 0
    for fn_ in (sc, tr):
        org_ = ctx.origins(fn_, values_only=True)
        hits = []
        for x in au.walk_local(fn_.node, include_self=False):
            if isinstance(x, ast.Call) and au.method_name(x) in ("sign", "signbit", "copysign") and x.args:
                attrs = {y.attr for y in org_.nodes(x.args[-1], p.enclosing_stmt(x)) if isinstance(y, ast.Attribute) and au.base_name(y) == "self"}
                if attrs & {"max_cap", "min_cap"}:
                    hits.append(x)
        n_sg += 1
        ctx.ob("C02.n", fn_, "no direction from the sign of a capacity", not hits,
               "%s takes the direction of the dispatch from %s step by step: where that capacity is exactly 0 the direction is 0 although the "
               "other bound lets the asset dispatch (take-only steps with max_cap = 0, min_cap < 0), so the cost on |dispatch| vanishes there - "
               "the one-signed cases are all(max_cap <= 0) / all(min_cap >= 0) as a whole (split value 1002.38 against the unsplit optimum 617.50)"
               % (fn_.qualname, au.short(hits[0], 40) if hits else ""), node=(hits[0] if hits else fn_.node))

    # ================================================================= C02.e take sign vs letter
    n = 0
    for fn in p.all_functions():
        for st in au.walk_stmts(fn.body):
            for c in au.walk_own(st):
                if not (isinstance(c, ast.Call) and isinstance(c.func, ast.Name) and c.func.id == "define_restr"):
                    continue
                a_take, a_type = au.arg_or_kw(c, 0, "my_take"), au.arg_or_kw(c, 1, "my_type")
                if a_take is None or a_type is None:
                    continue
                letter = au.const_str(a_type)
                org = ctx.origins(fn)
                nodes = org.nodes(a_take, st)
                kinds = {x.attr for x in nodes if isinstance(x, ast.Attribute) and x.attr in ("max_take", "min_take")} | \
                    {x.id for x in nodes if isinstance(x, ast.Name) and x.id in ("max_take", "min_take")}
                if len(kinds) != 1 or letter is None:
                    ctx.ob("C02.e", fn, au.short(c, 70), None, "cannot tell whether this is a minimum or a maximum take (%s)" % sorted(kinds), node=c)
                    continue
                kind = next(iter(kinds))
                # negated? a store  <arg>['values'] = -...  reaching the call
                negated = False
                if isinstance(a_take, ast.Name):
                    for d in ctx.flow(fn).defs(a_take.id, st):
                        for dd in [d] + list(d.prev):
                            if dd.kind == "store" and dd.value is not None and "values" in str(dd.index) and au.sign_of(dd.value) < 0:
                                negated = True
                want = "U" if ((kind == "max_take") != negated) else "L"
                n += 1
                ctx.ob("C02.e", fn, au.short(c, 70), letter == want,
                       "a %s take%s must be a%s row (%s), found %r: the contract could take more than its maximum / less than its minimum"
                       % ("maximum" if kind == "max_take" else "minimum", " with negated values" if negated else "",
                          "n upper" if want == "U" else " lower", want, letter), node=c)
    ctx.require(n >= 4, "fewer than 4 define_restr call sites found")

    # ================================================================= C02.m whole-matrix scalings come in pairs
    n_m2 = 0
    for fnm in sorted(p.all_functions(), key=lambda f: f.qualname):
        if fnm.parent is not None or fnm.cls is None or not p.is_subclass(fnm.cls, "Asset"):
            continue
        scal = {"A": [], "b": []}
        for st in au.walk_stmts(fnm.body):
            if isinstance(st, ast.Assign) and len(st.targets) == 1 and au.terminal(st.targets[0]) in ("A", "b") and isinstance(st.value, ast.BinOp) \
                    and isinstance(st.value.op, (ast.Mult, ast.Div)):
                t = au.U(st.targets[0])
                if au.U(st.value.left) == t:
                    scal[au.terminal(st.targets[0])].append((st, au.U(st.value.right), type(st.value.op).__name__))
                elif au.U(st.value.right) == t and isinstance(st.value.op, ast.Mult):
                    scal[au.terminal(st.targets[0])].append((st, au.U(st.value.left), "Mult"))
            elif isinstance(st, ast.AugAssign) and au.terminal(st.target) in ("A", "b") and isinstance(st.op, (ast.Mult, ast.Div)):
                scal[au.terminal(st.target)].append((st, au.U(st.value), type(st.op).__name__))
        for st, k, op_ in scal["A"]:
            n_m2 += 1
            paired = any(k2 == k and o2 == op_ for _, k2, o2 in scal["b"])
            ctx.ob("C02.m", fnm, au.short(st, 80), paired,
                   "every row of A is multiplied by %s while b keeps its values: the rows built by the parent set-up (the take restrictions of a contract: "
                   "sum of dispatch over the period <= / >= volume) now limit %s x dispatch - with commodity factors [0.8, 2.2] a maximum take of V lets "
                   "V / 0.8 through; the optimum is 3388 where the reference model gives 2759" % (k, k), node=st)
    if n_m2 == 0:
        ctx.ob("C02.m", "package", "whole-matrix scalings", True, ok_detail="no set-up re-scales A as a whole")

    # ================================================================= C02.l both directions only without losses
    trl = p.cls("Transport").methods.get("setup_optim_problem")
    if trl is None:
        ctx.ob("C02.l", "Transport", "one-variable branch", None, "Transport.setup_optim_problem not found")
    else:
        found_l = False
        for st in au.walk_stmts(trl.body):
            if not (isinstance(st, ast.If) and any(isinstance(x, ast.Raise) for x in au.walk_stmts(st.orelse))):
                continue
            disj = au.flatten_boolop(st.test, ast.Or)
            free = []
            for d in disj:
                conj = au.flatten_boolop(d, ast.And)
                calls = [c for c in conj if isinstance(c, ast.Call) and au.method_name(c) == "all" and c.args and isinstance(c.args[0], ast.Compare)]
                directional = [c for c in calls if isinstance(c.args[0].ops[0], (ast.LtE, ast.GtE, ast.Lt, ast.Gt)) and au.const_num(c.args[0].comparators[0]) == 0]
                if directional:
                    continue
                costfree = [c for c in calls if isinstance(c.args[0].ops[0], ast.Eq) and au.const_num(c.args[0].comparators[0]) == 0]
                if costfree:
                    lossless = any(isinstance(c, ast.Compare) and len(c.ops) == 1 and isinstance(c.ops[0], ast.Eq) and any(
                        au.path(y) == "self.efficiency" for y in au.walk_local(c)) and any(au.const_num(y) == 1 for y in [c.left] + c.comparators) for c in conj)
                    free.append((d, lossless))
            if not free:
                continue
            found_l = True
            for d, lossless in free:
                ctx.ob("C02.l", trl, "one variable for both directions under %s" % au.short(d, 60), lossless,
                       "the one-variable formulation is entered for a transport that may flow in both directions whenever there are no costs (%s), whatever "
                       "its efficiency: the factors are (-1, +efficiency) for either sign of the flow, so in the reverse direction node 1 receives |x| while "
                       "node 2 gives up efficiency * |x| - with efficiency 0.5 buying 5 at n2 and selling 10 at n1 at the same price is worth 5 instead of 0"
                       % au.short(d, 40), node=st, ok_detail="only without costs and without losses", key="both directions with one variable only without losses")
        if not found_l:
            ctx.ob("C02.l", trl, "one-variable branch", None, "the branch `if <direction fixed> or <no costs>: ... else: raise` was not found")

    # ================================================================= C02.j efficiency at the receiving node of either direction
    tr = p.cls("Transport").methods.get("setup_optim_problem")
    if tr is None:
        ctx.ob("C02.j", "Transport", "direction of flow", None, "Transport.setup_optim_problem not found")
    else:
        # does the set-up distinguish the reverse direction at all?  (an `if all(cap <= 0)` whose body flips a sign)
        dir_ifs = []
        for st in au.walk_stmts(tr.body):
            if isinstance(st, ast.Assign) and isinstance(st.value, ast.UnaryOp) and isinstance(st.value.op, ast.USub):
                g = _reverse_flow_guard(p, st, tr)
                if g is not None:
                    dir_ifs.append(g)
        if not dir_ifs:
            ctx.ob("C02.j", tr, "direction of flow", None, "the set-up has no case for a transport whose dispatch is always negative")
        else:
            eff_m = [m for m in mirrored if m[0] == "Transport" and any("efficiency" in a for grp in m[3] for a in grp)]
            ctx.ob("C02.j", tr, "efficiency factor of a transport with negative dispatch", bool(eff_m),
                   "the set-up treats a transport whose dispatch is always negative as a flow from node 2 to node 1 (%s: the cost sign is flipped) but "
                   "the dispatch factors are (-1, +efficiency) whatever the direction: for negative dispatch node 1 receives |x| while node 2 gives "
                   "up only efficiency * |x| - a transport with efficiency 0.5 used in reverse doubles the commodity (value 120 instead of 0 for "
                   "buying at n2 and selling at n1 at the same price)" % p.where(dir_ifs[0]), node=dir_ifs[0],
                   ok_detail="mirrored factors under the same direction test", key="efficiency acts at the receiving node of either direction")


def _def_line(ctx, fn, name, at):
    ds = [d for d in ctx.flow(fn).defs(name, at) if d.kind == "assign"]
    return min((d.node.lineno for d in ds), default=0)

