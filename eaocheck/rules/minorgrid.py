"""Analysis 6 - the minor-grid extension of a coarse asset (C01.g = C13.c, C13.e).

A coarse asset has one variable per major interval; the mapping gets one row per minor step with the weight
dt_minor / dt_major as dispatch factor.  Two slips are visible in the shape of the code:

C01.g  the factor of an emitted row must not depend on the factor written in the previous iteration of the same loop
       (weight applied once per row, not compounded: -1/24, -1/24^2, ...)
C13.e  the numerator of the weight is the full-grid dt indexed by the *emitted* minor step (the value written to
       time_step of that row), the denominator the restricted dt of the major interval
"""
from __future__ import annotations
import ast
from .. import astutil as au
from ..tables import rule
from . import analysis
from .spaces import Typer, TIME, TIMER

rule("C01.g", "a dispatch factor written inside a loop does not depend on the factor written in the previous iteration "
              "(the row object is created afresh per iteration, or the factor is computed from the source row)", floor=2,
     props=["C01", "C13", "C02"])     # C02: a transport with an own coarser frequency carries its efficiency in that factor
rule("C13.e", "the minor-grid weight is dt(full grid)[emitted minor step] / dt(restricted grid)[major interval]: numerator "
              "indexed by the same step that is written to time_step of the emitted row", floor=2, props=["C13", "C12"])


def _loops(body):
    return [s for s in au.walk_stmts(body) if isinstance(s, (ast.For, ast.While))]


rule("C13.k", "a full-grid series taken from the price data is brought to the asset's grid by averaging over the fine steps of each coarse "
              "interval when the asset has a coarser frequency (I_minor_in_major), not only by picking restricted.I (the first fine step of "
              "each interval) - prices and limits alike", floor=3)


rule("C02.k", "numbers computed from user data are real: an array that receives averages, products with step lengths or prorated volumes does "
              "not take its dtype from the user's series (dtype=<series>.dtype, astype(<series>.dtype), empty_like / zeros_like of the series) - an "
              "availability profile given as integers would truncate every coarse-step average (4.9 MW -> 4 MW)", floor=0, props=["C02", "C13"])
rule("C13.m", "the mapping is extended to the minor grid (one row per fine step, with its share) wherever the asset has a coarser frequency - "
              "the extension depends on that test alone, not on the class of the object - and before anything selects mapping rows by time step "
              "(define_restr matches the steps of a take period): a take restriction built on the unextended frame sees the first fine step of "
              "each coarse interval only, with weight 1", floor=4)
rule("C13.l", "the average of a fine series over the fine steps of a coarse interval is weighted with the lengths of those steps "
              "(np.average(x[I], weights = dt[I]) with the full grid's dt and the same selector): a constant rate over the interval meets "
              "price / limit k for dt_k hours - the plain mean is that only when all fine steps are equally long (not on a daily grid over "
              "a daylight-saving switch, not on a monthly grid)", floor=3)


@analysis("minorgrid", ["C01.g", "C13.e", "C13.k", "C13.l", "C13.m", "C02.k"])
def run(ctx):
    p = ctx.p
    n_sites = 0
    # ---------------------------------------------------------------- C01.g : package-wide, on every 'disp_factor' store in a loop
    for fn in sorted(p.all_functions(), key=lambda f: f.qualname):
        ff = None
        for loop in _loops(fn.body):
            body_stmts = list(au.walk_stmts(loop.body))
            inner_loops = [s for s in body_stmts if isinstance(s, (ast.For, ast.While))]
            inner_ids = {id(x) for l in inner_loops for x in au.walk_stmts(l.body)}
            for st in body_stmts:
                if id(st) in inner_ids:
                    continue  # handled with its own (inner) loop
                if not isinstance(st, (ast.Assign, ast.AugAssign)):
                    continue
                for t in au.stmt_targets(st):
                    if not (isinstance(t, ast.Subscript) and au.const_str(t.slice) == "disp_factor" and isinstance(t.value, ast.Name)):
                        continue
                    x = t.value.id
                    reads_self = isinstance(st, ast.AugAssign) or any(
                        isinstance(n, ast.Subscript) and au.const_str(n.slice) == "disp_factor" and isinstance(n.value, ast.Name) and n.value.id == x
                        for n in au.walk_local(st.value))
                    n_sites += 1
                    if not reads_self:
                        ctx.ob("C01.g", fn, au.short(st, 80), True, ok_detail="factor computed without reading the row being written", node=st)
                        continue
                    ff = ff or ctx.flow(fn)
                    defs = ff.defs(x, st)
                    loop_ids = {id(s) for s in body_stmts}
                    # the container must be (re)created inside this loop body on every path to the store
                    outside = [d for d in defs if d.kind in ("assign", "for", "param", "unpack") and id(d.node) not in loop_ids and d.node is not loop]
                    fresh_inside = [d for d in defs if d.kind == "assign" and id(d.node) in loop_ids]
                    ok = bool(fresh_inside) and not outside
                    ctx.ob("C01.g", fn, au.short(st, 80), ok,
                           "%s['disp_factor'] is read and re-written in every iteration of `%s` but %s is created outside that loop "
                           "(%s): iteration k multiplies the factor left by iteration k-1, so the weights compound "
                           "(w, w^2, w^3 ...) instead of being w for every row" % (
                               x, au.short(loop, 50).split(":")[0], x,
                               "; ".join("line %s" % d.node.lineno for d in outside[:2]) or "no fresh definition inside"), node=st)
    # ---------------------------------------------------------------- C13.e : the weight formula
    helper = None
    for fn in p.all_functions():
        if fn.cls is not None and fn.param("mapping") is not None and any(
                isinstance(n, ast.Attribute) and n.attr == "I_minor_in_major" for n in au.walk_local(fn.node)):
            helper = fn
    ctx.require(helper is not None, "the minor-grid extension helper (a method with a `mapping` parameter reading I_minor_in_major) vanished")
    ty = Typer(ctx, helper)
    found = False
    for loop in _loops(helper.body):
        step_stores = [st for st in loop.body if isinstance(st, ast.Assign) and any(
            isinstance(t, ast.Subscript) and au.const_str(t.slice) == "time_step" for t in st.targets)]
        if not step_stores:
            continue
        emitted = step_stores[0].value
        emitted_names = au.names_loaded(emitted) - {"int", "np"}
        for st in au.walk_stmts(loop.body):
            if not isinstance(st, ast.Assign):
                continue
            for n in au.walk_own(st):
                if isinstance(n, ast.BinOp) and isinstance(n.op, ast.Div) and isinstance(n.left, ast.Subscript) and isinstance(n.right, ast.Subscript):
                    num, den = n.left, n.right
                    tn, td = ty.typ(num.value, st), ty.typ(den.value, st)
                    if not (tn and td and tn[0] == "arr" and td[0] == "arr"):
                        continue
                    found = True
                    is_dt = au.terminal(num.value) == "dt" and au.terminal(den.value) == "dt"
                    ctx.ob("C13.e", helper, "weight = %s" % au.short(n, 80), is_dt and tn[1] == TIME and td[1] == TIMER,
                           "the weight must be a ratio of step lengths dt(full grid) / dt(restricted grid); found %s over %s / %s over %s"
                           % (au.terminal(num.value), tn[1], au.terminal(den.value), td[1]), node=n)
                    idx_names = au.names_loaded(num.slice)
                    org = ctx.origins(helper, values_only=True)
                    idx_nodes = {x.id for x in org.nodes(num.slice, st) if isinstance(x, ast.Name)}
                    ok = bool(emitted_names & (idx_names | idx_nodes))
                    ctx.ob("C13.e", helper, "numerator index %s vs emitted step %s" % (au.short(num.slice, 40), au.short(emitted, 40)), ok,
                           "the row is emitted for minor step %s but weighted with the length of step %s: on grids whose steps differ in "
                           "length (DST switch, months) the weights of one major interval do not sum to one" % (au.short(emitted, 30), au.short(num.slice, 30)),
                           node=num)
    if not found:
        # the factor written to the emitted rows exists but is no ratio of step lengths any more
        fac = [st for st in au.walk_stmts(helper.body) if isinstance(st, ast.Assign) and isinstance(st.targets[0], ast.Subscript)
               and au.const_str(st.targets[0].slice) == "disp_factor"]
        uses_dt = any(isinstance(x, ast.Attribute) and x.attr == "dt" for st in au.walk_stmts(helper.body) for x in au.walk_own(st))
        if fac and not uses_dt:
            ctx.ob("C13.e", helper, "weight formula", False,
                   "the dispatch factor of the minor-grid rows is no longer dt(minor step) / dt(major interval): with an equal share per "
                   "step the rate of a coarse asset is not constant on grids whose steps differ in length (DST switch, months)", node=fac[0])
        else:
            ctx.ob("C13.e", helper, "weight formula", None, "no ratio of two grid arrays found in the helper (rewritten?)")

    # ================================================================= C13.k series restricted to the asset's grid
    n_k = 0
    for fn in sorted(p.all_functions(), key=lambda f: f.qualname):
        if fn.parent is not None or fn.cls is None or not p.is_subclass(fn.cls, "Asset"):
            continue
        org = None
        for st in au.walk_stmts(fn.body):
            if not isinstance(st, ast.Assign):
                continue
            v = st.value
            if not (isinstance(v, ast.Subscript) and isinstance(v.slice, ast.Name)):
                continue
            sel = ctx.resolve(fn, v.slice, st)
            if not (isinstance(sel, ast.Attribute) and sel.attr == "I" and "restricted" in au.U(sel)):
                continue
            org = org or ctx.origins(fn, values_only=True)
            from_prices = any(isinstance(x, ast.Subscript) and isinstance(x.value, ast.Name) and x.value.id == "prices" for x in org.nodes(v.value, st)) or \
                any(isinstance(x, ast.Name) and x.id == "prices" for x in org.nodes(v.value, st))
            if not from_prices:
                continue
            n_k += 1
            # the coarse alternative: an enclosing / sibling branch that tests for and uses I_minor_in_major
            paired = False
            for a in p.ancestors(st):
                if isinstance(a, ast.If) and "I_minor_in_major" in au.U(a.test):
                    paired = True
                if a is fn.node:
                    break
            ctx.ob("C13.k", fn, au.short(st, 70), paired,
                   "the series is restricted with restricted.I only; for an asset with a coarser frequency restricted.I holds the first fine step "
                   "of each coarse interval, so the value of that one step stands for the whole interval instead of the average over its fine "
                   "steps (a capacity series that is 0 in the first half of each day and 10 in the second gives the daily asset capacity 0)",
                   node=st)
    # ... and interval data (start / end / values) in Asset.make_vector, the one place where limits given as dictionaries reach the grid
    # (Transport has the call too, but its constructor rejects dictionaries: unreachable, not judged)
    mv = p.fn_opt("Asset.make_vector")
    if mv is None:
        ctx.ob("C13.k", "Asset", "make_vector", None, "Asset.make_vector not found")
    else:
        for c in p.calls_in(mv):
            if au.method_name(c) == "values_to_grid" and isinstance(c.func, ast.Attribute) and "restricted" in au.U(c.func.value):
                n_k += 1
                paired = any(isinstance(a, ast.If) and "I_minor_in_major" in au.U(a.test) for a in p.ancestors(c))
                ctx.ob("C13.k", mv, au.short(c, 70), paired,
                       "interval data is put on the restricted grid only; for an asset with a coarser frequency the restricted grid holds the "
                       "first point of each coarse interval, so the value valid at that point stands for the whole interval instead of the "
                       "average over its fine steps - unlike the same limit given as a series (limit 10 in the first half of day 1, then 0: "
                       "daily capacity 240 as dictionary, 120 as series)", node=c)
    ctx.require(n_k >= 3, "fewer than 3 price series restricted to the asset's grid found", rules=["C13.k"])

    # ================================================================= C13.l the average is weighted with the step lengths
    n_l = 0
    for fn in sorted(p.all_functions(), key=lambda f: f.qualname):
        if fn.parent is not None or fn.cls is None or not p.is_subclass(fn.cls, "Asset"):
            continue
        for node in au.walk_local(fn.node, include_self=False):
            # loops / comprehensions over ...I_minor_in_major
            if isinstance(node, ast.For):
                it, tgt, inner = node.iter, node.target, [x for b0 in au.walk_stmts(node.body) for x in au.walk_own(b0)]
            elif isinstance(node, (ast.ListComp, ast.GeneratorExp)) and len(node.generators) == 1:
                it, tgt, inner = node.generators[0].iter, node.generators[0].target, list(au.walk_local(node.elt))
            else:
                continue
            if not (isinstance(it, ast.Attribute) and it.attr == "I_minor_in_major" and isinstance(tgt, ast.Name)):
                continue
            v = tgt.id
            for x in inner:
                if not (isinstance(x, ast.Call) and au.method_name(x) in ("mean", "average", "nanmean", "median")):
                    continue
                operand = x.func.value if (isinstance(x.func, ast.Attribute) and au.base_name(x.func) != "np") else (x.args[0] if x.args else None)
                if not (isinstance(operand, ast.Subscript) and isinstance(operand.slice, ast.Name) and operand.slice.id == v):
                    continue
                n_l += 1
                w = au.kwarg(x, "weights") or (x.args[2] if au.method_name(x) == "average" and len(x.args) > 2 else None)
                ok = au.method_name(x) == "average" and isinstance(w, ast.Subscript) and isinstance(w.slice, ast.Name) and w.slice.id == v \
                    and au.terminal(w.value) == "dt" and "restricted" not in au.U(w.value)
                ctx.ob("C13.l", fn, au.short(x, 70), ok,
                       "the fine values of a coarse interval are averaged %s: at a constant rate over the interval the asset meets the value of "
                       "fine step k for dt_k time units, so the coarse value is sum(x_k dt_k) / sum(dt_k). On a daily CET grid with freq '7d' the "
                       "week of the daylight-saving switch has a 23 h day: the optimum is 238.57 instead of 230.00 (the fine problem with the "
                       "equalities added), a capacity series gives 739.6 instead of 719" % (
                           "without weights" if w is None else "with weights %s that are not the full grid's dt under the same selector" % au.short(w, 40)),
                       node=x, key="average over the fine steps of a coarse interval is weighted with dt: %s" % au.short(operand.value, 30))
    ctx.require(n_l >= 3, "fewer than 3 averages over the fine steps of a coarse interval found", rules=["C13.l"])


    # ================================================================= C13.m extension unconditional (w.r.t. the class) and before row selection
    n_m = 0
    for fn in sorted(p.all_functions(), key=lambda f: f.qualname):
        if fn.parent is not None or fn.cls is None or not p.is_subclass(fn.cls, "Asset") or fn.name != "setup_optim_problem":
            continue
        ext = []
        for lst, guards in au.stmt_lists(fn.body):
            for st in lst:
                if isinstance(st, (ast.Assign, ast.Expr)) and any(isinstance(x, ast.Call) and "extend_mapping_to_minor_grid" in (au.method_name(x) or "") for x in au.walk_own(st)):
                    ext.append((st, guards))
        restr = [st for st in au.walk_stmts(fn.body) if any(isinstance(x, ast.Call) and au.method_name(x) == "define_restr" for x in au.walk_own(st))]
        for st, guards in ext:
            n_m += 1
            foreign = [g for g in guards if g[0] == "if" and "I_minor_in_major" not in au.U(g[1])]
            late = [r for r in restr if r.lineno < st.lineno]
            why = ""
            if foreign:
                why = "the extension is applied only under `%s`: an object of a sub-class (which inherits this set-up through super()) gets a frame " \
                      "with one row per coarse interval" % au.short(foreign[0][1], 60)
            if late:
                why = (why + "; " if why else "") + "the extension comes after the take restrictions were built (%s): define_restr matched the steps of the " \
                    "take period against the unextended frame - only the first fine step of each coarse interval counts, with weight 1, and the " \
                    "volume is prorated by those steps alone (total dispatch 12.5 instead of 300)" % p.where(late[0])
            ctx.ob("C13.m", fn, au.short(st, 70), not why, why, node=st)
        if restr and not ext:
            # the frame comes from the parent's set-up: that one must extend it for sub-classes too (checked at the parent)
            n_m += 1
            ctx.ob("C13.m", fn, "take restrictions on the frame of the parent's set-up", True, ok_detail="extension is the parent's job (checked there)", trivial=True)
    ctx.require(n_m >= 4, "fewer than 4 extensions of a mapping to the minor grid found", rules=["C13.m"])


    # ================================================================= C02.k no dtype inherited from user series
    n_k2 = 0
    for fn in sorted(p.all_functions(), key=lambda f: f.qualname):
        if fn.parent is not None or fn.cls is None or not p.is_subclass(fn.cls, "Asset"):
            continue
        org2 = None
        for st in au.walk_stmts(fn.body):
            for c in au.walk_own(st):
                if not isinstance(c, ast.Call):
                    continue
                dt_args = [k.value for k in c.keywords if k.arg == "dtype"]
                if au.method_name(c) == "astype" and c.args:
                    dt_args.append(c.args[0])
                likes = [c.args[0]] if (au.method_name(c) or "").endswith("_like") and c.args and au.kwarg(c, "dtype") is None else []
                srcs = [a.value for a in dt_args if isinstance(a, ast.Attribute) and a.attr == "dtype"] + likes
                for src in srcs:
                    org2 = org2 or ctx.origins(fn, values_only=True)
                    from_prices = any(isinstance(x, ast.Subscript) and isinstance(x.value, ast.Name) and x.value.id == "prices" for x in org2.nodes(src, st)) or \
                        any(isinstance(x, ast.Name) and x.id == "prices" for x in org2.nodes(src, st))
                    if not from_prices:
                        continue
                    n_k2 += 1
                    ctx.ob("C02.k", fn, au.short(c, 80), False,
                           "the array takes its dtype from %s, a series of the price data: when that series is given as integers (an availability profile in "
                           "whole MW, an on / off profile) every value written into the array is truncated - the weighted average of a coarse step 4.9 -> 4, the "
                           "limit of the step is too small and the optimum falls short of the reference (9693.6 vs 10559.1)" % au.short(src, 30), node=c)
    if n_k2 == 0:
        ctx.ob("C02.k", "package", "dtype of computed arrays", True, ok_detail="no array takes its dtype from a series of the price data")
