"""Analysis 13 - keys and names (C07.a, C07.b, C09.a, C09.b, C09.d).

Names of assets / nodes must be *opaque*: only compared for equality, used as dict keys, cell values and labels.  A string
concatenation that is later joined / compared / used as a label must be injective, and the portfolio's variable
numbering must not be derived from an enumeration of the keys that happen to be present in the mapping.
"""
from __future__ import annotations
import ast
from .. import astutil as au
from ..tables import rule
from . import analysis

rule("C07.a", "a string concatenation used as a join key / variable key is injective (no two variable-length fields "
              "without an unambiguous separator)", floor=4, props=["C07", "C09"])
rule("C07.b", "the portfolio does not number variables by enumerating the keys present in the mapping while an asset class "
              "may return a variable without any mapping row", floor=1, props=["C07", "C08", "C20"])
rule("C09.a", "asset / node names are opaque: never ordered, sliced, measured or matched by substring", floor=1)
rule("C09.e", "an output label built from two names is injective (otherwise one result column silently overwrites another)", floor=3)
rule("C09.b", "internal variable names never contain the separator used to qualify them with the asset name", floor=5)
rule("C09.d", "the uniqueness assertion on asset names executes on every path of Portfolio.__init__, on the coerced names", floor=1)

rule("C09.i", "a name is stored as it was given: the constructors of nodes, assets and portfolios keep `name` (or str(name)) - no "
              "normalisation on the way (numeric parsing, rounding, case folding, stripping): a normalisation is not injective, two distinct "
              "names ('1' and '01', 'a' and 'A ') would become one node / asset", floor=2)

rule("C09.j", "a key that contains another object's name is composed where it is used (at set-up, from the live name): a constructor does not "
              "store a string built from the name of an asset it refers to - the mapping is written from the current names at every set-up, a "
              "snapshot taken at construction goes stale when the objects are renamed (an injective renaming of the same objects)", floor=0)

rule("C09.k", "a name is data, never code: asset / node names are compared as values - they are not interpolated into a string that is then "
              "parsed (DataFrame.query / eval, a regular expression, str.contains with regex): quotes, backslashes and operators in a name would be "
              "interpreted", floor=0)

NAME_COLUMNS = ("asset", "node", "var_name", "internal_asset")
DIGIT_COLUMNS = ("index_assets", "time_step", "index")
SUBSTRING_METHODS = {"contains", "startswith", "endswith", "find", "rfind", "split", "rsplit", "partition",
                     "strip", "lstrip", "rstrip", "lower", "upper", "match", "fullmatch", "removeprefix", "removesuffix"}
ORDER_FUNCS = {"sorted", "min", "max"}


def _is_name_expr(e) -> bool:
    """Syntactically a name: x.name, x.names..., mapping['asset'|'node'|'var_name'], self.node_names[..], str(<name>)."""
    if isinstance(e, ast.Attribute) and e.attr in ("name", "asset_names", "node_names"):
        return True
    if isinstance(e, ast.Subscript):
        if au.const_str(e.slice) in NAME_COLUMNS:
            return True
        if isinstance(e.value, ast.Attribute) and e.value.attr in ("node_names", "asset_names"):
            return True
    if isinstance(e, ast.Call) and au.method_name(e) in ("str",) and e.args and _is_name_expr(e.args[0]):
        return True
    if isinstance(e, ast.Call) and au.method_name(e) == "astype" and isinstance(e.func, ast.Attribute) and _is_name_expr(e.func.value):
        return True
    return False


_depth = [0]
_CTX = {}


def _classify_part(e, org, at, closed_ok):
    """'C' const, 'D' digits, 'X' per-object fixed (self.name), 'K' closed literal alphabet, 'F' free string, '?' unknown."""
    if au.const_str(e) is not None:
        return "C"
    inner = e
    while isinstance(inner, ast.Call) and au.method_name(inner) in ("str", "astype") :
        inner = inner.args[0] if (au.method_name(inner) == "str" and inner.args and isinstance(inner.func, ast.Name)) else \
            (inner.func.value if isinstance(inner.func, ast.Attribute) else inner)
        if inner is e:
            break
    # containers and selections keep the kind of their elements: pd.Series(x), np.asarray(x), x.values, x[mask]
    changed = True
    while changed:
        changed = False
        if isinstance(inner, ast.Call) and au.method_name(inner) in ("Series", "asarray", "array", "Index", "list", "tuple") and inner.args:
            inner, changed = inner.args[0], True
        elif isinstance(inner, ast.Call) and au.method_name(inner) in ("to_numpy", "tolist", "copy", "astype", "reset_index") and isinstance(inner.func, ast.Attribute):
            inner, changed = inner.func.value, True
        elif isinstance(inner, ast.Attribute) and inner.attr in ("values", "array", "str"):
            inner, changed = inner.value, True
        elif isinstance(inner, ast.Subscript) and au.const_str(inner.slice) is None and not isinstance(inner.slice, ast.Constant) \
                and not (isinstance(inner.value, ast.Attribute) and inner.value.attr in ("node_names", "asset_names")):
            inner, changed = inner.value, True
    if isinstance(inner, ast.Subscript) and au.const_str(inner.slice) in DIGIT_COLUMNS:
        return "D"
    if isinstance(inner, ast.Attribute) and inner.attr == "index":
        return "D"
    if au.path(inner) == "self.name":
        return "X"
    if isinstance(inner, ast.Subscript) and au.const_str(inner.slice) == "var_name":
        return "K" if closed_ok else "F"
    if _is_name_expr(inner) or _is_name_expr(e):
        return "F"
    # a local bound to a name / loop element of names
    if isinstance(inner, ast.Name):
        ds = list(org.ff.defs(inner.id, at))
        # parameter of a nested helper that its enclosing function calls exactly once: what the caller passes
        fn0 = org.ff.fn
        if ds and all(d.kind == "param" for d in ds) and getattr(fn0, "parent", None) is not None and _CTX.get("ctx") is not None and _depth[0] < 4:
            from .. import canon as _canon
            calls = [c for c in au.walk_local(fn0.parent.node, include_self=False) if isinstance(c, ast.Call) and isinstance(c.func, ast.Name) and c.func.id == fn0.name]
            names = [q.name for q in fn0.params]
            if len(calls) == 1 and inner.id in names:
                c = calls[0]
                k = names.index(inner.id)
                a = c.args[k] if k < len(c.args) and not any(isinstance(x, ast.Starred) for x in c.args) else au.kwarg(c, inner.id)
                if a is not None:
                    ctx0 = _CTX["ctx"]
                    _depth[0] += 1
                    try:
                        return _classify_part(a, ctx0.origins(fn0.parent, values_only=True), ctx0.p.enclosing_stmt(c), closed_ok)
                    finally:
                        _depth[0] -= 1
        if len(ds) == 1 and ds[0].kind == "assign" and ds[0].value is not None and ds[0].index in (None, ()) and _depth[0] < 4:
            # exactly one plain definition: the part is what that expression is (not everything that flows into it)
            _depth[0] += 1
            try:
                return _classify_part(ds[0].value, org, ds[0].node, closed_ok)
            finally:
                _depth[0] -= 1
        nodes = org.nodes(inner, at)
        name_nodes = [n for n in nodes if _is_name_expr(n)]
        if name_nodes and all(isinstance(n, ast.Subscript) and au.const_str(n.slice) == "var_name" for n in name_nodes):
            return "K" if closed_ok else "F"
        if name_nodes:
            return "F"
        if all(isinstance(n, (ast.Constant, ast.Name)) for n in nodes) and any(au.const_str(n) is not None for n in nodes):
            return "K"
        return "?"
    return "?"


def _injective(kinds, consts):
    """Decide unique decodability of a concatenation pattern.  kinds: list over parts; consts: the literal of each 'C' part."""
    var = [k for k in kinds if k in ("F", "D", "?")]
    if len(var) <= 1 and "?" not in var:
        return True
    if "?" in var:
        return None
    # every pair of neighbouring variable parts needs a separating constant that cannot be confused
    idx = [i for i, k in enumerate(kinds) if k in ("F", "D", "K", "X")]
    free = [i for i in idx if kinds[i] == "F"]
    if len(free) >= 2:
        return False  # two arbitrary strings: no separator is safe ('a__b'+'__'+'c' == 'a'+'__'+'b__c')
    for a, b in zip(idx, idx[1:]):
        between = [consts[j] for j in range(a + 1, b) if kinds[j] == "C"]
        pair = (kinds[a], kinds[b])
        if pair[0] in ("K", "X") or pair[1] in ("K", "X"):
            if not between and "F" in pair:
                return False
            continue
        if not between:
            return False
        sep = "".join(between)
        if pair == ("D", "F") and sep[:1].isdigit():
            return False
        if pair == ("F", "D") and sep[-1:].isdigit():
            return False
        if pair == ("D", "D") and (sep[:1].isdigit() or sep[-1:].isdigit()):
            return False
    return True


GROUPING = ("factorize", "unique", "nunique", "groupby", "duplicated", "drop_duplicates", "value_counts", "get_indexer", "searchsorted", "merge",
            "isin", "in1d", "intersect1d", "set", "dict", "Categorical")


def _sink(p, fn, node):
    """How is the concatenation used? 'message' | 'join key' | 'column label' | 'compared' | 'cell value' | 'other'."""
    st = p.enclosing_stmt(node)
    for anc in p.ancestors(node):
        if isinstance(anc, (ast.Assert, ast.Raise)):
            return "message", None
        if isinstance(anc, ast.Call) and au.method_name(anc) in ("print", "ValueError", "NotImplementedError", "TypeError", "Exception", "warn"):
            return "message", None
        if isinstance(anc, ast.Compare):
            return "compared (probe)", None
        if isinstance(anc, ast.Call) and au.method_name(anc) == "rename":
            return "column label", None
        if isinstance(anc, ast.Call) and au.method_name(anc) in GROUPING:
            return "join key", au.method_name(anc)
        if anc is st:
            break
    if isinstance(st, ast.Assign) and len(st.targets) == 1:
        t = st.targets[0]
        # column of a frame
        col = None
        if isinstance(t, ast.Subscript) and au.const_str(t.slice) is not None:
            col = au.const_str(t.slice)
        elif isinstance(t, ast.Subscript) and isinstance(t.slice, ast.Tuple) and t.slice.elts and au.const_str(t.slice.elts[-1]) is not None:
            col = au.const_str(t.slice.elts[-1])
        if col is not None:
            for n in au.walk_local(fn.node, include_self=False):
                if isinstance(n, ast.Call):
                    m = au.method_name(n)
                    if m in ("unique", "nunique", "duplicated", "drop_duplicates") and isinstance(n.func, ast.Attribute) \
                            and isinstance(n.func.value, ast.Subscript) and au.const_str(n.func.value.slice) == col:
                        return "join key", col
                    if m in ("merge", "join", "set_index", "groupby", "sort_values"):
                        for k in n.keywords:
                            if k.arg in ("on", "left_on", "right_on", "by", "keys") and col in {au.const_str(x) for x in au.walk_local(k.value)}:
                                return "join key", col
                        if m in ("set_index", "groupby") and any(au.const_str(a) == col for a in n.args):
                            return "join key", col
            return "cell value", col
        if isinstance(t, ast.Name):
            v = t.id
            # the local is grouped / numbered / de-duplicated: equal strings become one group
            for n in au.walk_local(fn.node, include_self=False):
                if isinstance(n, ast.Call) and au.method_name(n) in GROUPING:
                    operands = list(n.args) + [k.value for k in n.keywords] + ([n.func.value] if isinstance(n.func, ast.Attribute) else [])
                    if any(isinstance(x, ast.Name) and x.id == v for o in operands for x in au.walk_local(o)):
                        return "join key", v
            for n in au.walk_local(fn.node, include_self=False):
                if isinstance(n, ast.Subscript) and isinstance(n.ctx, ast.Store):
                    sl = n.slice
                    elts = sl.elts if isinstance(sl, ast.Tuple) else [sl]
                    if any(isinstance(x, ast.Name) and x.id == v for x in elts):
                        return "column label", v
            return "other", v
    return "other", None


@analysis("keys", ["C07.a", "C07.b", "C09.a", "C09.b", "C09.d", "C09.e", "C09.i", "C09.j", "C09.k"])
def run(ctx):
    p = ctx.p
    # ------------------------------------------------------------------ C09.i names are stored as given
    n_i = 0
    for ci in sorted(p.classes.values(), key=lambda c: c.name):
        init = ci.methods.get("__init__")
        if init is None or init.param("name") is None:
            continue
        ffi = ctx.flow(init)
        for st in au.walk_stmts(init.body):
            if not (isinstance(st, ast.Assign) and any(au.path(t) == "self.name" for t in st.targets)):
                continue
            n_i += 1
            v = st.value
            while isinstance(v, ast.Call) and isinstance(v.func, ast.Name) and v.func.id == "str" and len(v.args) == 1:
                v = v.args[0]
            why = ""
            if not (isinstance(v, ast.Name) and v.id == "name"):
                why = "self.name is set to %s" % au.short(st.value, 50)
            else:
                redef = [d for d in ffi.defs("name", st) if d.kind != "param"]
                bad = [d for d in redef if not (d.kind == "assign" and isinstance(d.value, ast.Call) and isinstance(d.value.func, ast.Name) and d.value.func.id == "str"
                                              and len(d.value.args) == 1 and isinstance(d.value.args[0], ast.Name) and d.value.args[0].id == "name")]
                if bad:
                    why = "the parameter is re-assigned before it is stored (%s: %s)" % (p.where(bad[0].node), au.short(bad[0].node, 60))
            ctx.ob("C09.i", init, "self.name of %s" % ci.name, not why,
                   "%s: the stored name is a function of the given one that is not injective - two objects with distinct names can end up with the "
                   "same name. Names are keys (nodes are collected by name, rows are selected by name): nodes '1' and '01' become one node, two "
                   "separate markets are merged silently (optimum -783 instead of -1309 after renaming the nodes)" % why, node=st,
                   ok_detail="name or str(name)")
    ctx.require(n_i >= 2, "fewer than 2 constructors that store a name found", rules=["C09.i"])
    # ------------------------------------------------------------------ C09.k names inside parsed strings
    PARSERS = ("query", "eval", "compile", "match", "fullmatch", "search", "sub", "findall", "contains")
    n_k = 0
    for fnk in sorted(p.all_functions(), key=lambda f: f.qualname):
        for st in au.walk_stmts(fnk.body):
            for c in au.walk_own(st):
                if not (isinstance(c, ast.Call) and au.method_name(c) in PARSERS and c.args):
                    continue
                a0 = ctx.resolve(fnk, c.args[0], st)
                pieces = []
                if isinstance(a0, ast.JoinedStr):
                    pieces = [v.value for v in a0.values if isinstance(v, ast.FormattedValue)]
                elif isinstance(a0, ast.BinOp) and isinstance(a0.op, (ast.Add, ast.Mod)):
                    pieces = [x for x in au.walk_local(a0) if not isinstance(x, ast.Constant)]
                elif isinstance(a0, ast.Call) and au.method_name(a0) == "format":
                    pieces = list(a0.args) + [k.value for k in a0.keywords]
                named = [x for x in pieces if any(_is_name_expr(y) for y in au.walk_local(x))]
                if named:
                    n_k += 1
                    ctx.ob("C09.k", fnk, au.short(c, 80), False,
                           "the name %s is pasted into a string that %s() parses as an expression: a name containing a quote ends the literal (TokenError), "
                           "a backslash followed by a letter is read as an escape sequence - the selection silently matches nothing and the dispatch of "
                           "that asset is reported as zero, while value and cash flows are unchanged" % (au.short(named[0], 30), au.method_name(c)), node=c)
    if n_k == 0:
        ctx.ob("C09.k", "package", "names in parsed strings", True, ok_detail="no name is interpolated into a query / eval / regular expression")
    # ------------------------------------------------------------------ C09.j no snapshots of other objects' names
    n_j = 0
    for ci in sorted(p.classes.values(), key=lambda c: c.name):
        init = ci.methods.get("__init__")
        if init is None:
            continue
        for st in au.walk_stmts(init.body):
            if not (isinstance(st, ast.Assign) and any(isinstance(t0, ast.Attribute) and au.base_name(t0) == "self" for t0 in st.targets)):
                continue
            if not (isinstance(st.value, ast.BinOp) and isinstance(st.value.op, ast.Add)):
                continue
            parts = au.flatten_binop(st.value, ast.Add)
            if not any(au.const_str(x) is not None for x in parts):
                continue
            foreign = [x for x in parts if isinstance(x, ast.Attribute) and x.attr == "name" and au.path(x.value) not in (None, "self")]
            if foreign:
                n_j += 1
                ctx.ob("C09.j", init, au.short(st, 80), False,
                       "the constructor stores a string that contains the name of another object (%s) and the set-up later compares it with names "
                       "written from the *current* objects: after the wrapped assets have been renamed (new distinct names, or the two names "
                       "exchanged) the stored key matches nothing (IndexError) or the wrong variable (value -1200 instead of -1800)"
                       % au.short(foreign[0], 40), node=st)
    if n_j == 0:
        ctx.ob("C09.j", "package", "constructors keep no key built from another object's name", True)
    _CTX["ctx"] = ctx
    # ------------------------------------------------------------------ C09.b alphabet of internal variable names
    var_names = {}
    for fn in p.all_functions():
        for st in au.walk_stmts(fn.body):
            if isinstance(st, ast.Assign):
                for t in st.targets:
                    if isinstance(t, ast.Subscript) and au.const_str(t.slice) == "var_name" and au.const_str(st.value) is not None:
                        var_names.setdefault(au.const_str(st.value), (fn, st))
                    # mapping.iloc[a:b, ind_var_name] = 'disp_in'
                    if isinstance(t, ast.Subscript) and isinstance(t.slice, ast.Tuple) and len(t.slice.elts) == 2 \
                            and isinstance(t.slice.elts[1], ast.Name) and "var_name" in t.slice.elts[1].id and au.const_str(st.value) is not None:
                        var_names.setdefault(au.const_str(st.value), (fn, st))
            for n in au.walk_own(st):
                if isinstance(n, ast.Dict):
                    for k, v in zip(n.keys, n.values):
                        if au.const_str(k) == "var_name" and au.const_str(v) is not None:
                            var_names.setdefault(au.const_str(v), (fn, st))
    # separators used to qualify a var_name with a name
    seps = set()
    concat_sites = []
    for fn in p.all_functions():
        for st in au.walk_stmts(fn.body):
            for n in au.walk_own(st):
                if isinstance(n, ast.BinOp) and isinstance(n.op, ast.Add):
                    par = p.parent(n)
                    if isinstance(par, ast.BinOp) and isinstance(par.op, ast.Add) and par.left is n:
                        continue  # inner part of a longer chain
                    parts = au.flatten_binop(n, ast.Add)
                    if len(parts) < 2:
                        continue
                    concat_sites.append((fn, st, n, parts))
                    for i, e in enumerate(parts):
                        if isinstance(e, ast.Subscript) and au.const_str(e.slice) == "var_name" and i + 1 < len(parts) and au.const_str(parts[i + 1]):
                            seps.add(au.const_str(parts[i + 1]))
    closed_ok = True
    for name, (fn, st) in sorted(var_names.items()):
        bad = [s for s in seps if s and s in name]
        if bad:
            closed_ok = False
        ctx.ob("C09.b", fn, "internal variable name %r" % name, not bad,
               "contains the separator %r that qualifies variable names with the asset name: '%s' + sep + asset is no longer "
               "decodable" % (bad[0] if bad else "", name), node=st)

    # ------------------------------------------------------------------ C07.a / C09.a concatenations with a name part
    for fn, st, n, parts in concat_sites:
        from ..carriers import local_roles, role as _role
        if any(_role(e, local_roles(fn)) == "cType" for e in parts):
            continue  # row-letter strings, not names
        org = ctx.origins(fn, values_only=True)
        kinds = [_classify_part(e, org, st, closed_ok) for e in parts]
        # only string concatenations: a string literal, an explicit str conversion or a name must take part
        stringy = any(k in ("C", "F", "X", "K") for k in kinds) or any(
            isinstance(e, ast.Call) and au.method_name(e) in ("str", "astype") for e in parts)
        if not stringy or not any(k in ("F", "D", "K", "X") for k in kinds):
            continue
        sink, what = _sink(p, fn, n)
        if sink == "message":
            continue
        rid = "C09.e" if sink == "column label" else "C07.a"
        if sum(1 for k in kinds if k in ("F", "D", "?", "K", "X")) < 2:
            # a single variable part with constant decoration is always decodable
            ctx.ob(rid, fn, au.short(n, 100), True, ok_detail="single variable part (%s), used as %s" % ("".join(kinds), sink), node=n, trivial=True)
            continue
        consts = [au.const_str(e) for e in parts]
        inj = _injective(kinds, consts)
        pattern = "+".join(kinds)
        if sink in ("compared (probe)", "other"):
            if inj is False:
                ctx.note(rid, fn, au.short(n, 100), "pattern %s used as %s: decodability matters where the compared column is built" % (pattern, sink), node=n)
            else:
                ctx.ob(rid, fn, au.short(n, 100), True, ok_detail="pattern %s, %s" % (pattern, sink), node=n, trivial=True)
            continue
        stable = None
        if rid == "C09.e":
            # output labels: key by the *kinds* of the parts, not by local variable names
            stable = "output label " + "+".join((au.const_str(e) if k == "C" else k) for e, k in zip(parts, kinds))
        ctx.ob(rid, fn, au.short(n, 100), inj, key=(stable or ""), detail=
               "concatenation pattern %s (C constant, D digits of an integer column, F free string, K closed literal set, "
               "X per-object constant) is used as %s%s but is not injective: two different (field, field) pairs give the same "
               "string, e.g. ('1','11') and ('11','1')" % (pattern, sink, (" %r" % what) if what else ""), node=n)

    # ------------------------------------------------------------------ C09.a opacity of names
    # column labels of the mapping that are built from a name ('index_internal_assets_' + self.name)
    name_embedding_columns = set()
    for fn in p.all_functions():
        for n in au.walk_local(fn.node, include_self=False):
            if isinstance(n, ast.BinOp) and isinstance(n.op, ast.Add) and au.const_str(n.left) is not None and isinstance(n.right, ast.Attribute) \
                    and n.right.attr == "name":
                par = p.parent(n)
                if isinstance(par, ast.Dict) or (isinstance(par, ast.Subscript) and "mapping" in au.U(par.value)):
                    name_embedding_columns.add(au.const_str(n.left) + "<name>")
    n_checked = 0
    for fn in p.all_functions():
        for st in au.walk_stmts(fn.body):
            if isinstance(st, (ast.Assert, ast.Raise)):
                continue
            for n in au.walk_own(st):
                bad = None
                if isinstance(n, ast.Call):
                    m = au.method_name(n)
                    f = n.func
                    if isinstance(f, ast.Attribute) and m in SUBSTRING_METHODS:
                        recv = f.value
                        if isinstance(recv, ast.Attribute) and recv.attr == "str":
                            recv = recv.value
                        if _is_name_expr(recv):
                            bad = "substring / case operation .%s() on a name" % m
                    if isinstance(f, ast.Name) and f.id in ORDER_FUNCS and n.args and any(_is_name_expr(a) for a in n.args):
                        bad = "%s() over names: result depends on how assets / nodes are called" % f.id
                    if isinstance(f, ast.Name) and f.id == "len" and n.args and isinstance(n.args[0], ast.Attribute) and n.args[0].attr == "name":
                        bad = "len() of a name"
                    if m in ("sort_values", "sort", "argsort") and any(au.const_str(x) in ("asset", "node") for a in list(n.args) + [k.value for k in n.keywords] for x in au.walk_local(a)):
                        bad = "ordering by the asset / node name column"
                elif isinstance(n, ast.Compare):
                    ops = n.ops
                    sides = [n.left] + list(n.comparators)
                    if any(isinstance(o, (ast.Lt, ast.Gt, ast.LtE, ast.GtE)) for o in ops) and any(_is_name_expr(s) for s in sides):
                        bad = "ordering comparison on a name"
                    if any(isinstance(o, (ast.In, ast.NotIn)) for o in ops) and _is_name_expr(n.left) and \
                            any(isinstance(c, ast.Attribute) and c.attr == "name" for c in n.comparators):
                        bad = "substring test between two names"
                    # <element of a name column> in <parameter that callers bind to one name>: a substring test
                    if bad is None and len(ops) == 1 and isinstance(ops[0], (ast.In, ast.NotIn)) and isinstance(n.left, ast.Name) \
                            and isinstance(n.comparators[0], ast.Name) and fn.param(n.comparators[0].id) is not None:
                        comp = next((a for a in p.ancestors(n) if isinstance(a, (ast.ListComp, ast.GeneratorExp, ast.SetComp, ast.For))), None)
                        it = None
                        if isinstance(comp, ast.For) and n.left.id in au.target_names(comp.target):
                            it = comp.iter
                        elif comp is not None and not isinstance(comp, ast.For):
                            it = next((g.iter for g in comp.generators if n.left.id in au.target_names(g.target)), None)
                        over_names = it is not None and any(isinstance(x, ast.Subscript) and au.const_str(x.slice) in ("node", "asset") for x in au.walk_local(it))
                        if over_names:
                            pname = n.comparators[0].id
                            single = False
                            for f2 in p.all_functions():
                                for c2 in p.calls_in(f2):
                                    if au.method_name(c2) == fn.name or (isinstance(c2.func, ast.Name) and c2.func.id == fn.name):
                                        a2 = au.kwarg(c2, pname)
                                        if a2 is not None and ((isinstance(a2, ast.Subscript) and au.const_num(a2.slice) is not None and "name" in au.U(a2.value))
                                                               or (isinstance(a2, ast.Attribute) and a2.attr == "name")):
                                            single = True
                            if single:
                                bad = "`%s in %s`: callers pass one name for %s, so this is a substring test between two names" % (n.left.id, pname, pname)
                    # 'literal' in <label>, where the label runs over the columns of a frame: mapping columns embed asset names
                    # (index_internal_assets_<name>), so a substring match depends on how assets are called; a prefix is safe
                    if bad is None and len(ops) == 1 and isinstance(ops[0], (ast.In, ast.NotIn)) and au.const_str(n.left) is not None \
                            and isinstance(n.comparators[0], ast.Name) and name_embedding_columns:
                        lab = n.comparators[0]
                        comp = next((a for a in p.ancestors(n) if isinstance(a, (ast.ListComp, ast.GeneratorExp, ast.SetComp, ast.For))), None)
                        it = None
                        if isinstance(comp, ast.For) and lab.id in au.target_names(comp.target):
                            it = comp.iter
                        elif comp is not None and not isinstance(comp, ast.For):
                            it = next((g.iter for g in comp.generators if lab.id in au.target_names(g.target)), None)
                        if it is not None and isinstance(it, ast.Attribute) and it.attr == "columns" and "mapping" in au.U(it):
                            bad = "substring test %r in a column label of the mapping (labels embed asset names: %s)" % (
                                au.const_str(n.left), ", ".join(sorted(name_embedding_columns)[:2]))
                elif isinstance(n, ast.Subscript) and isinstance(n.value, ast.Attribute) and n.value.attr == "name" and isinstance(n.ctx, ast.Load):
                    bad = "indexing / slicing a name"
                if bad:
                    ctx.ob("C09.a", fn, au.short(n, 100), False, bad + ": results may change under an injective renaming", node=n)
                    n_checked += 1
    ctx.ob("C09.a", "package", "names are only compared for equality, used as keys, cell values and labels", True,
           ok_detail="no ordering / substring / slicing operation on a name found in %d functions" % len(p.functions))

    # ------------------------------------------------------------------ C07.b numbering by presence
    pf = p.cls("Portfolio").methods.get("setup_optim_problem")
    ctx.require(pf is not None, "Portfolio.setup_optim_problem vanished")
    org = ctx.origins(pf)
    by_presence = None
    for st in au.walk_stmts(pf.body):
        for n in au.walk_own(st):
            if isinstance(n, ast.Call) and au.method_name(n) == "set_index":
                # what is the new index made of?
                col = au.const_str(n.args[0]) if n.args else None
                if col is None:
                    continue
                # find where column `col` of that frame comes from: a merge with a frame built from .unique()
                recv = n.func.value if isinstance(n.func, ast.Attribute) else None
                nodes = org.nodes(recv, st) if recv is not None else []
                merges = [x for x in nodes if isinstance(x, ast.Call) and au.method_name(x) in ("merge", "join")]
                uniq = [x for x in nodes if isinstance(x, ast.Call) and au.method_name(x) in ("unique", "drop_duplicates", "factorize", "ngroup")]
                if merges and uniq:
                    by_presence = (n, uniq[0])
    masked_rows = []
    for ci in p.asset_classes():
        fn = ci.methods.get("setup_optim_problem")
        if fn is None:
            continue
        o2 = ctx.origins(fn)
        for st in au.walk_stmts(fn.body):
            if isinstance(st, ast.Assign):
                for t in st.targets:
                    if isinstance(t, ast.Subscript) and au.const_str(t.slice) == "time_step" and isinstance(st.value, ast.Subscript):
                        idx = st.value.slice
                        nodes = o2.nodes(idx, st)
                        if any(isinstance(x, ast.Compare) for x in nodes) and not any(
                                isinstance(x, ast.Subscript) and au.const_str(x.slice) in ("time_step", "type", "node") for x in nodes):
                            masked_rows.append((ci, fn, st))
    if by_presence and masked_rows:
        ci, fn, st = masked_rows[0]
        ctx.ob("C07.b", pf, "global variable index from %s" % au.short(by_presence[1], 60), False,
               "the portfolio numbers variables by enumerating the (index, asset) keys *present* in the concatenated mapping, but "
               "%s emits the rows of a variable under a data-dependent mask (%s): a variable without any in-horizon row gets no "
               "number and every later variable is shifted against l / u / c" % (ci.name, au.short(st, 60)), node=by_presence[0])
    else:
        ctx.ob("C07.b", pf, "global variable index", True,
               ok_detail=("numbering is positional" if not by_presence else "no asset class emits rows under a data-dependent mask"))

    # ------------------------------------------------------------------ C09.d uniqueness guard
    init = p.cls("Portfolio").methods.get("__init__")
    ctx.require(init is not None, "Portfolio.__init__ vanished")
    found = None
    for st in init.body:   # top level = executes on every path
        if isinstance(st, ast.Assert):
            t = st.test
            calls = [x for x in au.walk_local(t) if isinstance(x, ast.Call) and au.method_name(x) == "set"]
            lens = [x for x in au.walk_local(t) if isinstance(x, ast.Call) and au.method_name(x) == "len"]
            if calls and len(lens) >= 2:
                found = st
        if isinstance(st, ast.If) and any(isinstance(x, ast.Raise) for x in au.walk_stmts(st.body)):
            if any(isinstance(x, ast.Call) and au.method_name(x) == "set" for x in au.walk_local(st.test)):
                found = st
    coerced = False
    a_init = p.cls("Asset").methods.get("__init__")
    if a_init is not None:
        for st in au.walk_stmts(a_init.body):
            if isinstance(st, ast.Assign) and any(isinstance(t, ast.Name) and t.id == "name" for t in st.targets) \
                    and isinstance(st.value, ast.Call) and au.method_name(st.value) == "str":
                coerced = True
    ctx.ob("C09.d", init, "asset names are unique", found is not None,
           "Portfolio.__init__ has no top-level uniqueness check (len(names) == len(set(names))) any more: two assets with the same "
           "name share variables", node=(found or init.node),
           ok_detail="asserted at top level%s" % ("; names are coerced to str in Asset.__init__" if coerced else ""))
