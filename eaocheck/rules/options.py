"""Analyses 23/24 - options and derived grids (C13.a, C12.b, C12.d = C14.a).

C13.a  an accepted option is applied, last: for every class whose constructor accepts `periodicity`, a periodic merge
       applies to that class somewhere along its set-up chain, and no per-variable carrier is widened after it
       (the merge joins variables by (asset, node, type, var_name, position in period): variables appended later are
       never merged and the carriers no longer match).  Likewise `freq`: accepted => the mapping is extended to the
       minor grid, or the option is rejected explicitly.
C12.d  every grid derived from a reference grid inherits its main time unit (forwarded at the constructor call, or taken
       from the reference inside Timegrid.__init__).
C12.b  main_time_unit is read only at the typed sites of the frozen table.
"""
from __future__ import annotations
import ast
from .. import astutil as au
from ..tables import rule, VAR_CARRIERS
from . import analysis
from ..carriers import local_roles, role

rule("C13.a", "an accepted periodicity / freq option is applied (periodic merge after the last widening of the per-variable "
              "carriers; mapping extended to the minor grid) or rejected explicitly, for every class that accepts it", floor=14)
rule("C12.d", "a Timegrid built from a reference grid inherits the reference's main time unit", floor=3, props=["C12", "C14"])
rule("C12.b", "main_time_unit is read only at the typed sites (a new reader must be given a degree)", floor=5)

SETUP = "setup_optim_problem"
# functions that may read main_time_unit, with the role of the read
UNIT_READERS = {
    "Timegrid.__init__": "dt = step length / unit",
    "Timegrid.set_wacc": "discount exponent: unit -> days",
    "Timegrid.set_restricted_grid": "forwarding to the sub-grid",
    "assets.define_restr": "take period length in main time units",
    "Asset.convert_to_timegrid_freq": "durations: unit -> grid steps",
    "CHPAsset.setup_optim_problem": "ramp frequency default and rate -> per-step conversion",
    "Portfolio.setup_split_optim_problem": "forwarding to the interval grids",
    "serialization.json_serialize_objects": "persisting the unit",
}


def _accepts(p, ci, name, _d=0):
    from .serialization import accepted_params
    acc, anyk = accepted_params(p, ci)
    return name in acc


def _widenings(p, fn, after_line=None, receiver=None, _depth=0, _seen=None):
    """VAR-carrier widenings in fn (after a line), following self._helper() calls one level."""
    _seen = _seen if _seen is not None else set()
    out = []
    if fn in _seen or _depth > 2:
        return out
    _seen.add(fn)
    roles = local_roles(fn)
    for st in au.walk_stmts(fn.body):
        if after_line is not None and st.lineno <= after_line:
            continue
        if isinstance(st, ast.Assign) and isinstance(st.value, ast.Call) and au.method_name(st.value) in ("hstack", "concatenate", "append"):
            tgt = [t for t in st.targets if role(t, roles) in VAR_CARRIERS]
            a0 = st.value.args[0] if st.value.args else None
            first = a0.elts[0] if isinstance(a0, (ast.Tuple, ast.List)) and a0.elts else a0
            if tgt and first is not None and role(first, roles) in VAR_CARRIERS and role(first, roles) == role(tgt[0], roles):
                out.append(st)
        for n in au.walk_own(st):
            if isinstance(n, ast.Call) and isinstance(n.func, ast.Attribute) and isinstance(n.func.value, ast.Name) and n.func.value.id == "self":
                for t in p.resolve_call(n, fn, receiver):
                    if t.name != SETUP:
                        out.extend(_widenings(p, t, None, receiver, _depth + 1, _seen))
    return out


def _merge_sites(fn):
    """[(call, exact_class_guard | None)] periodic merges in fn."""
    out = []
    pm = au.parents_map(fn.node)
    for n in au.walk_local(fn.node, include_self=False):
        if not isinstance(n, ast.Call):
            continue
        is_merge = au.method_name(n) == "__make_periodic__"
        if au.method_name(n) == "OptimProblem":
            v = au.kwarg(n, "periodic_period_length")
            is_merge = v is not None and not au.is_none(v)
        if not is_merge:
            continue
        guard = None
        x = n
        while x in pm:
            par = pm[x]
            if isinstance(par, ast.If):
                in_body = any(x is b or any(x is y for y in ast.walk(b)) for b in par.body)
                for c in au.walk_local(par.test):
                    if isinstance(c, ast.Compare) and len(c.ops) == 1 and isinstance(c.ops[0], ast.Eq) and au.const_str(c.comparators[0]) \
                            and "__name__" in au.U(c.left) and in_body:
                        guard = au.const_str(c.comparators[0])
            x = par
        out.append((n, guard))
    return out


rule("C15.o", "the variables of an asset are determined by its parameters, not by the values of the price data: a set-up does not choose between "
              "formulations (one or two variables per step, with or without on / start variables) by testing all(...) / any(...) on a vector that "
              "may come from the price data (a parameter given as the name of a series) - a window fixed to a previous solution is carried over "
              "by variable number, and 'all new price sets' includes one in which that series is zero", floor=3, props=["C15", "C10"])


@analysis("options", ["C13.a", "C12.d", "C12.b", "C15.o"])
def run(ctx):
    p = ctx.p
    # ================================================================= C13.a periodicity
    classes = sorted(p.asset_classes(), key=lambda c: c.name)
    n_acc = 0
    for ci in classes:
        if not _accepts(p, ci, "periodicity"):
            continue
        n_acc += 1
        chain = [c for c in p.mro(ci) if SETUP in c.methods]      # most derived first
        applicable = []
        for c in chain:
            for call, guard in _merge_sites(c.methods[SETUP]):
                if guard is None or guard == ci.name:
                    applicable.append((c, call))
        if not applicable:
            ctx.ob("C13.a", ci.name, "periodicity is applied", False,
                   "%s accepts `periodicity` but no periodic merge applies to it anywhere along its set-up chain (%s): the option "
                   "is silently ignored" % (ci.name, " -> ".join(c.name for c in chain)), node=ci.node)
            continue
        merge_cls = applicable[0][0]
        # widenings after the merge: in more derived set-ups (after their super() call), reported where they are defined
        later = chain[: chain.index(merge_cls)]
        offenders = []
        for c in later:
            fn = c.methods[SETUP]
            sup = [n for n in au.walk_local(fn.node) if isinstance(n, ast.Call) and au.call_name(n) == "super()." + SETUP]
            after = min((s.lineno for s in sup), default=None)
            if after is None:
                continue
            ws = _widenings(p, fn, after, ci)
            if ws:
                offenders.append((c, fn, ws))
        own_def = ci.methods.get(SETUP)
        # ... and in the merging set-up itself, after its merge call
        mfn = merge_cls.methods[SETUP]
        mline = min(c.lineno for cc, c in applicable if cc is merge_cls)
        same = [w for w in _widenings(p, mfn, mline, ci) if not any(w is x for _, _, ws in offenders for x in ws)]
        if same and merge_cls is ci:
            offenders.append((ci, mfn, same))
        if not offenders:
            ctx.ob("C13.a", ci.name, "periodic merge is the last change of the variable space", True,
                   ok_detail="merge in %s.%s" % (merge_cls.name, SETUP), node=ci.node)
        for c, fn, ws in offenders:
            if c is not ci and own_def is not None and any(c2 is ci for c2, _, _ in offenders):
                # inherited offender is reported for its defining class; the derived class reports its own
                if c is not ci:
                    continue
            if c is not ci and own_def is None:
                continue  # purely inherited: one finding at the defining class
            ctx.ob("C13.a", fn, "variables appended after the periodic merge", False,
                   "%s accepts `periodicity`; the merge happens inside %s.%s (reached through super()), after which this set-up appends "
                   "variables (%s ...): the appended variables are never merged and the merged carriers no longer line up "
                   "(ValueError 48 vs 24 for CHP; Plant: 24 variables with indices up to 47)" % (
                       ci.name, merge_cls.name, SETUP, "; ".join("line %s" % w.lineno for w in ws[:3])), node=ws[0])
    ctx.require(n_acc >= 8, "fewer than 8 asset classes accept `periodicity`")
    # ================================================================= C13.a freq
    for ci in classes:
        init = ci.methods.get("__init__")
        if init is None or init.param("freq") is None:
            continue
        chain = [c for c in p.mro(ci) if SETUP in c.methods]
        handled = None
        for c in chain:
            fn = c.methods[SETUP]
            if all(isinstance(s, (ast.Pass, ast.Expr)) for s in fn.body):
                continue
            for n in au.walk_local(fn.node):
                if isinstance(n, ast.Call) and "minor_grid" in (au.method_name(n) or ""):
                    handled = handled or ("extends the mapping in %s" % c.name)
            for st in au.walk_stmts(fn.body):
                if isinstance(st, ast.If) and any(isinstance(x, ast.Raise) for x in au.walk_stmts(st.body)):
                    names = {au.dotted(x) for x in au.walk_local(st.test) if isinstance(x, ast.Attribute)}
                    if "self.freq" in names:
                        handled = "rejected explicitly in %s" % c.name   # a rejection in the most derived set-up wins
                        break
            if handled and handled.startswith("rejected"):
                break
        if ci.name == "Asset":
            continue
        ctx.ob("C13.a", ci.name, "freq is applied or rejected", handled is not None,
               "%s.__init__ accepts `freq` but its set-up chain neither extends the mapping to the minor grid nor rejects a coarse "
               "frequency: dispatch on the fine grid would be missing" % ci.name, node=ci.node, ok_detail=handled or "")

    # ================================================================= C12.d derived grids
    tg = p.cls("Timegrid")
    init = tg.methods.get("__init__")
    ctx.require(init is not None and init.param("ref_timegrid") is not None, "Timegrid.__init__(.., ref_timegrid) vanished")
    takes_from_ref = any(isinstance(st, ast.Assign) and any(au.path(t) == "self.main_time_unit" for t in st.targets)
                         and any(isinstance(x, ast.Attribute) and x.attr == "main_time_unit" and au.base_name(x) == "ref_timegrid" for x in au.walk_local(st.value))
                         for st in au.walk_stmts(init.body))
    unit_pos = [q.name for q in init.params[1:]].index("main_time_unit") if init.param("main_time_unit") else None
    n_sites = 0
    seen_refs = {}
    for fn in p.all_functions():
        for c in p.calls_in(fn):
            if not (isinstance(c.func, ast.Name) and c.func.id == "Timegrid"):
                continue
            ref = au.kwarg(c, "ref_timegrid")
            if ref is None or au.is_none(ref):
                continue
            n_sites += 1
            unit = au.arg_or_kw(c, unit_pos, "main_time_unit")
            ok = takes_from_ref
            detail = ""
            if not ok:
                if unit is None:
                    detail = "the derived grid is built without main_time_unit: it falls back to the default 'h' whatever the unit of the reference grid"
                else:
                    refp = au.path(ref) or au.U(ref)
                    want = {refp + ".main_time_unit"}
                    if refp == "self":
                        want.add("self.main_time_unit")
                    ok = (au.path(unit) in want)
                    detail = "main_time_unit=%s is not the unit of the reference grid %s" % (au.short(unit, 40), refp)
            seen_refs[(fn.qualname, au.U(ref))] = seen_refs.get((fn.qualname, au.U(ref)), 0) + 1
            ctx.ob("C12.d", fn, au.short(c, 100), ok, key="grid #%d derived from %s" % (seen_refs[(fn.qualname, au.U(ref))], au.U(ref)), detail=
                   detail + " - dt is copied from the reference (in its unit) but every later conversion (discounting, take "
                            "proration, durations) uses the derived grid's unit: with main_time_unit='d' and wacc 0.5 a split "
                            "optimisation gives 14140 instead of 13698", node=c)
    ctx.require(n_sites >= 3, "fewer than 3 derived-grid constructions found")

    # ================================================================= C12.b readers of main_time_unit
    readers = {}
    for fn in p.all_functions():
        if fn.parent is not None:
            continue
        for n in au.walk_local(fn.node, include_self=False):
            if isinstance(n, ast.Attribute) and n.attr == "main_time_unit" and isinstance(n.ctx, ast.Load):
                readers.setdefault(fn.qualname, n)
            if isinstance(n, ast.Subscript) and au.const_str(n.slice) == "main_time_unit" and isinstance(n.ctx, ast.Load):
                readers.setdefault(fn.qualname, n)
    for q, n in sorted(readers.items()):
        known = q in UNIT_READERS
        ctx.ob("C12.b", q, "reads main_time_unit", True if known else None,
               "new reader of main_time_unit: its formula has no declared time degree yet (eaocheck/rules/options.py UNIT_READERS)",
               node=n, ok_detail=UNIT_READERS.get(q, ""))


    # ================================================================= C15.o formulation chosen by price values
    n_o = 0
    for fn in sorted(p.all_functions(), key=lambda f: f.qualname):
        if fn.parent is not None or fn.cls is None or not p.is_subclass(fn.cls, "Asset") or fn.name != "setup_optim_problem":
            continue
        ff = ctx.flow(fn)

        def price_vec(e, at, depth=0):
            """attribute names through which `e` may carry values of the price data"""
            out = set()
            if depth > 5:
                return out
            for x in au.walk_local(e):
                if isinstance(x, ast.Call) and au.method_name(x) == "make_vector":
                    a0 = au.arg_or_kw(x, 0, "value")
                    if a0 is not None and au.path(a0) and au.path(a0).startswith("self."):
                        out.add(au.path(a0)[5:])
                elif isinstance(x, ast.Subscript) and isinstance(x.value, ast.Name) and x.value.id == "prices":
                    out.add(au.U(x.slice))
                elif isinstance(x, ast.Name) and isinstance(x.ctx, ast.Load):
                    for d in ff.defs(x.id, at):
                        if d.kind == "assign" and d.value is not None and d.node is not at:
                            out |= price_vec(d.value, d.node, depth + 1)
            return out

        seen = set()
        for st in au.walk_stmts(fn.body):
            test = st.test if isinstance(st, ast.If) else (st.value if isinstance(st, ast.Assign) and isinstance(st.targets[0], ast.Name) else None)
            if test is None:
                continue
            if isinstance(st, ast.If) and all(isinstance(b0, (ast.Raise, ast.Assert, ast.Pass)) for b0 in st.body) and not st.orelse:
                continue
            for c in au.walk_local(test):
                if not (isinstance(c, ast.Call) and au.method_name(c) in ("all", "any") and c.args and isinstance(c.args[0], ast.Compare)):
                    continue
                attrs = price_vec(c.args[0], st)
                if not attrs:
                    continue
                key = "%s: %s" % (fn.cls.name, ", ".join(sorted(attrs)))
                if (key, au.U(c)) in seen:
                    continue
                seen.add((key, au.U(c)))
                n_o += 1
                ctx.ob("C15.o", fn, au.short(c, 70), False,
                       "%s decides the formulation (number and kind of variables) and its operand can hold values of the price data (%s may be given as the "
                       "name of a series): with one price set the asset has T variables, with another 2 T - a fixed window carries the previous solution "
                       "over by variable number, so the values are pinned to other variables (or the size assertion fires); 'infeasible' / wrong dispatch "
                       "in the window" % (au.short(c, 40), ", ".join(sorted(attrs))), node=c, key="formulation of %s depends on %s(%s %s %s)" % (
                           fn.cls.name, au.method_name(c), "/".join(sorted(attrs)), type(c.args[0].ops[0]).__name__, au.short(c.args[0].comparators[0], 10)))
    ctx.require(n_o >= 3, "fewer than 3 formulation tests on vectors found in asset set-ups", rules=["C15.o"])
