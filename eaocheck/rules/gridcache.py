"""Analysis 20 - typestate of the shared grid cache (C10.b) and ordering of discounting and sub-grid creation (C10.c).

All assets of a portfolio share one Timegrid object and each asset overwrites `timegrid.restricted` and
`timegrid.discount_factors` with its own window / wacc.  A set-up therefore has to (re-)establish the cache for *itself*
before it reads it, on every path, and after every call that re-establishes it for another asset.

State: may-set over {'Y' established for self, 'N' not established / clobbered}.  Interprocedural by inlining of
self.m() / super().m() (depth <= 6) with the receiver class under analysis.
"""
from __future__ import annotations
import ast
from .. import astutil as au
from ..flow import Domain, Walker
from ..tables import rule, GRID_CACHE_ATTRS
from . import analysis

rule("C10.b", "on every path from the entry of a set-up / report method to a read of self.timegrid.restricted / "
              ".discount_factors the cache has been (re-)established for this asset, with no intervening call that "
              "re-establishes it for another asset", floor=12, props=["C10", "C09", "C07", "C08", "C20", "C15", "C02"])
rule("C16.r", "a wrapper (scaled / structured / linked asset) reads the shared grid through its own self.timegrid only - never through the grid "
              "attribute of what it wraps (self.base_asset.timegrid.restricted ...): it is the same grid object, whose sub-grid at that moment "
              "belongs to the wrapped asset, so the wrapper's own window (the duration its fix costs count for) is replaced by the base asset's",
     floor=1, props=["C16", "C08", "C17"])
rule("C10.j", "no result of a method is memoised (lru_cache / cache / cached_property) unless everything it reads is in the key: a method "
              "that reads attributes of its object - or falls back to them when an argument is None - returns what was true for the "
              "object's state at the first call", floor=1, props=["C10", "C06", "C12"])
rule("C09.h", "a loop over the assets of a portfolio reads nothing from the shared grid cache that a previous pass of the loop (the set-up of "
              "the asset before) may have left there: otherwise the result depends on the order of the assets", floor=1)
rule("C16.h", "a wrapper (scaled / structured / linked asset) reads the shared grid cache only after re-establishing it for itself, "
              "i.e. after the wrapped set-up has overwritten it (the wrapper's own window - clipped to the horizon - decides what it adds, "
              "e.g. the duration its fix costs count for, not the window of what it wraps)", floor=2, props=["C16", "C08"])
rule("C09.l", "what is reported for an asset does not depend on which asset was set up last: the report methods (dcf, fill_level) read the shared "
              "grid's per-asset cache (restricted, discount_factors) only after re-establishing it for their own asset - after a portfolio set-up "
              "the cache belongs to the last asset of the list, so the cash flows of a coarse-frequency asset would change with the order of the "
              "assets", floor=2)
rule("C05.r", "the reported fill level is computed on the storage's own window: Storage.fill_level is public (the report calls it, users call it) "
              "and (re-)establishes the shared grid's cache for its asset before it reads restricted.I / .dt - it does not rely on a caller to "
              "have done so (the cache belongs to whichever asset was set up last: inflow would be accumulated over another asset's window)",
     floor=1)
rule("C17.i", "the cost vector a set-up returns under costs_only (the samples of the robust / stochastic targets) is computed from the grid "
              "cache of *this* asset: the cache is (re-)established before the costs_only return reads it", floor=0)
rule("C10.c", "discount factors are created - unconditionally, with the asset's own wacc - before the sub-grid that copies them, and every sub-grid "
              "branch copies them (each asset's cash flows are discounted with its own rate, whatever asset used the shared grid before)", floor=3,
     props=["C10", "C02"])
rule("C10.g", "the primitives that establish the shared grid cache for an asset (Timegrid.set_wacc, Timegrid.set_restricted_grid) "
              "write it on every path: no shortcut leaves the previous asset's discount factors / sub-grid in place", floor=2,
     props=["C10", "C09", "C08", "C20", "C02", "C04", "C15", "C13"])
rule("C10.o", "Asset.set_timegrid (re-)establishes the shared grid for its asset in every call: the calls of set_wacc and set_restricted_grid are "
              "unconditional and no return precedes them - a shortcut ('already set to this grid', 'window unchanged') keeps a sub-grid whose "
              "discount factors were copied for whichever asset built it", floor=2, props=["C10", "C15", "C09", "C20", "C02", "C04", "C17"])

ENTRY_METHODS = ("setup_optim_problem", "dcf", "fill_level")
ESTABLISH_PRIMITIVE = "set_restricted_grid"     # Timegrid method that creates .restricted
CLOBBER_METHODS = ("set_timegrid", "setup_optim_problem", "set_restricted_grid", "setup_split_optim_problem", "create_cost_samples")
Y, N = "Y", "N"
MAX_DEPTH = 6


class _CacheDomain(Domain):
    def __init__(self, an, fn, receiver, depth, report):
        self.an, self.fn, self.receiver, self.depth, self.report = an, fn, receiver, depth, report

    def initial(self, fn):
        return frozenset([N])

    def join(self, a, b):
        return a | b

    def stmt(self, s, node):
        if isinstance(node, (ast.FunctionDef, ast.AsyncFunctionDef, ast.ClassDef)):
            return s
        return self.an.eval_events(node, s, self)

    def refine(self, s, test, truth):
        # reads / calls in the test happen before the branch: evaluated once (on the 'True' refinement) by the walker hook
        return s


class CacheAnalysis:
    def __init__(self, ctx):
        self.ctx = ctx
        self.p = ctx.p
        self.summaries = {}

    # -- classification of one expression node
    def _is_cache_read(self, n) -> bool:
        if not isinstance(n, ast.Attribute) or not isinstance(n.ctx, ast.Load):
            return False
        c = au.attr_chain(n)
        if c and len(c) == 3 and c[0] == "self" and c[1] == "timegrid" and c[2] in GRID_CACHE_ATTRS:
            return True
        # the same object through the set-up's own grid parameter (self.set_timegrid(timegrid) made it self.timegrid)
        return bool(c and len(c) == 2 and c[0] == "timegrid" and c[1] in GRID_CACHE_ATTRS and getattr(self, "_param_grid_ok", False))

    def eval_events(self, node, s, dom):
        """Process reads and calls inside `node` in source order."""
        events = []
        for n in au.walk_local(node):
            if self._is_cache_read(n):
                # `hasattr`-style probing is not a read of the value; plain loads are
                events.append((n.lineno, n.col_offset, 1, "read", n))
            elif isinstance(n, ast.Call):
                # a call takes effect after its arguments: order by end position
                events.append((getattr(n, "end_lineno", n.lineno), getattr(n, "end_col_offset", n.col_offset), 0, "call", n))
        events.sort(key=lambda e: (e[0], e[1], e[2]))
        for _, _, _, kind, n in events:
            if kind == "read":
                if N in s:
                    dom.report(n, s)
                    s = frozenset([Y])     # error recovery: report the root cause once
            else:
                s = self._call(n, s, dom)
        return s

    def _call(self, call, s, dom):
        f = call.func
        mname = au.method_name(call)
        if isinstance(f, ast.Attribute):
            recv = f.value
            recv_chain = au.attr_chain(recv)
            is_super = isinstance(recv, ast.Call) and isinstance(recv.func, ast.Name) and recv.func.id == "super"
            is_self = isinstance(recv, ast.Name) and recv.id == "self"
            if mname == ESTABLISH_PRIMITIVE:
                if recv_chain == ["self", "timegrid"]:
                    return frozenset([Y])
                return frozenset([N])  # another grid object / alias: the cache of this asset is not (provably) established
            if is_self or is_super:
                targets = self.p.resolve_call(call, dom.fn, dom.receiver)
                if targets and dom.depth < MAX_DEPTH:
                    out = frozenset()
                    for t in targets:
                        out |= self.inline(t, dom.receiver, s, dom.depth + 1, dom, suppress=(t.name in ENTRY_METHODS))
                    return out
                return s
            # a call on another object that (re-)establishes the cache for that object
            if mname in CLOBBER_METHODS:
                return frozenset([N])
        return s

    def inline(self, fn, receiver, entry, depth, parent_dom, suppress):
        def rep(n, st):
            if not suppress:
                parent_dom.report(n, st, via=fn)
        dom = _CacheDomain(self, fn, receiver, depth, lambda n, st, via=None: rep(n, st))
        w = Walker(dom)
        self._hook_tests(w, dom)
        w.run_function(fn, entry)
        ex = w.exit_state()
        return ex if ex is not None else entry

    def _hook_tests(self, w, dom):
        def on_stmt(node, state):
            hdr = None
            if isinstance(node, (ast.If, ast.While)):
                hdr = node.test
            elif isinstance(node, (ast.For, ast.AsyncFor)):
                hdr = node.iter
            if hdr is not None:
                # header reads: report, but do not change the state (no state threading through headers needed today)
                self.eval_events(hdr, state, dom)
        w.on_stmt = on_stmt

    def analyse_entry(self, fn, receiver):
        sites = []
        # reads through the parameter `timegrid` count when the method hands that parameter to self.set_timegrid(..)
        self._param_grid_ok = fn.param("timegrid") is not None and any(
            isinstance(c, ast.Call) and au.method_name(c) == "set_timegrid" and au.base_name(c.func) == "self" and au.U(au.arg_or_kw(c, 0, "timegrid")) == "timegrid"
            for c in au.walk_local(fn.node))

        def report(n, st, via=None):
            sites.append((n, via))
        dom = _CacheDomain(self, fn, receiver, 0, report)
        w = Walker(dom)
        self._hook_tests(w, dom)
        w.run_function(fn)
        return sites


WRAPPERS = ("ScaledAsset", "StructuredAsset", "LinkedAsset")


class _MustAssign(Domain):
    """set of self.<attr> assigned on every path so far"""

    def initial(self, fn):
        return frozenset()

    def join(self, a, b):
        return a & b

    def stmt(self, s, node):
        if isinstance(node, (ast.Assign, ast.AnnAssign, ast.AugAssign)):
            for t in au.stmt_targets(node):
                pth = au.path(t)
                if pth and pth.startswith("self.") and pth.count(".") == 1:
                    s = s | frozenset([pth[5:]])
        return s


def must_assign(fn) -> frozenset:
    w = Walker(_MustAssign())
    w.run_function(fn)
    out = None
    for node, st in w.returns:
        out = st if out is None else (out & st)
    return out if out is not None else frozenset()


@analysis("gridcache", ["C10.b", "C10.c", "C16.h", "C10.g", "C17.i", "C09.h", "C10.j", "C05.r", "C09.l", "C10.o", "C16.r"])
def run(ctx):
    p = ctx.p
    an = CacheAnalysis(ctx)
    n_entries = 0
    for ci in sorted(p.asset_classes(), key=lambda c: c.name):
        for mname in ENTRY_METHODS:
            fn = ci.methods.get(mname)
            if fn is None:
                continue
            n_entries += 1
            sites = an.analyse_entry(fn, ci)
            reads_any = any(an._is_cache_read(n) for n in au.walk_local(fn.node)) or bool(sites)
            # C09.h: loops over the assets of a portfolio
            for lp in au.walk_stmts(fn.body):
                if isinstance(lp, ast.For) and any(isinstance(x, ast.Attribute) and x.attr == "assets" for x in au.walk_local(lp.iter)):
                    inside = [n for n, via in sites if any(a is lp for a in p.ancestors(n))]
                    ctx.ob("C09.h", fn, "loop over %s" % au.short(lp.iter, 50), not inside,
                           "inside the loop the shared grid's cache (%s) is read on a path on which the previous pass has set it up for the asset "
                           "before (a.set_timegrid / a.setup_optim_problem at the end of the pass): what this asset gets depends on which asset "
                           "came before it, so permuting the assets changes the result" % (au.short(inside[0], 50) if inside else ""),
                           node=(inside[0] if inside else lp))
            if not sites:
                ctx.ob("C10.b", fn, "grid cache read before (re-)establishment", True,
                       "every read of the cache is dominated by an establishment for this asset", trivial=not reads_any)
                if ci.name in WRAPPERS and mname == "setup_optim_problem":
                    ctx.ob("C16.h", fn, "grid cache read before (re-)establishment", True, trivial=not reads_any)
                if mname == "fill_level" and fn.cls is not None and fn.cls.name == "Storage":
                    ctx.ob("C05.r", fn, "grid cache read before (re-)establishment", True, trivial=not reads_any)
                if mname in ("dcf", "fill_level"):
                    ctx.ob("C09.l", fn, "grid cache read before (re-)establishment", True, trivial=not reads_any)
                continue
            detail = "; ".join("%s%s" % (p.where(n), (" (in helper %s)" % via.qualname) if via is not None else "") for n, via in sites[:6])
            ctx.ob("C10.b", fn, "grid cache read before (re-)establishment", False,
                   "self.timegrid.restricted / .discount_factors belong to whichever asset set the shared grid last; here they "
                   "are read on a path on which this asset has not (re-)established them (documented timegrid=None path, or "
                   "after another asset's set-up): " + detail, node=sites[0][0])
            if mname in ("dcf", "fill_level"):
                ctx.ob("C09.l", fn, "grid cache read before (re-)establishment", False,
                       "%s reads the per-asset cache of the shared grid without (re-)establishing it: " % fn.qualname + detail + " - after the portfolio's set-up "
                       "it holds the window / coarse intervals / discount factors of the asset that was set up last: the cash flows reported for a "
                       "coarse-frequency asset change when the assets are permuted (totals 2000 vs 4000)", node=sites[0][0])
            if mname == "fill_level" and fn.cls is not None and fn.cls.name == "Storage":
                ctx.ob("C05.r", fn, "grid cache read before (re-)establishment", False,
                       "fill_level reads the window / step lengths of the shared grid without (re-)establishing them for the storage: " + detail +
                       " - called directly (public API) after a portfolio set-up it sees the window of the asset that was set up last; a storage with "
                       "inflow that is active on two of three days next to a contract over the whole horizon is reported with a level of up to 42 for a "
                       "size of 30", node=sites[0][0])
            in_costs_only = [n for n, via in sites if any(isinstance(a, ast.If) and "costs_only" in au.names_in(a.test) for a in p.ancestors(n))]
            if in_costs_only and mname == "setup_optim_problem":
                ctx.ob("C17.i", fn, "grid cache read on the costs_only path", False,
                       "under costs_only the set-up reads self.timegrid.restricted / .discount_factors before it has (re-)established them for "
                       "this asset (%s): the cost sample differs from the cost vector of the full problem (a scaled asset charges its fix costs "
                       "over the base asset's window), so the robust / stochastic targets optimise against costs the problem does not have"
                       % p.where(in_costs_only[0]), node=in_costs_only[0])
            if ci.name in WRAPPERS and mname == "setup_optim_problem":
                ctx.ob("C16.h", fn, "grid cache read before (re-)establishment", False,
                       "the wrapper reads its window / step lengths from the shared grid after the wrapped asset's set-up overwrote them "
                       "(fixed costs over the base asset's duration, linking rows over the last inner asset's window): " + detail, node=sites[0][0])
    ctx.require(n_entries >= 12, "fewer than 12 set-up / report entry methods found on asset classes")

    # ---------------------------------------------------------------- C16.r the grid of the wrapped object
    n_w = 0
    for cname in WRAPPERS:
        ci = p.classes.get(cname)
        if ci is None:
            continue
        for mname, m in sorted(ci.methods.items()):
            n_w += 1
            hits = [x for x in au.walk_local(m.node, include_self=False) if isinstance(x, ast.Attribute) and x.attr in GRID_CACHE_ATTRS
                    and isinstance(x.value, ast.Attribute) and x.value.attr == "timegrid" and au.path(x.value.value) not in (None, "self")
                    and (au.path(x.value.value) or "").startswith("self.")]
            ctx.ob("C16.r", m, "the grid cache is read through self.timegrid only", not hits,
                   "%s reads %s: the sub-grid of the shared grid as the wrapped asset's set-up left it - the wrapper's own life time (clipped to the "
                   "horizon) is not what it measures (fix costs charged for 24 h instead of the 6 h the scaled asset is active)"
                   % (m.qualname, au.short(hits[0], 70) if hits else ""), node=(hits[0] if hits else m.node), trivial=not hits and mname != "setup_optim_problem")
    ctx.require(n_w >= 3, "fewer than 3 wrapper methods found", rules=["C16.r"])

    # ---------------------------------------------------------------- C10.j memoised methods
    MEMO = ("lru_cache", "cache", "cached_property", "memoize", "memoized")
    n_memo = 0
    for fn in sorted(p.all_functions(), key=lambda f: f.qualname):
        decs = [d for d in getattr(fn.node, "decorator_list", []) if any(
            (isinstance(x, ast.Name) and x.id in MEMO) or (isinstance(x, ast.Attribute) and x.attr in MEMO) for x in ast.walk(d))]
        if not decs:
            continue
        n_memo += 1
        reads = [x for x in au.walk_local(fn.node, include_self=False) if isinstance(x, ast.Attribute) and isinstance(x.ctx, ast.Load)
                 and isinstance(x.value, ast.Name) and x.value.id == "self" and not (isinstance(p.parent(x), ast.Call) and p.parent(x).func is x)] \
            if fn.cls is not None else []
        reads += [x for x in au.walk_local(fn.node, include_self=False) if isinstance(x, ast.Global)]
        ctx.ob("C10.j", fn, "@%s" % au.short(decs[0], 40), not reads,
               "the memoised result is keyed on the arguments, but the method also reads %s: a second set-up of the same object with another grid "
               "(hourly, then 15 minutes) gets the step counts of the first - minimum run time and down time rows are built for the wrong "
               "number of steps, silently" % (au.short(reads[0], 40) if reads else ""), node=(reads[0] if reads else fn.node))
    ctx.ob("C10.j", "package", "memoised functions", True, ok_detail="%d memoised function(s), none reads state outside its key" % n_memo)

    # non-self reads: a function that reads <grid>.restricted of a grid it received must establish it first (make_slp)
    for fn in p.all_functions():
        if fn.cls is not None and p.is_subclass(fn.cls, "Asset"):
            continue
        reads = [n for n in au.walk_local(fn.node, include_self=False)
                 if isinstance(n, ast.Attribute) and n.attr == "restricted" and isinstance(n.ctx, ast.Load)
                 and isinstance(n.value, ast.Name) and fn.param(n.value.id) is not None and n.value.id != "self"]
        for r in reads:
            g = r.value.id
            # must-precede on the structured walk: an establishing call on the same name dominates the read
            ok = _dominated_by_call(fn, r, g, ESTABLISH_PRIMITIVE)
            if ok:
                ctx.ob("C10.b", fn, "%s.restricted" % g, True, "established in the same function before the read", node=r)
            # else: the sub-grid of a grid received as an argument is the caller's responsibility (define_restr is called
            # by set-ups right after they established the cache): not an obligation of this function

    # ---------------------------------------------------------------- C10.c
    asset = p.cls("Asset")
    st = asset.methods.get("set_timegrid")
    ctx.require(st is not None, "Asset.set_timegrid vanished")
    parents_ = {}
    for a_ in ast.walk(st.node):
        for c_ in ast.iter_child_nodes(a_):
            parents_[c_] = a_
    for prim in ("set_wacc", ESTABLISH_PRIMITIVE):
        cs = [c for c in p.calls_in(st) if au.method_name(c) == prim]
        if not cs:
            ctx.ob("C10.o", st, "%s is called unconditionally" % prim, None, "no call of %s found in Asset.set_timegrid" % prim)
            continue
        c = cs[0]
        cond = []
        a_ = c
        while a_ in parents_ and parents_[a_] is not st.node:
            a_ = parents_[a_]
            if isinstance(a_, (ast.If, ast.For, ast.While, ast.Try, ast.IfExp)):
                cond.append(a_)
        early = [r for r in au.walk_stmts(st.body) if isinstance(r, ast.Return) and r.lineno < c.lineno]
        ctx.ob("C10.o", st, "%s is called unconditionally" % prim, not cond and not early,
               "Asset.set_timegrid %s before / around its call of %s: an asset taking the shortcut works on the sub-grid and discount factors "
               "another asset (same window, other wacc) left on the shared grid - the second set-up of a portfolio (new prices, fixed window) "
               "discounts the first asset with the last asset's rate (value 40332.86 instead of 58788.74)" % (
                   ("returns at %s" % p.where(early[0])) if early else (("branches at %s" % p.where(cond[0])) if cond else ""), prim),
               node=(early[0] if early else (cond[0] if cond else c)))
    calls = [c for c in p.calls_in(st)]
    sub = [c for c in calls if au.method_name(c) == ESTABLISH_PRIMITIVE]
    if not sub:
        ctx.ob("C10.c", st, "set_wacc precedes set_restricted_grid", None, "no sub-grid creation found in Asset.set_timegrid")
    for c in sub:
        ok = _dominated_by_call(st, c, None, "set_wacc")
        ctx.ob("C10.c", st, "set_wacc precedes %s" % au.short(c, 80), ok,
               "the sub-grid copies the discount factors of the grid: creating it before set_wacc leaves the asset with "
               "the factors of whichever asset used the grid before (or none)", node=c)
    # ---------------------------------------------------------------- C10.g the establishing primitives write on every path
    tgc = p.cls("Timegrid")
    for mname, attr in (("set_wacc", "discount_factors"), (ESTABLISH_PRIMITIVE, "restricted")):
        m = tgc.methods.get(mname)
        ctx.require(m is not None, "Timegrid.%s vanished" % mname)
        always = must_assign(m)
        rets = [r for r in au.walk_stmts(m.body) if isinstance(r, ast.Return)]
        ctx.ob("C10.g", m, "self.%s is written on every path" % attr, attr in always,
               "Timegrid.%s is what makes the shared grid belong to the asset that is being set up, but it has a path on which "
               "self.%s is left as it was (e.g. a shortcut return): an asset taking that path inherits the %s of whichever asset "
               "used the grid before it, so the result depends on the order of the assets in the portfolio" % (
                   mname, attr, "discount factors" if attr == "discount_factors" else "window"),
               node=(rets[0] if rets else m.node))

    # Timegrid.__init__: every arm that derives self.dt from the reference grid also derives discount_factors
    tg = p.cls("Timegrid").methods.get("__init__")
    ctx.require(tg is not None, "Timegrid.__init__ vanished")
    refp = "ref_timegrid"
    ctx.require(tg.param(refp) is not None, "Timegrid.__init__ lost its ref_timegrid parameter")
    arms = []

    def visit(body):
        for s in body:
            if isinstance(s, ast.If):
                for blk in (s.body, s.orelse):
                    if blk:
                        direct_dt = [x for x in blk if isinstance(x, ast.Assign) and any(au.path(t) == "self.dt" for t in x.targets)]
                        if direct_dt and any(refp in au.names_in(x) for x in au.walk_stmts(blk)):
                            arms.append(blk)
                        visit(blk)
            elif isinstance(s, (ast.For, ast.While, ast.With, ast.Try)):
                visit(s.body)
    visit(tg.body)
    for blk in arms:
        has = any(isinstance(x, ast.Assign) and any(au.path(t) == "self.discount_factors" for t in x.targets)
                  and refp in {nm for y in au.walk_stmts([x]) for nm in au.names_in(y)} | _names_defs(blk)
                  for x in au.walk_stmts(blk))
        ctx.ob("C10.c", tg, "sub-grid arm starting with: %s" % au.short(blk[0], 70), has,
               "this arm builds a sub-grid from the reference grid (sets self.dt) but never sets self.discount_factors: "
               "assets on such a sub-grid are not discounted", node=blk[0])


def _names_defs(blk):
    out = set()
    for x in au.walk_stmts(blk):
        out |= au.names_in(x)
    return out


def _dominated_by_call(fn, node, recv_name, method) -> bool:
    """Structured must-precede: on every path from fn's entry to the statement containing `node`, a call
       <recv_name>.<method>(..) (any receiver if recv_name is None) has been executed."""
    class D(Domain):
        def initial(self, f):
            return False

        def join(self, a, b):
            return a and b

        def stmt(self, s, st):
            for n in au.walk_local(st):
                if isinstance(n, ast.Call) and au.method_name(n) == method:
                    if recv_name is None or au.base_name(n.func) == recv_name:
                        # the call precedes `node` only if it is complete before node is evaluated
                        if not any(x is node for x in au.walk_local(n)):
                            if not (st is target_stmt[0] and (n.lineno, n.col_offset) > (node.lineno, node.col_offset)):
                                return True
            return s
    target_stmt = [None]
    for st in au.walk_stmts(fn.body):
        if any(x is node for x in au.walk_local(st)):
            target_stmt[0] = st   # innermost wins (walk order: outer first)
    w = Walker(D())
    w.run_function(fn)
    st = target_stmt[0]
    if st is None:
        return False
    before = w.before.get(st)
    if before:
        return True
    # the establishing call may be in the same statement, earlier in evaluation order
    for n in au.walk_local(st):
        if isinstance(n, ast.Call) and au.method_name(n) == method and (recv_name is None or au.base_name(n.func) == recv_name):
            if (n.lineno, n.col_offset) < (node.lineno, node.col_offset) and not any(x is node for x in au.walk_local(n)):
                return True
    return False
