"""Analysis 12 - CHP / plant linear forms (C06.a, C06.b, C06.c).  A small structural part of C06 only.

C06.a  virtual dispatch is ONE linear form everywhere: wherever step k's heat column (heat_idx + k) gets a time-varying
       factor, the factor is indexed by the same k (offset equality as linear forms over the loop variables); the same
       for a column addressed by a bare loop variable (max_share_heat[i] on column i)
C06.b  fuel rows: the rows added on the fuel node have node = the fuel node, type 'd' for binaries, a negative factor
       with the documented origins (1/fuel_efficiency; conversion factor/fuel_efficiency; consumption_if_on; start_fuel)
C06.c  sibling agreement: the two definitions of `start` (with / without shutdown variables) put the same coefficients
       on on[t+1], on[t], start[t+1]; the variant with shutdown variables only adds the shutdown term
"""
from __future__ import annotations
import ast
from .. import astutil as au
from .. import linforms as lf
from ..tables import rule
from . import analysis

rule("C06.a", "a time-varying factor placed on the column of step k (heat_idx + k, or column k) is indexed by the same k", floor=8)
rule("C06.b", "fuel rows sit on the fuel node as dispatch with negative factors of the documented origin", floor=4)
rule("C06.c", "the start definition with shutdown variables agrees with the one without on the shared coefficients", floor=1)

FUEL_TABLE = {   # var_name selected -> required names in the factor, with reason (property text: fuel = output / fuel efficiency + running + start consumption)
    ("disp", 0): ({"fuel_efficiency"}, "power output / fuel efficiency"),
    ("disp", 1): ({"fuel_efficiency", "conversion_factor_power_heat"}, "heat output * conversion factor / fuel efficiency"),
    ("bool_on", None): ({"consumption_if_on"}, "running consumption while on"),
    ("bool_start", None): ({"start_fuel"}, "start fuel at each start"),
}


def _names_atom(e):
    if isinstance(e, ast.Name):
        return e.id
    p = au.path(e)
    if p and p.startswith("self."):
        return p
    if isinstance(e, ast.Subscript) and isinstance(e.value, ast.Name) and au.const_str(e.slice):
        return au.U(e)
    return None


def _offset(col, base_attr):
    """col = self.<base_attr> + K  ->  linear form of K over loop variables; None if col is not of that shape."""
    ev = lf.LinEval(_names_atom)
    f = ev.ev(col)
    if f is None:
        return None
    key = "self." + base_attr
    if f.get(key) != 1:
        return None
    f = dict(f)
    del f[key]
    return f


rule("C06.h", "a slice of the bound vectors that starts at the first variable of a block (self.on_idx ...) and whose length comes from a "
              "duration (remaining runtime / downtime) is clamped to the block length: the block is followed by other variables",
     floor=2, props=["C06", "C07"])


rule("C06.i", "'the start ramp is still in progress at the beginning of the horizon' is one condition (time already running < length of "
              "the start ramp): every test that relates the two quantities has the same direction - the start profile is imposed and "
              "the ordinary ramp relaxed in exactly the same case", floor=1)


def _ramp_in_progress(ctx):
    p = ctx.p
    sites = []
    for fn in sorted(p.all_functions(), key=lambda f: f.qualname):
        if fn.parent is not None or fn.cls is None or not p.is_subclass(fn.cls, "CHPAsset"):
            continue
        for n in au.walk_local(fn.node, include_self=False):
            if not (isinstance(n, ast.Compare) and len(n.ops) == 1 and isinstance(n.ops[0], (ast.Lt, ast.LtE, ast.Gt, ast.GtE))):
                continue
            ev = lf.LinEval(lambda e: au.U(e) if isinstance(e, (ast.Name, ast.Attribute)) else None)
            a, b = ev.ev(n.left), ev.ev(n.comparators[0])
            if a is None or b is None:
                continue
            d = lf.add(b, a, -1)        # right - left
            atoms = {k for k in d if k != lf.ONE}
            run = [k for k in atoms if k.endswith("time_already_running")]
            srt = [k for k in atoms if k.endswith("start_ramp_time")]
            if len(atoms) != 2 or not run or not srt:
                continue
            # direction: sign of the coefficient of start_ramp_time in (greater side - smaller side)
            greater_minus_smaller = d if isinstance(n.ops[0], (ast.Lt, ast.LtE)) else lf.scale(d, -1)
            direction = "running < ramp length" if greater_minus_smaller[srt[0]] > 0 else "running > ramp length"
            sites.append((fn, n, direction))
    if not sites:
        ctx.ob("C06.i", "CHPAsset", "tests relating time_already_running and start_ramp_time", None, "no such test found")
        return
    dirs = {d for _, _, d in sites}
    ctx.ob("C06.i", "CHPAsset", "start ramp in progress at the beginning of the horizon", len(dirs) == 1,
           "the tests disagree: %s. One of them is wrong: the start profile is imposed for the remaining steps of a start ramp "
           "(running < ramp length); if the ordinary ramp is relaxed in the opposite case, a plant that has been running for longer than "
           "its start ramp may jump from its last dispatch to full load in the first step (last dispatch 2, ramp 1: first step 10 "
           "instead of at most 3), and a start ramp in progress is not relaxed" % "; ".join(
               "%s: `%s` (%s)" % (p.where(n), au.short(n, 50), d) for _, n, d in sites), node=sites[-1][1],
           ok_detail="%d test(s), all '%s'" % (len(sites), next(iter(dirs))))


rule("C06.k", "the ramp row for the first step is the t = 0 instance of the row built in the loop over t >= 1: every family of columns "
              "(dispatch, heat, on, start, shutdown) whose index is non-negative at t = 0 also occurs in the first-step row of the same type",
     floor=2)


def _first_step_rows(ctx):
    p = ctx.p
    fn = next((f for f in p.all_functions() if f.qualname == "CHPAsset._add_constraints_for_ramp"), None)
    if fn is None:
        ctx.ob("C06.k", "CHPAsset", "ramp rows", None, "CHPAsset._add_constraints_for_ramp not found")
        return
    loops = [s for s in au.walk_stmts(fn.body) if isinstance(s, ast.For) and isinstance(s.target, ast.Name) and isinstance(s.iter, ast.Call)
             and au.call_name(s.iter) == "range" and len(s.iter.args) == 2 and au.const_num(s.iter.args[0]) == 1]
    if not loops:
        ctx.ob("C06.k", fn, "ramp rows", None, "loop over t >= 1 not found")
        return
    lp = loops[0]
    tvar = lp.target.id

    def rows(stmts):
        """[(letter, [(index expr, stmt)])]: a row starts with `<a> = lil_matrix(..)` and ends with `cType += '<letter>'`."""
        out, cur = [], None
        for st in stmts:
            if isinstance(st, ast.Assign) and isinstance(st.value, ast.Call) and au.method_name(st.value) == "lil_matrix" and isinstance(st.targets[0], ast.Name):
                cur = [st.targets[0].id, []]
                continue
            if cur is None:
                continue
            for x in au.walk_stmts([st]):
                if isinstance(x, ast.Assign) and isinstance(x.targets[0], ast.Subscript) and au.base_name(x.targets[0]) == cur[0] \
                        and isinstance(x.targets[0].slice, ast.Tuple) and len(x.targets[0].slice.elts) == 2:
                    cur[1].append((x.targets[0].slice.elts[1], x))
                if isinstance(x, ast.AugAssign) and au.U(x.target).endswith("cType") and au.const_str(x.value) is not None:
                    out.append((au.const_str(x.value), cur[1]))
                    cur = None
                    break
        return out

    def family(e, zero):
        """(family, constant part) of a column index with the loop variables in `zero` set to 0."""
        ev = lf.LinEval(lambda x: au.U(x) if isinstance(x, (ast.Name, ast.Attribute)) else None)
        f = ev.ev(e)
        if f is None:
            return None
        f = {k: v for k, v in f.items() if k not in zero}
        base = sorted(k for k in f if k != lf.ONE)
        if len(base) > 1:
            return None
        return (base[0] if base else "dispatch"), f.get(lf.ONE, 0)

    inner_vars = {l.target.id for l in au.walk_stmts(lp.body) if isinstance(l, ast.For) and isinstance(l.target, ast.Name)}
    in_loop = rows(lp.body)
    after = [s for s in fn.body if s.lineno > lp.lineno] if any(lp is x for x in fn.body) else \
        [s for par in [p.parent(lp)] for s in getattr(par, "body", []) if s.lineno > lp.lineno]
    first = rows(after)
    if not in_loop or not first:
        ctx.ob("C06.k", fn, "ramp rows", None, "row blocks not recognised (loop: %d, first step: %d)" % (len(in_loop), len(first)))
        return
    for letter, cols in in_loop:
        fr = [c for l, c in first if l == letter]
        if not fr:
            ctx.ob("C06.k", fn, "first-step row of type %s" % letter, False, "the loop builds '%s' rows for t >= 1 but there is no first-step row of that type" % letter, node=lp)
            continue
        have = {family(e, {tvar} | inner_vars)[0] for e, _ in fr[0] if family(e, {tvar} | inner_vars)}
        need = {}
        for e, st in cols:
            fm = family(e, {tvar} | inner_vars)
            if fm and fm[1] >= 0:
                need.setdefault(fm[0], st)
        missing = sorted(k for k in need if k not in have)
        ctx.ob("C06.k", fn, "first-step '%s' row has the columns of the row for t >= 1" % letter, not missing,
               "for t >= 1 the '%s' row has a column at %s (line %s), whose index is non-negative at t = 0 as well, but the row for the first "
               "step has no such column: the relaxation / coupling it carries is missing in the first step only - a plant that is off can "
               "start in step 1 along its start ramp (0 -> 2 with ramp 1) but not in step 0, where the ordinary ramp applies unrelaxed" % (
                   letter, ", ".join(missing), ", ".join(str(need[k].lineno) for k in missing)), node=(need[missing[0]] if missing else lp),
               ok_detail="families %s" % sorted(need))


def _block_slices(ctx):
    p = ctx.p
    n = 0
    for fn in sorted(p.all_functions(), key=lambda f: f.qualname):
        if fn.parent is not None or fn.cls is None or not p.is_subclass(fn.cls, "CHPAsset"):
            continue
        for st in au.walk_stmts(fn.body):
            for x in au.walk_own(st):
                if not (isinstance(x, ast.Subscript) and isinstance(x.slice, ast.Slice) and x.slice.lower is not None and x.slice.upper is not None):
                    continue
                if not (isinstance(x.value, ast.Attribute) and x.value.attr in ("l", "u", "c", "x")):
                    continue
                lo, up = x.slice.lower, x.slice.upper
                # the slice starts at a block index kept on the asset
                if not any(isinstance(y, ast.Attribute) and y.attr.endswith("_idx") and au.base_name(y) == "self" for y in au.walk_local(lo)):
                    continue
                ev = lf.LinEval(lambda e: au.U(e) if isinstance(e, (ast.Attribute, ast.Name, ast.Call)) else None)
                f_lo, f_up = ev.ev(lo), ev.ev(up)
                length = lf.add(f_up, f_lo, -1) if (f_lo is not None and f_up is not None) else None
                if length is None:
                    ctx.ob("C06.h", fn, au.short(x, 80), None, "length of the slice not understood", node=x)
                    continue
                if lf.const_of(length) is not None:
                    continue                    # a fixed number of entries
                n += 1
                atoms = [a for a in length if a != lf.ONE]

                def bounded(a):
                    a_ = a.replace(" ", "")
                    if a_.startswith("min(") and (".T" in a_ or "self.n" in a_ or "len(" in a_):
                        return True
                    return a_.endswith(".T") or a_ == "self.n"
                # through a local: min(...) defined just before
                def resolved(a):
                    try:
                        e = ast.parse(a, mode="eval").body
                    except SyntaxError:
                        return a
                    if isinstance(e, ast.Name):
                        return au.U(ctx.resolve(fn, e, st))
                    return a
                loose = [a for a in atoms if not bounded(resolved(a))]
                ctx.ob("C06.h", fn, au.short(x, 80), not loose,
                       "the slice covers %s entries from the first variable of the block; %s is a duration that can exceed the number of steps "
                       "of the (restricted) grid, and the block is followed by the start / shutdown variables: on a horizon shorter than the "
                       "remaining minimum runtime / downtime the bounds of those variables are overwritten (starts forced to 1: start costs "
                       "charged without a start, value -19 instead of -4; or starts forbidden)" % (lf.show(length), ", ".join(loose)), node=x,
                       ok_detail="length %s" % lf.show(length))
    return n


rule("C06.n", "an offset into a block of per-step variables that comes from a *duration* (length of a start / shutdown ramp, remaining start "
              "ramp, runtime) stays inside the horizon: a loop `for k in range(<duration>)` that addresses column <block> + k is cut at the number "
              "of steps (min(.., self.n) / a break on the horizon), and a number of rows `self.n - <offset>` is computed from a clamped offset - "
              "the block is followed by other variables, and a horizon may be shorter than any duration", floor=3, props=["C06", "C07"])

HORIZON_TOKENS = ("self.n", ".T", ".shape", "len(")


def _horizon_bounded(txt: str) -> bool:
    t = txt.replace(" ", "")
    return any(k in t for k in HORIZON_TOKENS)


def _duration_offsets(ctx):
    p = ctx.p
    n = 0
    for fn in sorted(p.all_functions(), key=lambda f: f.qualname):
        if fn.parent is not None or fn.cls is None or not p.is_subclass(fn.cls, "CHPAsset"):
            continue
        # ---- (1) loops over a duration
        for lp in [s0 for s0 in au.walk_stmts(fn.body) if isinstance(s0, ast.For)]:
            if not (isinstance(lp.target, ast.Name) and isinstance(lp.iter, ast.Call) and au.call_name(lp.iter) == "range" and lp.iter.args):
                continue
            v = lp.target.id
            stop = lp.iter.args[0] if len(lp.iter.args) == 1 else lp.iter.args[1]
            stop_r = ctx.resolve(fn, stop, lp)
            if _horizon_bounded(au.U(stop)) or _horizon_bounded(au.U(stop_r)) or au.const_num(stop_r) is not None:
                continue
            ev = lf.LinEval(lambda e: au.U(e) if isinstance(e, (ast.Name, ast.Attribute)) else None)
            for st in au.walk_stmts(lp.body):
                if not isinstance(st, (ast.Assign, ast.AugAssign)):
                    continue
                for t0 in au.stmt_targets(st):
                    if not isinstance(t0, ast.Subscript):
                        continue
                    idx = t0.slice.elts[-1] if isinstance(t0.slice, ast.Tuple) and t0.slice.elts else t0.slice
                    if isinstance(idx, ast.Slice):
                        continue
                    f = ev.ev(idx)
                    if f is None or not f.get(v):
                        continue
                    coef = f[v]
                    # guards: ifs on the loop variable that enclose the store, or precede it (in a list on the way up to the loop) and leave the pass
                    guards = []
                    child = st
                    for a in p.ancestors(st):
                        lst = None
                        for fld in ("body", "orelse"):
                            if any(child is b0 for b0 in getattr(a, fld, []) or []):
                                lst = getattr(a, fld)
                        if lst is not None:
                            for b0 in lst:
                                if b0 is child:
                                    break
                                if isinstance(b0, ast.If) and v in au.names_in(b0.test) and b0.body and isinstance(b0.body[-1], (ast.Continue, ast.Break, ast.Return, ast.Raise)):
                                    guards.append(b0.test)
                        if isinstance(a, ast.If) and v in au.names_in(a.test) and a is not lp:
                            guards.append(a.test)
                        if a is lp:
                            break
                        child = a
                    if coef > 0:
                        ok = any(_horizon_bounded(au.U(g)) for g in guards)
                    else:
                        ok = bool(guards)
                    n += 1
                    ctx.ob("C06.n", fn, "%s in `for %s in range(%s)`" % (au.short(t0, 50), v, au.short(stop, 40)), ok,
                           "the loop runs over %s - a duration (%s), not a number of steps of the horizon - and addresses %s without a test against the "
                           "%s: on a horizon shorter than the duration the index leaves its block of per-step variables and lands in the variables "
                           "that follow (the bound of a start ramp in progress is imposed on an on / start variable) or beyond the last column "
                           "(IndexError / ValueError in the set-up)" % (au.short(stop, 40), au.short(stop_r, 60), au.short(idx, 40),
                                                                      "number of steps" if coef > 0 else "first step"),
                           node=st, ok_detail="guarded by %s" % "; ".join(sorted({au.short(g, 40) for g in guards})[:2]))
        # ---- (2) numbers of rows self.n - <offset>
        seen = set()
        for st in au.walk_stmts(fn.body):
            for x in au.walk_own(st):
                if not (isinstance(x, ast.BinOp) and isinstance(x.op, ast.Sub) and au.U(x.left).replace(" ", "") in ("self.n", "self.timegrid.restricted.T")
                        and isinstance(x.right, ast.Name)):
                    continue
                par = p.parent(x)
                is_count = (isinstance(par, ast.BinOp) and isinstance(par.op, ast.Mult)) or (isinstance(par, ast.Call) and au.method_name(par) in ("zeros", "ones", "full", "empty", "lil_matrix", "tile", "repeat"))
                if not is_count:
                    continue
                ds = [d for d in ctx.flow(fn).defs(x.right.id, st) if d.kind == "assign" and d.value is not None]
                key = (x.right.id, tuple(sorted(au.U(d.value) for d in ds)))
                if not ds or key in seen:
                    continue
                seen.add(key)

                def arms(e):
                    if isinstance(e, ast.IfExp):
                        return arms(e.body) + arms(e.orelse)
                    return [e]
                loose = [a for d in ds for a in arms(d.value) if au.const_num(a) is None and not (
                    isinstance(a, ast.Call) and au.method_name(a) == "min" and _horizon_bounded(au.U(a)))]
                n += 1
                ctx.ob("C06.n", fn, "number of rows %s" % au.short(x, 40), not loose,
                       "%s = %s can exceed the number of steps (a start ramp that is still in progress may last longer than the horizon): "
                       "%s is negative then - np.zeros raises 'negative dimensions are not allowed', and 'L' * n silently adds no letters while "
                       "the rows are sliced from an offset beyond the end" % (x.right.id, au.short(loose[0], 60) if loose else "", au.short(x, 30)),
                       node=st, ok_detail="offset clamped with min(.., number of steps)", key="rows from a clamped offset: %s" % fn.name)
    return n


rule("C06.r", "a restriction built as a single row (first-step rows of the start / shutdown / ramp logic) couples its variables on every path: "
              "when one coefficient is set unconditionally, a second one is not left to an if / elif chain without else - the row would pin one "
              "variable to the right-hand side on the remaining path (equality rows only: in a 'U' / 'L' row a single coefficient is a bound)", floor=2)
rule("C06.q", "the ramp limit of a step is the ramp rate times the step length, nothing else: the value handed to the ramp rows is built from "
              "self.ramp and the step length of the grid only - no further factor (a conversion between ramp_freq and the grid frequency re-reads "
              "`ramp` as 'per step of another frequency': with ramp_freq = 15 min on an hourly grid the output may change by 4 x ramp per step)", floor=1)
rule("C06.p", "what the set-up converts, its helpers use converted: when setup_optim_problem computes a local of the same name as an attribute "
              "kept from the constructor (durations and ramp lengths converted to grid steps, rates to volumes per step) and hands it to a helper, "
              "the helper does not go back to `self.<name>` - that is the value in the user's units (ramp_freq / main time unit)", floor=0,
     props=["C06", "C12"])


def _ramp_factors(ctx):
    p = ctx.p
    fn = p.fn_opt("CHPAsset.setup_optim_problem")
    if fn is None:
        ctx.ob("C06.q", "CHPAsset", "ramp limit", None, "CHPAsset.setup_optim_problem not found")
        return
    ff = ctx.flow(fn)
    # the argument bound to the parameter `ramp` of the ramp helper
    arg = None
    for st in au.walk_stmts(fn.body):
        for c in au.walk_own(st):
            if isinstance(c, ast.Call) and "ramp" in (au.method_name(c) or "") and (au.method_name(c) or "").startswith("_add_constraints"):
                a = au.arg_or_kw(c, 1, "ramp")
                if a is not None:
                    arg = (a, st)
    if arg is None:
        ctx.ob("C06.q", fn, "ramp limit", None, "the call that hands the ramp to the ramp rows was not found")
        return
    factors, seen = [], set()

    def collect(e, at, depth=0):
        if depth > 6:
            return
        if isinstance(e, ast.IfExp):
            collect(e.body, at, depth + 1)
            collect(e.orelse, at, depth + 1)
        elif isinstance(e, ast.BinOp) and isinstance(e.op, (ast.Mult, ast.Div)):
            collect(e.left, at, depth + 1)
            collect(e.right, at, depth + 1)
        elif isinstance(e, ast.Name):
            for d in ff.defs(e.id, at):
                if d.kind == "assign" and d.value is not None and id(d.node) not in seen:
                    seen.add(id(d.node))
                    collect(d.value, d.node, depth + 1)
        elif au.is_none(e) or au.const_num(e) == 1:
            pass
        else:
            factors.append(e)
    collect(arg[0], arg[1])
    extra = [f for f in factors if not (au.path(f) == "self.ramp" or (isinstance(f, ast.Subscript) and au.terminal(f.value) == "dt") or (isinstance(f, ast.Attribute) and f.attr == "dt"))]
    ctx.ob("C06.q", fn, "factors of the ramp limit", not extra if factors else None,
           "besides self.ramp and the step length the ramp limit carries the factor %s: 'the output changes by at most the ramp between consecutive "
           "steps' then holds for another ramp than the one given - with ramp_freq = '15min' on an hourly grid 4 x ramp per step (dispatch 4, 8, 10 with "
           "ramp 1), also in the first step relative to the last dispatch" % (au.short(extra[0], 70) if extra else ""), node=arg[1],
           ok_detail="self.ramp x step length")


def _shadowed_attrs(ctx):
    p = ctx.p
    from .serialization import self_attr_writes
    n = 0
    for ci in sorted(p.classes.values(), key=lambda c: c.name):
        if not p.is_subclass(ci, "CHPAsset"):
            continue
        setup = ci.methods.get("setup_optim_problem")
        init = None
        for c in p.mro(ci):
            if "__init__" in c.methods and init is None:
                init = c.methods["__init__"]
        if setup is None or init is None:
            continue
        kept = {a for a, _, _ in self_attr_writes(init)}
        local = set()
        for st in au.walk_stmts(setup.body):
            if isinstance(st, (ast.Assign, ast.AugAssign)):
                for t0 in au.stmt_targets(st):
                    local |= set(au.target_names(t0))
        shadow = kept & local
        if not shadow:
            continue
        for m in sorted(ci.methods.values(), key=lambda f: f.name):
            if m.name in ("__init__", "setup_optim_problem") or m.parent is not None:
                continue
            params = {q.name for q in m.params}
            for x in au.walk_local(m.node, include_self=False):
                if isinstance(x, ast.Attribute) and isinstance(x.ctx, ast.Load) and au.path(x) and au.path(x).startswith("self.") and x.attr in shadow \
                        and au.path(x) == "self." + x.attr:
                    n += 1
                    ctx.ob("C06.p", m, au.short(p.enclosing_stmt(x), 70), False,
                           "%s reads self.%s, the value as the user gave it (%s), although %s.setup_optim_problem computes a converted local `%s` "
                           "(grid steps / volume per step) for exactly this purpose%s: with ramp_freq or main time unit different from the grid "
                           "frequency the two differ - an hourly start ramp of 2 steps is 8 steps on a 15 min grid, the relief from the ramp limit covers "
                           "2 of them and the plant cannot start (infeasible)" % (
                               m.qualname, x.attr, "constructor units", ci.name, x.attr,
                               " and hands it over as parameter" if x.attr in params else ""), node=x,
                           key="%s reads self.%s" % (m.name, x.attr))
    if n == 0:
        ctx.ob("C06.p", "CHPAsset", "helpers use the converted locals", True, ok_detail="no helper reads an attribute that the set-up shadows with a converted local")


rule("C06.m", "an aggregated implication row (+1 on a slice of k boolean variables, -c on one boolean variable, >= 0: 'if y then all of the "
              "slice') has c <= k for every pass of the loop that builds it - checked at the first and the last pass, where slices are cut "
              "by the horizon", floor=1)


@analysis("chp", ["C06.a", "C06.b", "C06.c", "C06.h", "C06.i", "C06.k", "C06.m", "C06.n", "C06.p", "C06.q", "C06.r"])
def run(ctx):
    _ramp_factors(ctx)
    _shadowed_attrs(ctx)
    n_n = _duration_offsets(ctx)
    ctx.require(n_n >= 3, "fewer than 3 duration-driven offsets found in the CHP classes", rules=["C06.n"])
    _ramp_in_progress(ctx)
    _first_step_rows(ctx)
    n_h = _block_slices(ctx)
    ctx.require(n_h >= 1, "no block slice of the bound vectors found in the CHP classes", rules=['C06.h'])
    p = ctx.p
    chp = p.cls("CHPAsset")
    ev = lf.LinEval(_names_atom)
    # ================================================================= C06.a
    n = 0
    for fn in sorted(chp.methods.values(), key=lambda f: f.qualname):
        for st in au.walk_stmts(fn.body):
            if not (isinstance(st, ast.Assign) and len(st.targets) == 1 and isinstance(st.targets[0], ast.Subscript)):
                continue
            t = st.targets[0]
            if not (isinstance(t.slice, ast.Tuple) and len(t.slice.elts) == 2):
                continue
            col = t.slice.elts[1]
            k = _offset(col, "heat_idx")
            if k is None and isinstance(col, ast.Name):
                k = {col.id: 1}
                plain = True
            else:
                plain = False
            if k is None:
                continue
            # factor subscripts in the value: V[J] with V a plain name (a vector made on the restricted grid)
            subs = [x for x in au.walk_local(st.value) if isinstance(x, ast.Subscript) and isinstance(x.value, ast.Name)
                    and not isinstance(x.slice, ast.Slice) and au.const_str(x.slice) is None]
            if plain:
                # only columns addressed by a loop variable that also appears as a row index (diagonal blocks)
                row = t.slice.elts[0]
                if not (isinstance(row, ast.Name) and row.id == col.id) and not subs:
                    continue
            for s in subs:
                j = ev.ev(s.slice)
                if j is None:
                    continue
                if plain and set(j) - {lf.ONE} != set(k):
                    continue   # factor indexed by another loop's variable (ramp profiles): not a per-step factor of this column
                n += 1
                d = lf.add(k, j, -1)
                ok = (d == {})
                ctx.ob("C06.a", fn, au.short(st, 90), ok,
                       "the column belongs to step (%s) but the factor %s is taken at step (%s): virtual dispatch = power + factor * heat "
                       "is not the same linear form here as in the capacity rows - with a time-varying conversion factor the ramp "
                       "rows admit steps they should forbid (3 -> 10 with ramp 1)" % (lf.show(k), au.short(s, 40), lf.show(j)), node=st)
    ctx.require(n >= 6, "fewer than 6 indexed factor sites on heat columns found in CHPAsset", rules=['C06.a'])

    # ================================================================= C06.b
    fuel = chp.methods.get("_add_fuel_consumption")
    if fuel is None:
        cands = [m for m in chp.methods.values() if any(au.const_str(x) == "fuel" for x in au.walk_local(m.node)) and m.name != "__init__"
                 and any(isinstance(x, ast.Call) and au.method_name(x) == "concat" for x in au.walk_local(m.node))]
        fuel = cands[0] if cands else None
    ctx.require(fuel is not None, "the method that adds fuel rows to the mapping vanished", rules=['C06.b'])
    org = ctx.origins(fuel, values_only=True)
    blocks = []   # one per `frame = op.mapping[<var_name == literal> ...].copy()`
    cur = None
    for st in au.walk_stmts(fuel.body):
        if not isinstance(st, ast.Assign):
            continue
        if isinstance(st.targets[0], ast.Name) and isinstance(st.value, ast.Call) and au.method_name(st.value) == "copy":
            lits = [au.const_str(c.comparators[0]) for c in au.walk_local(st.value) if isinstance(c, ast.Compare)
                    and isinstance(c.left, ast.Subscript) and au.const_str(c.left.slice) == "var_name" and au.const_str(c.comparators[0])]
            if lits:
                cur = {"frame": st.targets[0].id, "sel": lits[0], "stmts": [], "node": st}
                blocks.append(cur)
                continue
        if cur is None:
            continue
        # branch index: innermost enclosing `if <name> == <int>` (selects the factor formula per node)
        b = None
        for anc in p.ancestors(st):
            if isinstance(anc, ast.If):
                for c in au.walk_local(anc.test):
                    if isinstance(c, ast.Compare) and isinstance(c.left, ast.Name) and au.const_num(c.comparators[0]) is not None and b is None:
                        # which arm are we in?
                        if any(st is x for x in au.walk_stmts(anc.body)):
                            b = au.const_num(c.comparators[0])
            if anc is fuel.node:
                break
        cur["stmts"].append((st, b))
    n_b = 0
    for blk in blocks:
        frame = blk["frame"]
        stores = {}
        for st, b in blk["stmts"]:
            if isinstance(st, ast.Assign) and isinstance(st.targets[0], ast.Subscript) and isinstance(st.targets[0].value, ast.Name) \
                    and st.targets[0].value.id == frame and au.const_str(st.targets[0].slice):
                stores.setdefault(au.const_str(st.targets[0].slice), []).append((st, b))
        sel = blk["sel"]
        # node
        node_st = stores.get("node", [])
        ok_node = bool(node_st) and all(any(au.const_str(x) == "fuel" for x in au.walk_local(s.value)) for s, _ in node_st)
        n_b += 1
        ctx.ob("C06.b", fuel, "rows for %s: node" % sel, ok_node,
               "the rows copied for %r are not moved to the fuel node (node index idx_nodes['fuel']): fuel is not drawn where it is "
               "balanced" % sel, node=blk["node"])
        if sel.startswith("bool"):
            ty = stores.get("type", [])
            ok_t = bool(ty) and all(au.const_str(s.value) == "d" for s, _ in ty)
            ctx.ob("C06.b", fuel, "rows for %s: type 'd'" % sel, ok_t,
                   "binary rows copied to the fuel node keep type 'i': nodal rows only sum type 'd' rows, so this consumption is "
                   "never balanced", node=blk["node"])
        for st, b in stores.get("disp_factor", []):
            want = FUEL_TABLE.get((sel, b)) or FUEL_TABLE.get((sel, None))
            if want is None:
                ctx.ob("C06.b", fuel, "rows for %s: factor %s" % (sel, au.short(st.value, 50)), None, "no table entry for this block")
                continue
            names = {x.id for x in org.nodes(st.value, st) if isinstance(x, ast.Name)}
            neg = au.sign_of(st.value) < 0
            div_ok = True
            if "fuel_efficiency" in want[0]:
                div_ok = any(isinstance(x, ast.BinOp) and isinstance(x.op, ast.Div) and "fuel_efficiency" in au.names_in(x.right)
                             for x in au.walk_local(st.value))
            ok = want[0] <= names and neg and div_ok
            ctx.ob("C06.b", fuel, "rows for %s%s: factor" % (sel, "" if b is None else " (node %s)" % b), ok,
                   "factor %s; documented: %s, drawn from the fuel node (negative)%s" % (
                       au.short(st.value, 60), want[1], "" if div_ok else " - fuel efficiency must divide"), node=st)
    ctx.require(n_b >= 3, "fewer than 3 fuel row blocks found", rules=['C06.b'])

    # ================================================================= C06.c
    sd = None
    for m in chp.methods.values():
        if "start" in m.name and "shutdown" in m.name and m.name != "__init__":
            sd = m
    ctx.require(sd is not None, "the method defining start / shutdown rows vanished", rules=['C06.c'])

    def triples(loop):
        out = set()
        lv = set(au.target_names(loop.target))
        for st in loop.body:
            if isinstance(st, ast.Assign) and isinstance(st.targets[0], ast.Subscript) and isinstance(st.targets[0].slice, ast.Tuple):
                col = st.targets[0].slice.elts[1]
                for base in ("on_idx", "start_idx", "shutdown_idx"):
                    k = _offset(col, base)
                    if k is not None:
                        off = {("t" if a in lv else a): v for a, v in k.items()}
                        c = au.const_num(st.value)
                        out.add((base, tuple(sorted((a, str(v)) for a, v in off.items())), c))
        return out

    pairs = []
    for st in au.walk_stmts(sd.body):
        if isinstance(st, ast.If) and st.orelse and "include_shutdown_variables" in au.names_in(st.test):
            l1 = [x for x in st.body if isinstance(x, ast.For)]
            l2 = [x for x in st.orelse if isinstance(x, ast.For)]
            if l1 and l2:
                neg = au.strip_not(st.test)[1] is False
                without, with_ = (l1[0], l2[0]) if neg else (l2[0], l1[0])
                pairs.append((st, triples(without), triples(with_)))
    if not pairs:
        ctx.ob("C06.c", sd, "start definitions", None, "the two sibling loops (with / without shutdown variables) were not found")
    for st, a, b in pairs:
        shared_b = {x for x in b if x[0] != "shutdown_idx"}
        ok = bool(a) and a == shared_b
        ctx.ob("C06.c", sd, "start definition rows", ok,
               "without shutdown variables the row has %s, with shutdown variables %s (ignoring the shutdown term): the two "
               "definitions of a start disagree" % (sorted(a), sorted(shared_b)), node=st,
               ok_detail="on[t+1] - on[t] - start[t+1] in both")

    # ================================================================= C06.m aggregated implication rows
    from ..linforms import LinEval, add as ladd, const_of
    n_m = 0
    for fn in sorted(p.all_functions(), key=lambda f: f.qualname):
        if fn.cls is None or not p.is_subclass(fn.cls, "Asset") or fn.parent is not None:
            continue
        for lp in [s0 for s0 in au.walk_stmts(fn.body) if isinstance(s0, ast.For) and isinstance(s0.target, ast.Name)
                   and isinstance(s0.iter, ast.Call) and au.method_name(s0.iter) == "range" and s0.iter.args]:
            t = lp.target.id
            ones, negs = [], []
            for st in lp.body:
                if not (isinstance(st, ast.Assign) and len(st.targets) == 1 and isinstance(st.targets[0], ast.Subscript)
                        and isinstance(st.targets[0].slice, ast.Tuple) and len(st.targets[0].slice.elts) == 2):
                    continue
                tg = st.targets[0]
                r, col = tg.slice.elts
                if isinstance(col, ast.Slice) and col.lower is not None and col.upper is not None and au.const_num(st.value) == 1:
                    ones.append((au.U(tg.value), au.U(r), col, st))
                elif not isinstance(col, ast.Slice) and isinstance(st.value, ast.UnaryOp) and isinstance(st.value.op, ast.USub):
                    negs.append((au.U(tg.value), au.U(r), st.value.operand, st))
            for m1, r1, col, st1 in ones:
                for m2, r2, k, st2 in negs:
                    if m1 != m2 or r1 != r2:
                        continue
                    n_m += 1
                    # the loop bounds
                    ra = lp.iter.args
                    first = ra[0] if len(ra) >= 2 else ast.Constant(value=0)
                    stop = ra[1] if len(ra) >= 2 else ra[0]
                    atom = lambda e: (au.U(e) if isinstance(e, (ast.Attribute, ast.Subscript)) or (isinstance(e, ast.Name) and e.id != t) else None)
                    # facts on k from the guards around the loop:  k > c  /  k >= c
                    kmin = None
                    for a0 in p.ancestors(lp):
                        if isinstance(a0, ast.If):
                            for cpr in au.walk_local(a0.test):
                                if isinstance(cpr, ast.Compare) and len(cpr.ops) == 1 and au.U(cpr.left) == au.U(k) and au.const_num(cpr.comparators[0]) is not None:
                                    c0 = au.const_num(cpr.comparators[0])
                                    if isinstance(cpr.ops[0], ast.Gt):
                                        kmin = max(kmin or 0, c0 + 1)
                                    elif isinstance(cpr.ops[0], ast.GtE):
                                        kmin = max(kmin or 0, c0)
                    verdicts = []
                    for label, tval in (("first", LinEval(atom).ev(first)), ("last", ladd(LinEval(atom).ev(stop), {"1": 1}, -1))):
                        if tval is None:
                            verdicts.append((label, None, ""))
                            continue
                        le = LinEval(atom, {t: tval})
                        ups = list(col.upper.args) if isinstance(col.upper, ast.Call) and au.method_name(col.upper) == "min" else [col.upper]
                        # an offset added around min():  a + min(x, y)
                        if isinstance(col.upper, ast.BinOp) and isinstance(col.upper.op, ast.Add):
                            for side, other in ((col.upper.left, col.upper.right), (col.upper.right, col.upper.left)):
                                if isinstance(side, ast.Call) and au.method_name(side) == "min":
                                    ups = [ast.BinOp(left=other, op=ast.Add(), right=a1) for a1 in side.args]
                        lo = le.ev(col.lower)
                        kf = le.ev(k)
                        worst = None
                        for u0 in ups:
                            w = ladd(le.ev(u0), lo, -1)            # width of the slice through this arm of min()
                            d = ladd(w, kf, -1) if (w is not None and kf is not None) else None      # width - k
                            if d is None:
                                worst = "?"
                                continue
                            cst = const_of(d)
                            if cst is not None:
                                if cst < 0:
                                    worst = "neg"
                                continue
                            # width - k = const - k with k >= kmin
                            rest = {a1: v for a1, v in d.items() if a1 != "1"}
                            if set(rest) == {au.U(k)} and rest[au.U(k)] == -1 and kmin is not None and d.get("1", 0) - kmin < 0:
                                worst = "neg"
                            elif worst != "neg":
                                worst = "?"
                        verdicts.append((label, worst, au.short(col.upper, 40)))
                    bad = [v for v in verdicts if v[1] == "neg"]
                    unk = [v for v in verdicts if v[1] == "?" or v[1] is None and v[2] == ""]
                    ok = False if bad else (None if unk else True)
                    ctx.ob("C06.m", fn, "%s[%s, %s] = 1 against -%s" % (m1, r1, au.short(col, 40), au.U(k)), ok,
                           "in the %s pass of the loop the slice %s:%s is shorter than %s (the horizon cuts it), but the coefficient on the single "
                           "variable stays %s: the row can only hold with that variable at 0 - a start in the last steps of the horizon, which "
                           "the per-step rows allow (the unit simply stays on to the end), becomes infeasible" % (
                               bad[0][0] if bad else "", au.short(col.lower, 30), au.short(col.upper, 40), au.U(k), au.U(k)) if bad else
                           "the width of the slice could not be compared with the coefficient", node=st2)
    ctx.ob("C06.m", "package", "aggregated implication rows", True, ok_detail="%d row pattern(s) found" % n_m)


    # ================================================================= C06.r a one-row restriction couples two variables on every path
    n_rows = 0
    for fn in sorted(p.all_functions(), key=lambda f: f.qualname):
        if fn.cls is None or not p.is_subclass(fn.cls, "CHPAsset") or fn.parent is not None:
            continue
        for body, guards in au.stmt_lists(fn.body):
            for i, st in enumerate(body):
                if not (isinstance(st, ast.Assign) and isinstance(st.targets[0], ast.Name) and isinstance(st.value, ast.Call)
                        and au.method_name(st.value) == "lil_matrix" and st.value.args and isinstance(st.value.args[0], ast.Tuple)
                        and st.value.args[0].elts and au.const_num(st.value.args[0].elts[0]) == 1):
                    continue
                name = st.targets[0].id
                sure, maybe = 0, 0
                for s2 in body[i + 1:]:
                    if isinstance(s2, ast.Assign) and isinstance(s2.targets[0], ast.Name) and s2.targets[0].id == name:
                        break
                    if isinstance(s2, ast.Assign) and isinstance(s2.targets[0], ast.Subscript) and au.base_name(s2.targets[0]) == name:
                        sure += 1
                    elif isinstance(s2, (ast.For, ast.While)) and any(isinstance(x, ast.Assign) and isinstance(x.targets[0], ast.Subscript)
                                                                       and au.base_name(x.targets[0]) == name for x in au.walk_stmts(s2.body)):
                        sure += 1   # a loop over steps fills further coefficients
                    elif isinstance(s2, ast.If):
                        arms, cur, complete = [], s2, False
                        while True:
                            arms.append(cur.body)
                            if len(cur.orelse) == 1 and isinstance(cur.orelse[0], ast.If):
                                cur = cur.orelse[0]
                                continue
                            if cur.orelse:
                                arms.append(cur.orelse)
                                complete = True
                            break
                        stores = [any(isinstance(x, ast.Assign) and isinstance(x.targets[0], ast.Subscript) and au.base_name(x.targets[0]) == name
                                      for x in au.walk_stmts(a)) for a in arms]
                        if any(stores):
                            if complete and all(stores):
                                sure += 1
                            else:
                                maybe += 1
                if sure + maybe == 0:
                    continue
                # only equality rows: a single coefficient in a 'U' / 'L' row is a bound, in an 'S' row it pins the variable
                letter = None
                for s2 in body[i + 1:]:
                    if isinstance(s2, ast.AugAssign) and isinstance(s2.target, ast.Attribute) and s2.target.attr == "cType":
                        letter = au.const_str(s2.value)
                        break
                if letter != "S":
                    continue
                n_rows += 1
                ctx.ob("C06.r", fn, "one-row restriction %s (line offset %d in its block)" % (name, i), sure >= 2 or maybe == 0,
                       "the row %s gets one coefficient for certain and a second one only on some paths (if / elif without else): on the remaining path "
                       "the row fixes a single variable - e.g. on[0] = 1 for a plant that has run its minimum time and may well be off in the first "
                       "step (plant forced on: value 897 instead of 997)" % name, node=st, trivial=(maybe == 0))
    ctx.require(n_rows >= 2, "fewer than 2 one-row equality restrictions found in the CHP classes", rules=["C06.r"])
