"""E3 / analysis 16 - index-space typing (C15.a, C13.b, C04.a index part, C07.k).

The formulation code moves between index spaces and the recurring bug is to use an index of one space in another:

  VAR   per-variable carriers  .c .l .u .x (and locals concatenated from them); labels: mapping.index, key of iterrows()
  MAP   positional rows of a mapping frame: boolean masks built from comparisons of mapping columns
  ROW   .b .cType
  TIME  full-grid arrays  timegrid.I/.dt/.Dt/.timepoints/.discount_factors, np.zeros(timegrid.T); labels: 'time_step' values,
        restricted.I values, elements of I_minor_in_major
  TIMEr the same attributes on `.restricted`, vectors made on the restricted grid (make_vector, np.ones(restricted.T));
        addressed by *position* in the restricted grid, never by a time-step label

Rule X: ARR(S)[k] where k is a mask / label of a *definite* other space is a violation.  Everything the evaluator cannot
type is Top and is not reported.
"""
from __future__ import annotations
import ast
from .. import astutil as au
from ..tables import rule, VAR_CARRIERS, TIME_CARRIERS
from . import analysis
from ..carriers import local_roles, role

rule("C15.a", "in the fix-window branch the selector and the pinned vectors live in the same index space (variable labels, "
              "not a per-row mask) for any number of mapping rows per variable", floor=1)
rule("C15.f", "a variable is pinned when ANY of its mapping rows lies in the window: window membership is tested on every row "
              "of the mapping, not on a frame reduced to one row per variable", floor=1)
rule("C13.b", "in the minor-grid extension the arrays of the restricted grid are addressed by position in that grid, not by a "
              "variable label", floor=1)
rule("C04.a", "cash-flow / report extraction indexes per-variable vectors by variable label and per-step arrays by time-step "
              "label, after de-duplicating the mapping by index; the sign agrees with the objective", floor=4)
rule("C07.k", "an index of one space (variable / mapping row / time step / restricted position) never subscripts an array of "
              "another space", floor=6, props=["C07", "C08"])
rule("C08.f", "a sum of step lengths over the steps of selected mapping rows first reduces the rows to distinct steps (rows are not "
              "steps: two variables per step would count every step twice)", floor=1, props=["C08", "C02"])

rule("C04.j", "the DCF table of the report holds what the assets' dcf() returned, nothing else: every store into it (also through an alias such as "
              "`for table in (dcfs, disp)`) takes its value from a dcf() call - no rescaling afterwards (per sample, per step ...), so that the table "
              "adds up to the value", floor=1)
rule("C04.i", "the cash flows of an asset are read off the problem: every implementation of dcf() computes -c[i] x[i] from the cost vector of the "
              "problem it is given - not a second formula from the asset's own parameters and the grid (it would have to repeat the discounting "
              "with the asset's own rate, the 1 / (samples + 1) of an SLP ...: the value is -c'x, the cash flows then no longer add up to it)", floor=1)
rule("C05.t", "the report of a storage selects its rows by ownership: asset == self.name (and type 'd'), a conjunction - no alternative (`|`) "
              "on other columns (the original name kept for wrapped assets, a prefix of the variable name): names are unique within one "
              "portfolio only, a wrapped asset of the same name would be counted in", floor=1, props=["C05", "C09"])
rule("C08.n", "coefficients of a restriction row are accumulated per variable over the mapping rows it covers (a variable may have several rows: "
              "coarser frequency, transport): item by item, or with an accumulating construct (np.add.at, bincount, groupby sum) - `row[idx] += w` "
              "with an *array* of variable numbers adds every distinct number once (numpy buffers the fancy-index +=): the shares of a coarse "
              "variable do not add up to one", floor=1, props=["C08", "C13", "C02"])
rule("C15.n", "the previous solution handed to a fixed window may be longer than the problem (the split set-up passes the rest of x to every "
              "interval, an SLP solution carries the copies of the future variables): it is addressed by variable *label*, or cut to the number of "
              "variables before a boolean mask of that length is applied to it", floor=1)
rule("C08.m", "the period of a take restriction is the period the user gave: start and end of the dictionary handed to define_restr are not "
              "re-written from the grid or the asset's window (a period cut at the end of the contract or the horizon is prorated over the "
              "shorter span: the quantity inside the horizon is no longer value x covered / (end - start))", floor=2)
rule("C08.g", "a take volume is prorated by (covered step lengths) / (calendar length of the whole period): the denominator comes from "
              "the period's own start and end, never from the grid (which only knows the part inside the horizon)", floor=1)

rule("C08.k", "take restrictions collect the mapping rows of *every* step of the grid inside the period: the loop runs over the grid's own time "
              "points (an asset with a coarser frequency has one row per fine step, each with its share of the coarse variable), not over the "
              "restricted - possibly coarser - ones", floor=1, props=["C08", "C13"])

VAR, MAP, ROW, TIME, TIMER, VARD = "VAR", "MAP", "ROW", "TIME", "TIMEr", "VARd"
# what may index what
OK_INDEX = {
    (VAR, ("label", VAR)), (TIME, ("label", TIME)), (MAP, ("mask", MAP)), (MAP, ("pos", MAP)),
    (TIMER, ("pos", TIMER)), (TIMER, ("mask", TIMER)), (TIME, ("pos", TIME)), (TIME, ("mask", TIME)), (ROW, ("mask", ROW)), (VAR, ("mask", VAR)),
    # VARd = rows of a mapping de-duplicated by index: one row per variable in first-appearance order (= label order for
    # every frame eaopack builds: blocks are appended variable by variable)
    (VAR, ("mask", VARD)), (VARD, ("mask", VARD)),
}
PASS_THROUGH_FUNCS = {"hstack", "concatenate", "asarray", "array", "copy", "tile", "astype", "tolist", "to_list", "unique", "flatten",
                      "ravel", "squeeze", "deepcopy", "list", "sorted", "int", "append", "values", "to_numpy", "cumsum", "cumprod",
                      "abs", "negative", "nan_to_num"}


def _j(a, b):
    if a is None or b is None:
        return None if (a is None and b is None) else (a or b) if False else None
    return a if a == b else None


class Typer:
    def __init__(self, ctx, fn):
        self.ctx, self.fn = ctx, fn
        self.ff = ctx.flow(fn)
        self.p = ctx.p
        self._memo = {}
        # locals that become a problem's mapping: OptimProblem(..., mapping=X) / <obj>.mapping = X / the helper's result
        self.mapping_locals = set()
        for n in au.walk_local(fn.node, include_self=False):
            if isinstance(n, ast.Call):
                v = au.kwarg(n, "mapping")
                if isinstance(v, ast.Name):
                    self.mapping_locals.add(v.id)
            elif isinstance(n, ast.Assign) and isinstance(n.value, ast.Name) and any(isinstance(t, ast.Attribute) and t.attr == "mapping" for t in n.targets):
                self.mapping_locals.add(n.value.id)

    # ---- frames
    def is_mapping(self, e, at, depth=0) -> bool:
        if depth > 8:
            return False
        if isinstance(e, ast.Attribute):
            if e.attr == "mapping":
                return True
            if e.attr in ("loc", "iloc", "T"):
                return self.is_mapping(e.value, at, depth + 1)
            return False
        if isinstance(e, ast.Subscript):
            # frame[mask] / frame.loc[mask, :] are frames; frame['col'] is a column
            if au.const_str(e.slice) is not None:
                return False
            return self.is_mapping(e.value, at, depth + 1)
        if isinstance(e, ast.Call):
            m = au.method_name(e)
            if m in ("copy", "reset_index", "drop", "rename", "sort_values", "sort_index") and isinstance(e.func, ast.Attribute):
                return self.is_mapping(e.func.value, at, depth + 1)
            if m in ("DataFrame", "deepcopy", "merge", "concat") and e.args:
                a0 = e.args[0]
                if isinstance(a0, (ast.List, ast.Tuple)):
                    return any(self.is_mapping(x, at, depth + 1) for x in a0.elts)
                return self.is_mapping(a0, at, depth + 1)
            return False
        if isinstance(e, ast.Name):
            if e.id in self.mapping_locals:
                return True
            for d in self.ff.defs(e.id, at):
                if d.kind == "param" and d.name in ("mapping", "map"):
                    return True
                if d.kind == "assign" and d.value is not None and self.is_mapping(d.value, d.node, depth + 1):
                    return True
                for pd_ in d.prev:
                    if pd_.kind == "param" and pd_.name in ("mapping", "map"):
                        return True
                    if pd_.kind == "assign" and pd_.value is not None and self.is_mapping(pd_.value, pd_.node, depth + 1):
                        return True
        return False

    def is_dedup(self, e, at, depth=0) -> bool:
        """frame[~frame.index.duplicated(..)] (possibly through locals / .copy() / DataFrame(..))."""
        if depth > 6:
            return False
        if isinstance(e, ast.Subscript) and au.const_str(e.slice) is None:
            for n in au.walk_local(e.slice):
                if isinstance(n, ast.Call) and au.method_name(n) == "duplicated" and isinstance(n.func, ast.Attribute) \
                        and au.terminal(n.func.value) == "index":
                    return True
            return self.is_dedup(e.value, at, depth + 1)
        if isinstance(e, ast.Attribute) and e.attr in ("loc", "iloc"):
            return self.is_dedup(e.value, at, depth + 1)
        if isinstance(e, ast.Call) and au.method_name(e) in ("copy", "DataFrame") :
            src = e.func.value if (au.method_name(e) == "copy" and isinstance(e.func, ast.Attribute)) else (e.args[0] if e.args else None)
            return src is not None and self.is_dedup(src, at, depth + 1)
        if isinstance(e, ast.Name):
            ds = [d for d in self.ff.defs(e.id, at) if d.kind == "assign" and d.value is not None]
            return bool(ds) and all(self.is_dedup(d.value, d.node, depth + 1) for d in ds)
        return False

    def index_state(self, e, at) -> str:
        """'labels' (the frame's index carries variable labels) or 'positions' (reset_index made it 0..rows-1)."""
        if isinstance(e, ast.Name):
            events = []
            todo = list(self.ff.defs(e.id, at))
            seen = set()
            while todo:
                d = todo.pop()
                if id(d) in seen:
                    continue
                seen.add(id(d))
                todo.extend(d.prev)
                v = d.value
                if d.kind == "store" and isinstance(v, ast.Call):
                    m = au.method_name(v)
                    if m == "reset_index":
                        events.append((d.node.lineno, "positions"))
                    elif m == "set_index":
                        events.append((d.node.lineno, "labels"))
                elif d.kind == "assign" and isinstance(v, ast.Call):
                    m = au.method_name(v)
                    if m == "reset_index":
                        events.append((d.node.lineno, "positions"))
                    elif m in ("set_index", "merge"):
                        events.append((d.node.lineno, "labels" if m == "set_index" else "positions"))
                    elif m == "copy" and isinstance(v.func, ast.Attribute):
                        events.append((d.node.lineno - 0.5, self.index_state(v.func.value, d.node)))
            if events:
                return sorted(events)[-1][1]
        return "labels"

    # ---- types: ('arr', space, elem) | ('idx', kind, space) | None
    def typ(self, e, at, depth=0):
        if e is None or depth > 14:
            return None
        key = (id(e), id(at))
        if key in self._memo:
            return self._memo[key]
        self._memo[key] = None
        t = self._typ(e, at, depth)
        self._memo[key] = t
        return t

    def _typ(self, e, at, depth):
        if isinstance(e, ast.Attribute):
            chain = au.attr_chain(e)
            if e.attr in ("values",) :
                return self.typ(e.value, at, depth + 1)
            if e.attr == "index" and self.is_mapping(e.value, at):
                if self.index_state(e.value, at) == "labels":
                    return ("idx", "label", VAR)
                return ("idx", "pos", MAP)
            if chain:
                if "restricted" in chain[:-1] and (e.attr in TIME_CARRIERS or e.attr == "I_minor_in_major"):
                    if e.attr == "I":
                        return ("arr", TIMER, ("idx", "label", TIME))
                    if e.attr == "I_minor_in_major":
                        return ("arr", TIMER, ("arr", None, ("idx", "label", TIME)))
                    return ("arr", TIMER, None)
                if e.attr in TIME_CARRIERS and len(chain) >= 2 and (chain[-2] in ("timegrid", "ref_timegrid") or chain[-2].startswith("timegrid")):
                    if e.attr == "I":
                        return ("arr", TIME, ("idx", "label", TIME))
                    return ("arr", TIME, None)
                if e.attr in VAR_CARRIERS + ("x",) and len(chain) >= 2 and chain[0] not in ("np", "pd", "sp"):
                    return ("arr", VAR, None)
                if e.attr in ("b", "cType") and len(chain) >= 2 and chain[0] not in ("np", "pd", "sp"):
                    return ("arr", ROW, None)
            if e.attr == "time_step":          # r.time_step
                return ("idx", "label", TIME)
            return None
        if isinstance(e, ast.Subscript):
            c = au.const_str(e.slice)
            if c is not None:
                if c == "time_step":
                    return ("idx", "label", TIME)   # column of a frame / field of a row
                if c == "x" and isinstance(e.value, ast.Name) and "fix" in e.value.id:
                    return ("arr", VAR, None)
                if c in ("index", "index_assets") :
                    return ("idx", "label", VAR)
                return None
            if isinstance(e.slice, ast.Tuple) and e.slice.elts and au.const_str(e.slice.elts[-1]) == "time_step":
                return ("idx", "label", TIME)       # frame.loc[mask, 'time_step']
            base = self.typ(e.value, at, depth + 1)
            k = self.typ(e.slice, at, depth + 1)
            if base and base[0] == "arr":
                if k and k[0] == "idx" and k[1] in ("mask", "label") or isinstance(e.slice, ast.Slice):
                    return base                     # subset keeps the space (positions are renumbered: conservative)
                return base[2]                      # one element
            if base and base[0] == "idx":
                return base                         # labels[mask] are labels
            return None
        if isinstance(e, ast.Compare):
            for s in [e.left] + list(e.comparators):
                if self._is_map_column(s, at):
                    return ("idx", "mask", VARD if self._col_of_dedup(s, at) else MAP)
                ts = self.typ(s, at, depth + 1)
                if ts and ts[0] == "arr" and ts[1] in (TIME, TIMER):
                    return ("idx", "mask", ts[1])
            return None
        if isinstance(e, ast.BinOp) and isinstance(e.op, (ast.BitAnd, ast.BitOr)):
            l, r = self.typ(e.left, at, depth + 1), self.typ(e.right, at, depth + 1)
            for t in (l, r):
                if t and t[0] == "idx" and t[1] == "mask":
                    return t
            return None
        if isinstance(e, ast.UnaryOp) and isinstance(e.op, (ast.Invert, ast.Not)):
            return self.typ(e.operand, at, depth + 1)
        if isinstance(e, ast.BinOp) and isinstance(e.op, (ast.Mult, ast.Div, ast.Add, ast.Sub)):
            l, r = self.typ(e.left, at, depth + 1), self.typ(e.right, at, depth + 1)
            arrs = [t for t in (l, r) if t and t[0] == "arr"]
            if len(arrs) == 1 or (len(arrs) == 2 and arrs[0][1] == arrs[1][1]):
                return ("arr", arrs[0][1], None)
            return None
        if isinstance(e, ast.Call):
            m = au.method_name(e)
            f = e.func
            if m == "isin" and isinstance(f, ast.Attribute) and self._is_map_column(f.value, at):
                return ("idx", "mask", VARD if self._col_of_dedup(f.value, at) else MAP)
            if m in ("isnull", "notnull", "isna", "notna", "duplicated") and isinstance(f, ast.Attribute):
                if self._is_map_column(f.value, at) or (isinstance(f.value, ast.Attribute) and f.value.attr == "index" and self.is_mapping(f.value.value, at)):
                    return ("idx", "mask", MAP)
            if m in ("zeros", "ones", "empty", "full") and e.args:
                return self._shape_type(e.args[0], at, depth)
            if m in PASS_THROUGH_FUNCS:
                srcs = []
                if isinstance(f, ast.Attribute) and au.dotted(f.value) not in ("np", "pd", "sp", "numpy", "copy"):
                    srcs.append(f.value)
                for a in e.args[:1]:
                    if isinstance(a, (ast.Tuple, ast.List)):
                        srcs.extend(a.elts)
                    else:
                        srcs.append(a)
                ts = [self.typ(s, at, depth + 1) for s in srcs]
                ts = [t for t in ts if t]
                if ts and all(t[:2] == ts[0][:2] for t in ts):
                    return ts[0]
                return None
            if m == "int" and e.args:
                return self.typ(e.args[0], at, depth + 1)
            # eaopack callee: join of its return types
            targets = self.p.resolve_call(e, self.fn)
            if len(targets) == 1 and depth < 6 and targets[0].name in ("make_vector",):
                return ("arr", TIMER, None)
            return None
        if isinstance(e, ast.Name):
            out = "unset"
            for d in self.ff.defs(e.id, at):
                t = self._def_type(d, depth)
                if out == "unset":
                    out = t
                elif out != t:
                    # partial knowledge is dropped: only definite types are used
                    out = None
            return None if out == "unset" else out
        if isinstance(e, ast.IfExp):
            a, b = self.typ(e.body, at, depth + 1), self.typ(e.orelse, at, depth + 1)
            return a if a == b else None
        return None

    def _shape_type(self, shape, at, depth):
        s = shape.elts[0] if isinstance(shape, ast.Tuple) and shape.elts else shape
        # np.zeros(self.timegrid.T) / np.ones(T) with T = restricted.T
        paths = set()
        for n in self.ctx.origins(self.fn, values_only=True).nodes(s, at):
            c = au.attr_chain(n) if isinstance(n, ast.Attribute) else None
            if c and c[-1] == "T":
                paths.add(TIMER if "restricted" in c else TIME)
        if len(paths) == 1 and not isinstance(shape, ast.Tuple):
            return ("arr", next(iter(paths)), None)
        return None

    def _is_map_column(self, e, at) -> bool:
        if isinstance(e, ast.Subscript) and au.const_str(e.slice) is not None and self.is_mapping(e.value, at):
            return True
        if isinstance(e, ast.Attribute) and e.attr in ("values",):
            return self._is_map_column(e.value, at)
        if isinstance(e, ast.Call) and au.method_name(e) in ("astype",) and isinstance(e.func, ast.Attribute):
            return self._is_map_column(e.func.value, at)
        return False

    def _col_of_dedup(self, e, at) -> bool:
        while isinstance(e, (ast.Attribute, ast.Call)):
            e = e.value if isinstance(e, ast.Attribute) else (e.func.value if isinstance(e.func, ast.Attribute) else None)
            if e is None:
                return False
        return isinstance(e, ast.Subscript) and self.is_dedup(e.value, at)

    def _def_type(self, d, depth):
        if d.kind == "assign":
            return self.typ(d.value, d.node, depth + 1)
        if d.kind == "aug":
            return None
        if d.kind in ("for", "unpack") and d.value is not None:
            it = d.value
            if isinstance(it, ast.Call) and au.method_name(it) == "iterrows" and isinstance(it.func, ast.Attribute):
                if d.index == (0,) and self.is_mapping(it.func.value, d.node):
                    st = self.index_state(it.func.value, d.node)
                    return ("idx", "label", VAR) if st == "labels" else ("idx", "pos", MAP)
                return None
            if isinstance(it, ast.Call) and au.method_name(it) == "enumerate" and it.args:
                if d.index == (0,):
                    t = self.typ(it.args[0], d.node, depth + 1)
                    if t and t[0] == "arr":
                        return ("idx", "pos", t[1])
                    return None
                if d.index == (1,):
                    t = self.typ(it.args[0], d.node, depth + 1)
                    return t[2] if (t and t[0] == "arr") else (t if (t and t[0] == "idx") else None)
                return None
            if d.kind == "for" and d.index == ():
                t = self.typ(it, d.node, depth + 1)
                if t and t[0] == "arr":
                    return t[2]
                if t and t[0] == "idx":
                    return t
            return None
        if d.kind == "param":
            return None
        return None


def _describe(t):
    if t is None:
        return "Top"
    if t[0] == "arr":
        return "array over %s" % t[1]
    return "%s of %s" % ({"label": "label(s)", "mask": "boolean mask", "pos": "position(s)"}[t[1]], t[2])


def _rule_for(fn) -> str:
    q = fn.qualname
    if q.endswith("__extend_mapping_to_minor_grid__"):
        return "C13.b"
    if q in ("Asset.dcf", "Storage.fill_level", "io.extract_output"):
        return "C04.a"
    return "C07.k"


@analysis("spaces", ["C15.a", "C15.f", "C13.b", "C04.a", "C07.k", "C08.f", "C08.g", "C08.k", "C08.m", "C15.n", "C08.n", "C04.i", "C05.t", "C04.j"])
def run(ctx):
    p = ctx.p
    counts = {}
    for fn in sorted(p.all_functions(), key=lambda f: f.qualname):
        if fn.parent is not None:
            continue
        ty = Typer(ctx, fn)
        for st in au.walk_stmts(fn.body):
            for n in au.walk_own(st):
                if not isinstance(n, ast.Subscript) or au.const_str(n.slice) is not None or isinstance(n.slice, ast.Slice):
                    continue
                base = ty.typ(n.value, st)
                if not base or base[0] != "arr" or base[1] is None:
                    continue
                k = ty.typ(n.slice, st)
                if not k or k[0] != "idx":
                    continue
                rid = _rule_for(fn)
                # the fix-window branch of the portfolio: sites under `if fix_time_window is not None`
                if fn.qualname == "Portfolio.setup_optim_problem":
                    for anc in p.ancestors(n):
                        if isinstance(anc, ast.If) and "fix_time_window" in au.names_in(anc.test):
                            rid = "C15.a"
                ok = (base[1], (k[1], k[2])) in OK_INDEX
                counts[rid] = counts.get(rid, 0) + 1
                ctx.ob(rid, fn, au.short(n, 90), ok,
                       "%s is an %s but is subscripted with a %s: the two index spaces only coincide by accident (one mapping row "
                       "per variable, one variable per step, window starting at step 0)" % (au.short(n.value, 50), _describe(base), _describe(k)),
                       node=n, ok_detail="%s [ %s ]" % (_describe(base), _describe(k)))
    # ---------------------------------------------------------------- C08.f sums over steps of rows
    n_f = 0
    for fn in sorted(p.all_functions(), key=lambda f: f.qualname):
        if fn.parent is not None:
            continue
        ty2 = None
        for st in au.walk_stmts(fn.body):
            for n in au.walk_own(st):
                if isinstance(n, ast.Call) and au.method_name(n) == "sum" and isinstance(n.func, ast.Attribute) and isinstance(n.func.value, ast.Subscript):
                    sub = n.func.value
                    ty2 = ty2 or Typer(ctx, fn)
                    base = ty2.typ(sub.value, st)
                    if not (base and base[0] == "arr" and base[1] == TIME):
                        continue
                    # do the labels come from the rows of a mapping?
                    idx_nodes = list(au.walk_local(sub.slice))
                    from_rows = any(isinstance(x, ast.Subscript) and ((au.const_str(x.slice) == "time_step") or
                                    (isinstance(x.slice, ast.Tuple) and x.slice.elts and au.const_str(x.slice.elts[-1]) == "time_step")) for x in idx_nodes)
                    if not from_rows:
                        continue
                    n_f += 1
                    dedup = any(isinstance(x, ast.Call) and au.method_name(x) in ("unique", "drop_duplicates", "set") for x in idx_nodes)
                    ctx.ob("C08.f", fn, au.short(n, 90), dedup,
                           "step lengths are summed over the time_step entries of the selected mapping *rows*; with two variables per step "
                           "(buy/sell spread) or several rows per variable every covered step is counted once per row, so the prorated "
                           "take volume is a multiple of the documented one", node=n)
                    # ---- C08.g: what is the covered duration divided by?
                    top = n
                    while isinstance(p.parent(top), (ast.BinOp, ast.UnaryOp)):
                        top = p.parent(top)
                    divs = []            # divisions on the multiplicative spine of the product (not inside a denominator)
                    todo = [top]
                    while todo:
                        x = todo.pop()
                        if isinstance(x, ast.BinOp) and isinstance(x.op, ast.Mult):
                            todo += [x.left, x.right]
                        elif isinstance(x, ast.BinOp) and isinstance(x.op, ast.Div):
                            if not any(y is n for y in au.walk_local(x.right)):
                                divs.append(x)
                            todo.append(x.left)
                    org_v = ctx.origins(fn, values_only=True)
                    for d in divs:
                        nodes = org_v.nodes(d.right, st)
                        grid = [x for x in nodes if isinstance(x, ast.Attribute) and x.attr in TIME_CARRIERS + ("T", "restricted")]
                        span = any(isinstance(x, ast.BinOp) and isinstance(x.op, ast.Sub) for x in nodes)
                        ctx.ob("C08.g", fn, "prorated by / %s" % au.short(d.right, 60), (not grid) and span if (grid or span) else None,
                               "the volume of a take period is divided by %s, a quantity taken from the grid: the grid only contains the part of "
                               "the period inside the horizon, so a period that sticks out of the horizon keeps its full volume instead of the "
                               "share of the covered duration (max_take 100 over [Jan 6, Jan 16) on a horizon ending Jan 11: 100 instead of 50)"
                               % au.short(grid[0], 40) if grid else "the origin of the denominator was not recognised", node=d,
                               ok_detail="calendar length of the period")
    # ================================================================= C04.i every dcf reads the cost vector
    n_i4 = 0
    for ci in sorted(p.classes.values(), key=lambda c: c.name):
        dm = ci.methods.get("dcf")
        if dm is None:
            continue
        n_i4 += 1
        pname = next((q.name for q in dm.params if q.name not in ("self",)), None)
        reads_c = any(isinstance(x, ast.Attribute) and x.attr == "c" and au.base_name(x) == pname for x in au.walk_local(dm.node, include_self=False))
        delegates = any(isinstance(x, ast.Call) and au.method_name(x) == "dcf" for x in au.walk_local(dm.node, include_self=False))
        ctx.ob("C04.i", dm, "cash flows of %s" % ci.name, reads_c or delegates,
               "%s.dcf does not read the cost vector of the problem it is given: it recomputes the cash flows from the asset's own data (prices, "
               "factors, discount factors of the shared grid - which belong to whichever asset was set up last). With an order book at wacc 25 %% "
               "next to a contract at 0 %% the reported value is 4276 while the table of cash flows sums to 2304" % ci.name, node=dm.node,
               ok_detail="-c[i] * x[i]" if reads_c else "delegates to another dcf")
    if n_i4 == 0:
        ctx.ob("C04.i", "package", "dcf implementations", None, "no dcf method found")
    # ---------------------------------------------------------------- C04.j the DCF table of the report is what the assets' dcf() returned
    xo = p.fn_opt("io.extract_output")
    if xo is None:
        ctx.ob("C04.j", "io", "extract_output", None, "io.extract_output not found")
    else:
        table = None
        for st in au.walk_stmts(xo.body):
            if isinstance(st, ast.Assign) and isinstance(st.targets[0], ast.Subscript) and au.const_str(st.targets[0].slice) == "DCF" \
                    and isinstance(st.value, ast.Name):
                table = st.value.id
        if table is None:
            ctx.ob("C04.j", xo, "DCF table", None, "output['DCF'] = <name> not found")
        else:
            aliases = {table}
            for st in au.walk_stmts(xo.body):
                if isinstance(st, ast.For) and isinstance(st.iter, (ast.Tuple, ast.List)) and any(isinstance(e, ast.Name) and e.id in aliases for e in st.iter.elts):
                    aliases |= set(au.target_names(st.target))
            n_w = 0
            for st in au.walk_stmts(xo.body):
                tg_ = None
                if isinstance(st, ast.Assign) and isinstance(st.targets[0], ast.Subscript) and au.base_name(st.targets[0]) in aliases:
                    tg_ = st.targets[0]
                elif isinstance(st, ast.AugAssign) and au.base_name(st.target) in aliases:
                    tg_ = st.target
                if tg_ is None:
                    continue
                n_w += 1
                v = st.value
                from_dcf = any(isinstance(x, ast.Call) and au.method_name(x) == "dcf" for x in ast.walk(v)) and not isinstance(st, ast.AugAssign)
                ctx.ob("C04.j", xo, au.short(st, 80), from_dcf,
                       "the DCF table is (re)written with %s, which is not the result of an asset's dcf(): the cash flows of an SLP are already "
                       "weighted with 1 / (samples + 1) in the cost vector - dividing the table again (like the summed dispatch) halves the future "
                       "part (value 8886.03, DCF table sums to 4575.27)" % au.short(v, 60), node=st)
            if n_w == 0:
                ctx.ob("C04.j", xo, "DCF table", None, "no store into the DCF table found")

    # ================================================================= C05.t the storage report selects by ownership only
    flt = p.fn_opt("Storage.fill_level")
    if flt is None:
        ctx.ob("C05.t", "Storage", "fill_level", None, "Storage.fill_level not found")
    else:
        ors = [x for x in au.walk_local(flt.node, include_self=False) if isinstance(x, ast.BinOp) and isinstance(x.op, ast.BitOr)
               and any(isinstance(y, ast.Compare) for y in au.walk_local(x))]
        owner = any(isinstance(x, ast.Compare) and any(isinstance(y, ast.Subscript) and au.const_str(y.slice) == "asset" for y in [x.left] + x.comparators)
                    and any(au.path(y) == "self.name" for y in [x.left] + x.comparators) for x in au.walk_local(flt.node, include_self=False))
        ctx.ob("C05.t", flt, "row selector of the fill level", owner and not ors,
               ("the rows are selected by `... | %s`: besides the rows the storage owns (asset == self.name) it takes rows that merely carry its name in "
                "another column - asset names are unique within one portfolio, not across the portfolios wrapped by structured assets: a top-level storage "
                "'battery' next to a structure with an inner asset 'battery' is reported with the inner asset's dispatch added (level -36 for a size of 4)"
                % au.short(ors[0].right, 60)) if ors else "no test asset == self.name found", node=(ors[0] if ors else flt.node))
    # ================================================================= C08.n accumulation per variable over mapping rows
    n_n8 = 0
    for fn in sorted(p.all_functions(), key=lambda f: f.qualname):
        if fn.parent is not None or fn.module.name == "io":
            continue
        ty8 = None
        for st in au.walk_stmts(fn.body):
            if not (isinstance(st, ast.AugAssign) and isinstance(st.op, (ast.Add, ast.Sub)) and isinstance(st.target, ast.Subscript)):
                continue
            sl = st.target.slice
            idx = sl.elts[-1] if isinstance(sl, ast.Tuple) and sl.elts else sl
            # an index that is read from a column / the index of a mapping
            frame_reads = [x for x in au.walk_local(idx) if isinstance(x, ast.Subscript) and isinstance(x.value, ast.Attribute) and x.value.attr in ("loc", "iloc")]
            cols = [x for x in au.walk_local(idx) if isinstance(x, ast.Subscript) and au.const_str(x.slice) is not None]
            if not frame_reads and not cols and not any(isinstance(x, ast.Attribute) and x.attr == "index" for x in au.walk_local(idx)):
                continue
            ty8 = ty8 or Typer(ctx, fn)
            bases = [x.value.value for x in frame_reads] + [x.value for x in cols]
            if not any(ty8.is_mapping(b0, st) for b0 in bases if b0 is not None):
                continue
            n_n8 += 1
            # scalar look-up: .loc[<loop variable over rows>, 'col'] / .at[...]; array: a mask / label list as row selector, .to_numpy(), .values
            loopvars = {n0 for a in p.ancestors(st) if isinstance(a, ast.For) for n0 in au.target_names(a.target)}
            scalar = bool(frame_reads) and all(isinstance(x.slice, ast.Tuple) and isinstance(x.slice.elts[0], ast.Name) and x.slice.elts[0].id in loopvars for x in frame_reads)
            unique = any(isinstance(x, ast.Call) and au.method_name(x) == "unique" for x in au.walk_local(idx))
            ctx.ob("C08.n", fn, au.short(st, 80), scalar or unique,
                   "the coefficients are added with one fancy-index `+=` over the array %s: numpy evaluates that as read - add - write, so a variable "
                   "number that occurs in several selected mapping rows (an asset with a coarser frequency has one row per fine step, each with its "
                   "share) receives only one of its shares - the take row of a daily contract on an hourly grid carries 1/24 instead of 1, the take "
                   "limit applies to 1/24 of the volume" % au.short(idx, 50), node=st, ok_detail="item by item" if scalar else "distinct labels")
    if n_n8 == 0:
        ctx.ob("C08.n", "package", "accumulation of row coefficients over mapping rows", None, "no `row[<variable number from the mapping>] += share` found")
    # ================================================================= C08.m the take period is the user's
    n_m = 0
    for fn in sorted(p.all_functions(), key=lambda f: f.qualname):
        if fn.parent is not None:
            continue
        for st in au.walk_stmts(fn.body):
            for c in au.walk_own(st):
                if not (isinstance(c, ast.Call) and au.method_name(c) == "define_restr"):
                    continue
                a0 = au.arg_or_kw(c, 0, "my_take")
                if not isinstance(a0, ast.Name):
                    continue
                n_m += 1
                arg = a0.id
                bad = None
                other = None
                for s2 in au.walk_stmts(fn.body):
                    if s2.lineno >= st.lineno or not isinstance(s2, (ast.Assign, ast.AugAssign)):
                        continue
                    for t0 in au.stmt_targets(s2):
                        if isinstance(t0, ast.Subscript) and isinstance(t0.value, ast.Name) and t0.value.id == arg and au.const_str(t0.slice) in ("start", "end"):
                            srcs = list(au.walk_local(s2.value))
                            for x in list(srcs):
                                if isinstance(x, ast.Name) and isinstance(x.ctx, ast.Load):
                                    r = ctx.resolve(fn, x, s2)
                                    if r is not x:
                                        srcs += list(au.walk_local(r))
                            grid = [x for x in srcs if isinstance(x, ast.Attribute) and x.attr in ("end", "start", "timepoints", "T") and
                                    any(k in (au.dotted(x) or "") for k in ("timegrid", "restricted")) or
                                    (isinstance(x, ast.Attribute) and au.path(x) in ("self.end", "self.start"))]
                            if grid:
                                bad = (s2, grid[0])
                            else:
                                other = s2
                ctx.ob("C08.m", fn, "take period of %s" % au.short(c, 60), False if bad else (None if other else True),
                       ("the '%s' of the take dictionary is re-written from %s (%s) before the restriction is built: define_restr prorates by the "
                        "period's own end - start; a period cut at the contract's end / the horizon is spread over the shorter span - min_take 100 "
                        "for a period reaching beyond a contract end outside the horizon: 193.5 inside the horizon instead of 100"
                        % (au.const_str(bad[0].targets[0].slice) if isinstance(bad[0], ast.Assign) else "?", au.short(bad[1], 40), p.where(bad[0]))) if bad else
                       ("start / end of the dictionary are re-written (%s) from a source this rule does not classify" % (p.where(other) if other else "")),
                       node=c)
    ctx.require(n_m >= 2, "fewer than 2 calls of define_restr found", rules=["C08.m"])
    dr = p.fn_opt("assets.define_restr")
    if dr is None:
        ctx.ob("C08.k", "assets", "define_restr", None, "define_restr not found")
    else:
        lps = [s0 for s0 in au.walk_stmts(dr.body) if isinstance(s0, ast.For) and isinstance(s0.iter, ast.Call) and au.call_name(s0.iter) == "enumerate"
               and s0.iter.args and isinstance(s0.iter.args[0], ast.Attribute) and s0.iter.args[0].attr == "timepoints"]
        if not lps:
            ctx.ob("C08.k", dr, "loop over the time points of the period", None, "no `for i, t in enumerate(<grid>.timepoints)` found")
        for lp in lps:
            src = au.U(lp.iter.args[0])
            ctx.ob("C08.k", dr, "for .. in enumerate(%s)" % src, "restricted" not in src,
                   "the rows of a take period are collected by walking over %s: for an asset with a coarser frequency these are the coarse steps, "
                   "and `time_step == restricted.I[i]` matches only the row of the first fine step of each - whose share of the coarse variable is "
                   "1/24 for a full day but 1/12 for a day that the horizon cuts in half. The restriction then weighs the variables unequally: "
                   "daily contract, take 72 over three days, horizon starting at noon: 36 are taken instead of 60" % src, node=lp)
    ctx.require(n_f >= 1, "the proration sum over covered steps (define_restr) was not found", rules=['C08.f', 'C08.g'])

    # ---------------------------------------------------------------- anchors that must not pass vacuously
    helper = [f for f in p.all_functions() if f.qualname.endswith("__extend_mapping_to_minor_grid__")]
    ctx.require(bool(helper), "the minor-grid extension helper vanished", rules=['C13.b'])
    ctx.ob("C13.b", helper[0], "restricted-grid arrays addressed by position", True,
           ok_detail="%d typed subscript(s), none with a variable label" % counts.get("C13.b", 0), trivial=True)
    pfn = p.fn_opt("Portfolio.setup_optim_problem")
    ctx.require(pfn is not None, "Portfolio.setup_optim_problem vanished", rules=['C15.a', 'C15.f'])
    fix_if = [s2 for s2 in au.walk_stmts(pfn.body) if isinstance(s2, ast.If) and "fix_time_window" in au.names_in(s2.test)]
    ctx.require(bool(fix_if), "the fix_time_window branch of Portfolio.setup_optim_problem vanished", rules=['C15.a', 'C15.f'])
    pfn_roles = local_roles(pfn)
    pins = [s2 for s2 in au.walk_stmts(fix_if[0].body) if isinstance(s2, ast.Assign) and isinstance(s2.targets[0], ast.Subscript)
            and role(s2.targets[0].value, pfn_roles) in ("l", "u")]
    if not pins:
        ctx.ob("C15.a", pfn, "bounds pinned in the fix-window branch", False,
               "the fix-window branch no longer writes l[...] / u[...]: nothing is pinned", node=fix_if[0])
    elif counts.get("C15.a", 0) == 0:
        ctx.ob("C15.a", pfn, "selector of %s" % au.short(pins[0], 50), None, "the selector of the pinned bounds could not be typed", node=pins[0])
    # C15.n: a longer previous solution
    ffp = ctx.flow(pfn)
    n_n = 0
    for s2 in au.walk_stmts(fix_if[0].body):
        if not (isinstance(s2, ast.Assign) and isinstance(s2.targets[0], ast.Subscript) and isinstance(s2.value, ast.Subscript)
                and isinstance(s2.value.slice, ast.Name) and au.U(s2.value.slice) == au.U(s2.targets[0].slice)):
            continue
        sel, src = s2.value.slice, s2.value.value
        n_n += 1
        ds = [d for d in ffp.defs(sel.id, s2) if d.kind == "assign" and d.value is not None]
        is_mask = bool(ds) and all(isinstance(d.value, ast.Call) and au.method_name(d.value) in ("zeros", "ones", "full", "zeros_like", "isin", "in1d") and (
            "bool" in au.U(d.value) or au.method_name(d.value) in ("isin", "in1d")) for d in ds)
        if not is_mask:
            ctx.ob("C15.n", pfn, au.short(s2, 70), True, ok_detail="addressed by variable label", node=s2)
            continue
        cut = False
        if isinstance(src, ast.Name):
            for d in ffp.defs(src.id, s2):
                v = d.value
                if d.kind == "assign" and isinstance(v, ast.Subscript) and isinstance(v.slice, ast.Slice) and v.slice.upper is not None and au.base_name(v) == src.id:
                    cut = True
                else:
                    if not (d.kind == "assign" and isinstance(v, ast.Subscript) and au.const_str(v.slice) is not None):
                        pass
            # every reaching definition must be the cut one, or the cut is unconditional
            defs_ = list(ffp.defs(src.id, s2))
            # the conditional form `if len(x) > n: x = x[0:n]` leaves the uncut definition reaching too (then len(x) == n by the size assertion)
            cut = any(d.kind == "assign" and isinstance(d.value, ast.Subscript) and isinstance(d.value.slice, ast.Slice) and d.value.slice.upper is not None for d in defs_)
        ctx.ob("C15.n", pfn, au.short(s2, 70), cut,
               "%s is subscripted with the boolean mask %s, which has one entry per variable of *this* problem, but only `len(%s) >= number of "
               "variables` is guaranteed: the split set-up hands every interval the rest of the previous solution (IndexError: boolean index did "
               "not match - size 576 vs 144), a solution of make_slp carries the sample copies" % (au.short(src, 30), sel.id, au.short(src, 30)), node=s2)
    if n_n == 0:
        ctx.ob("C15.n", pfn, "pinning statements", None, "no statement <bounds>[sel] = <previous solution>[sel] found in the fix-window branch")
    # C15.f: membership is tested on every row
    ty = Typer(ctx, pfn)
    found = False
    for s2 in au.walk_stmts(fix_if[0].body):
        for n in au.walk_own(s2):
            if isinstance(n, ast.Call) and au.method_name(n) == "isin" and isinstance(n.func, ast.Attribute):
                recv = n.func.value
                col = recv
                if isinstance(recv, ast.Name):
                    ds = [d for d in ty.ff.defs(recv.id, s2) if d.kind == "assign" and d.value is not None]
                    col = ds[0].value if len(ds) == 1 else recv
                is_steps = any(au.const_str(x.slice) == "time_step" for x in au.walk_local(col) if isinstance(x, ast.Subscript))
                if not is_steps:
                    continue
                found = True
                reduced = any(isinstance(x, ast.Call) and au.method_name(x) in ("duplicated", "drop_duplicates", "first", "groupby") for x in au.walk_local(col))
                ctx.ob("C15.f", pfn, au.short(n, 80), not reduced,
                       "window membership is tested on a frame reduced to one row per variable (%s): a variable with several rows at "
                       "different steps (coarse asset frequency, periodic asset) is pinned only if its *first* row lies in the window; "
                       "the other fixed steps stay free" % au.short(col, 60), node=n)
    if not found:
        # a range test in place of the set membership?
        rng = []
        for s2 in au.walk_stmts(fix_if[0].body):
            for n in au.walk_own(s2):
                is_steps = lambda e: any(isinstance(x, ast.Subscript) and au.const_str(x.slice) == "time_step" for x in au.walk_local(e))
                if isinstance(n, ast.Call) and au.method_name(n) == "between" and isinstance(n.func, ast.Attribute) and is_steps(n.func.value):
                    rng.append((n, s2, list(n.args) + [k.value for k in n.keywords]))
                elif isinstance(n, ast.Compare) and len(n.ops) == 1 and isinstance(n.ops[0], (ast.Lt, ast.LtE, ast.Gt, ast.GtE)) and \
                        (is_steps(n.left) != is_steps(n.comparators[0])):
                    rng.append((n, s2, [n.comparators[0] if is_steps(n.left) else n.left]))
        org15 = ctx.origins(pfn, values_only=True)
        for n, s2, bounds in rng:
            extremes = [x for b0 in bounds for x in org15.nodes(b0, s2) + list(au.walk_local(b0))
                        if (isinstance(x, ast.Call) and au.method_name(x) in ("min", "max", "amin", "amax", "nanmin", "nanmax", "argmax", "argmin"))
                        or (isinstance(x, ast.Subscript) and au.const_num(x.slice) in (0, -1))]
            if extremes:
                found = True
                ctx.ob("C15.f", pfn, au.short(n, 80), False,
                       "membership in the window is tested as a *range* between extremes of the window (%s): the window given as an index mask or a "
                       "list of steps need not be one block - steps 0-4 and 10-14 pin the variables of steps 5-9 as well, which the property leaves "
                       "free (25 variables outside the window with changed bounds)" % au.short(extremes[0], 40), node=n,
                       key="window membership is a set membership, not a range")
    if not found:
        ctx.ob("C15.f", pfn, "window membership test", None, "no `time_step ... .isin(window)` test found in the fix-window branch")

    # ---------------------------------------------------------------- C04.a structural part of Asset.dcf
    dcf = p.cls("Asset").methods.get("dcf")
    ctx.require(dcf is not None, "Asset.dcf vanished", rules=['C04.a'])
    txt_nodes = list(au.walk_local(dcf.node))
    filt = any(isinstance(n, ast.Compare) and any(isinstance(s, ast.Subscript) and au.const_str(s.slice) == "asset" for s in [n.left] + n.comparators)
               and any(au.path(s) == "self.name" for s in [n.left] + n.comparators) for n in txt_nodes)
    ctx.ob("C04.a", dcf, "filters the rows of its own asset", filt,
           "Asset.dcf no longer restricts the mapping to asset == self.name: cash flows of other assets would be added", node=dcf.node)
    # ... and nothing else: every variable of the asset (dispatch, internal, size ...) has a cost in the objective
    sel_cols = set()
    for n in txt_nodes:
        if isinstance(n, ast.Compare) or (isinstance(n, ast.Call) and au.method_name(n) in ("isin", "isnull", "notnull")):
            for x in au.walk_local(n):
                if isinstance(x, ast.Subscript) and au.const_str(x.slice) is not None and not isinstance(x.value, ast.Name):
                    sel_cols.add(au.const_str(x.slice))          # any column of the mapping that takes part in the selection
    ctx.ob("C04.a", dcf, "every variable of the asset is accounted", sel_cols <= {"asset"},
           "Asset.dcf selects the rows by %s as well as by asset == self.name. The rows of an asset are exactly those that carry its name: a "
           "narrower selection leaves variables of the asset (e.g. the scale variable of type 'size' with its fixed costs) out of the cash "
           "flows, a wider one (rows that merely mention the name in another column, e.g. the original names of assets wrapped by a "
           "structured asset) adds other assets' variables - either way value != sum of cash flows" % sorted(sel_cols - {"asset"}),
           node=dcf.node)
    dedup = [n for n in txt_nodes if isinstance(n, ast.Call) and au.method_name(n) == "duplicated"]
    by_index = bool(dedup) and all(isinstance(n.func, ast.Attribute) and au.terminal(n.func.value) == "index" for n in dedup)
    ctx.ob("C04.a", dcf, "de-duplicates by index", by_index,
           "the mapping may carry several rows per variable; without de-duplication *by index* a variable's cash flow is counted "
           "once per row (or distinct variables with equal rows collapse)", node=(dedup[0] if dedup else dcf.node))
    acc = [st for st in au.walk_stmts(dcf.body) if isinstance(st, ast.AugAssign)]
    sign_ok = None
    for st in acc:
        names = {au.terminal(x) for x in au.walk_local(st.value) if isinstance(x, ast.Attribute)}
        if "c" in names and "x" in names:
            s = au.sign_of(st.value)
            if isinstance(st.op, ast.Sub):
                s = -s
            sign_ok = (s < 0)
            ctx.ob("C04.a", dcf, "cash flow = -c[i] * x[i]", sign_ok,
                   "the objective is -c'x (C03.c); the per-asset cash flow accumulates with the opposite sign, so value and cash "
                   "flows drift apart by a sign", node=st)
    if sign_ok is None:
        ctx.ob("C04.a", dcf, "cash flow = -c[i] * x[i]", None, "accumulation over c and x not found")
