"""Analysis 19 - effects on user data (C10.a, C10.e, C10.f; the fix-window instance is also C15.c / C14.d).

E2: per function and per parameter / self.<attr> root: *may mutate the referenced object* (subscript store, attribute
store, del, augmented assignment, in-place methods, inplace=True), with a flow-sensitive may-alias set
(x = p aliases; x = p.copy(), dict(p), any call result give a fresh top level; p[k] / p.a are nested aliases; an element
that was just overwritten with a fresh value is fresh).  Summaries propagate up the call graph.

A mutation is a *leak* when the stored value depends on anything but the mutated object itself and literals (grid state,
prices, another object's parameters); a self-normalisation such as inp['start'] = [inp['start']] is idempotent -> NOTE.
"""
from __future__ import annotations
import ast
from dataclasses import dataclass
from .. import astutil as au
from ..flow import Domain, Walker
from ..tables import rule, INPLACE_METHODS
from . import analysis

rule("C10.a", "no public function writes call-dependent state (grid, prices, other objects' parameters) into an object it "
              "received as an argument, into a constructor-kept parameter of the asset, or into another asset", floor=25)
rule("C06.g", "CHP / plant set-up does not modify the asset's own ramp profiles, runtimes and limits (C10.a seen from C06: the second "
              "set-up of the same plant must impose the same start / shutdown profile as the first)", floor=0)
rule("C10.h", "a set-up does not carry results from one call to the next on the object: it neither probes instance state that only a "
              "previous set-up can have left (hasattr / getattr(self, ..) other than the documented timegrid) nor reads an attribute it "
              "writes itself before having written it in this call", floor=10)
rule("C10.i", "a function that was given a grid hands it on to every callee that takes an optional grid (timegrid=None means 'whatever "
              "the object was last set up with'): no callee silently falls back to state left by an earlier set-up", floor=2)
rule("C01.k", "the nodal restrictions are rebuilt from the mapping of the problem at hand in every set-up of a portfolio (C10.h seen from "
              "C01: a cached set of rows describes another problem's structure)", floor=1)
rule("C10.e", "price data received by a set-up is never modified in place (directly or through an alias / element)", floor=6)
rule("C01.n", "the list of nodes that get no balance row (skip_nodes) is what the caller said, in every call: the set-ups of a portfolio only "
              "read it (a default list that grows keeps skipping a node in every later set-up - its balance row is missing while its "
              "assets are dispatched)", floor=2)
rule("C10.f", "a mutable default argument (list / dict / object created in the signature) is never mutated", floor=10)
rule("C01.o", "the assets a portfolio balances are the assets it registered: the node registry (nodes, asset names) is built from the asset list at "
              "construction, so that list is the portfolio's own - a method never grows a list it shares with the caller (a second portfolio built "
              "from the same list would set up the added assets without a balance row at their nodes)", floor=0)
rule("C11.j", "a set-up does not write into the constructor-kept attributes of objects it holds (C10.a seen from C11): what to_json writes after a "
              "set-up must be what the constructor was given - a life time written onto an inner asset by a wrapper is saved with it, and the "
              "loaded object is built from it", floor=0)
rule("C03.f", "optimize() does not modify the problem it is called on (mapping, c, l, u, b are only read or copied): the bounds that pin a fixed window reach the solver as set, a relaxed "
              "solve must not clear the boolean flags of the problem itself", floor=1, props=["C03", "C05", "C06", "C20", "C15"])
rule("C15.c", "the fix_time_window argument is not rewritten by the set-up (same window reused for every interval of a "
              "split problem, and by the caller afterwards)", floor=2, props=["C15", "C14"])

# functions whose documented purpose is to transform and return their argument
EXEMPT_FUNCTIONS = {
    "stoch_lin_prog.make_slp": "documented: 'Create a two stage SLP from a given OptimProblem' - transforms and returns its argument",
    "io.output_to_file": "normalises the output dictionary it was given for writing (report layer, after optimisation)",
    "io.set_param": "documented to manipulate and return the parameter tree",
}
# library roots whose attributes are constants (pd.Timestamp.max ...)
LIB_ALIASES = {"np", "pd", "sp", "dt", "numpy", "pandas", "scipy", "datetime", "CVX", "math", "copy", "json", "pytz"}
MAY_RETURN_ARG = {"asarray", "asanyarray", "atleast_1d", "atleast_2d", "ascontiguousarray", "ravel", "reshape", "squeeze", "nan_to_num_inplace"}
PURE_BUILTINS = {"len", "list", "dict", "str", "int", "float", "isinstance", "range", "tuple", "set", "min", "max", "sorted",
                 "enumerate", "zip", "bool", "abs", "sum", "any", "all", "type", "getattr", "hasattr"}


@dataclass
class Mutation:
    root: str          # parameter name or 'self.<attr>'
    depth: int
    node: ast.AST      # the statement / call
    value: object      # stored value expression (None for in-place methods / del)
    leak: object       # True / False / None (unknown)
    via: object = None  # callee FuncInfo when the mutation happens in a callee
    why: str = ""


class _Alias(Domain):
    """state: (aliases: dict name -> frozenset[(root, depth)], fresh_elems: frozenset[(name, key)])"""

    def __init__(self, an, fn):
        self.an, self.fn = an, fn
        self.muts: list = []
        self.rets = set()
        self._dictish = {}
        self.org = an.ctx.origins(fn)

    def initial(self, fn):
        al = {}
        for i, q in enumerate(fn.params):
            if i == 0 and fn.cls is not None and fn.parent is None and q.name in ("self", "cls"):
                continue
            al[q.name] = frozenset([(q.name, 0)])
        return (al, frozenset())

    def join(self, a, b):
        if a is b:
            return a
        al = dict(a[0])
        for k, v in b[0].items():
            al[k] = al.get(k, frozenset()) | v
        # a name bound on one side only keeps its aliases (may-alias)
        return (al, a[1] & b[1])

    def equal(self, a, b):
        return a[0] == b[0] and a[1] == b[1]

    # ---- alias evaluation
    def alias(self, e, st):
        al, fresh = st
        if isinstance(e, ast.Name):
            return al.get(e.id, frozenset())
        if isinstance(e, ast.Attribute):
            p = au.path(e)
            if p and p.startswith("self.") and p.count(".") == 1 and self.fn.cls is not None:
                return frozenset([(p, 0)])
            return frozenset((r, d + 1) for r, d, *_ in self.alias(e.value, st))
        if isinstance(e, ast.Subscript):
            b = e.value
            if isinstance(b, ast.Name) and isinstance(e.slice, ast.Constant) and (b.id, repr(e.slice.value)) in fresh:
                return frozenset()
            return frozenset((r, d + 1) for r, d, *_ in self.alias(b, st))
        if isinstance(e, ast.IfExp):
            return self.alias(e.body, st) | self.alias(e.orelse, st)
        if isinstance(e, ast.BoolOp):
            out = frozenset()
            for v in e.values:
                out |= self.alias(v, st)
            return out
        if isinstance(e, ast.NamedExpr):
            return self.alias(e.value, st)
        if isinstance(e, ast.Starred):
            return self.alias(e.value, st)
        if isinstance(e, ast.Call):
            m = au.method_name(e)
            # np.asarray(x) / np.asanyarray / np.atleast_1d / np.ravel / np.reshape return x itself (or a view) when x already
            # is an array of the requested type; .values / .to_numpy() are views of the frame's data
            if m in MAY_RETURN_ARG and e.args and not isinstance(e.func, ast.Attribute) or \
                    (m in MAY_RETURN_ARG and isinstance(e.func, ast.Attribute) and au.dotted(e.func.value) in ("np", "numpy") and e.args):
                return self.alias(e.args[0], st)
            if m in ("to_numpy", "ravel", "reshape", "view", "squeeze") and isinstance(e.func, ast.Attribute) and au.dotted(e.func.value) not in ("np", "numpy"):
                return self.alias(e.func.value, st)
            # shallow copies: the container is new, its elements are the original's (dict.copy(), dict(x), list(x), copy.copy)
            src = None
            if m == "copy" and isinstance(e.func, ast.Attribute) and au.dotted(e.func.value) != "copy" and not e.args:
                src = e.func.value
            elif m in ("dict", "list") and isinstance(e.func, ast.Name) and len(e.args) == 1:
                src = e.args[0]
            elif m == "copy" and isinstance(e.func, ast.Attribute) and au.dotted(e.func.value) == "copy" and e.args:
                src = e.args[0]
            if src is not None and self.may_be_dict(src):
                return frozenset((r, d, "shallow") for r, d, *_ in self.alias(src, st))
            # eaopack callee that may return (part of) an argument
            out = frozenset()
            for t in self.an.ctx.p.resolve_call(e, self.fn):
                for (r, d) in self.an.return_aliases(t):
                    arg = self._bound_arg(e, t, r)
                    if arg is not None:
                        out |= frozenset((r2, d2 + d) for r2, d2, *_ in self._plain(self.alias(arg, st)))
            return out
        # literals, arithmetic: fresh
        return frozenset()

    @staticmethod
    def _plain(al):
        """drop 'shallow' entries (the container itself is not the root's)"""
        return frozenset(a[:2] for a in al if len(a) == 2)

    def may_be_dict(self, e) -> bool:
        """False when the function treats the object as a frame / array (deep .copy()): .loc / .iloc / .index / .columns /
        .shape / arithmetic on it; otherwise a dict-like container is assumed (shallow copy)."""
        key = au.path(e) or au.U(e)
        if key in self._dictish:
            return self._dictish[key]
        frame = False
        for n in au.walk_local(self.fn.node):
            if isinstance(n, ast.Attribute) and n.attr in ("loc", "iloc", "index", "columns", "shape", "values", "dtype", "T", "size") \
                    and (au.path(n.value) or au.U(n.value)) == key:
                frame = True
            if isinstance(n, ast.BinOp) and any((au.path(x) or "") == key for x in (n.left, n.right)):
                frame = True
            if isinstance(n, ast.Call) and au.method_name(n) in ("isnan", "hstack", "vstack", "cumsum", "sum", "zeros", "maximum", "minimum") \
                    and any((au.path(a) or "") == key for a in n.args):
                frame = True
        # a .copy() of the result of an array constructor / arithmetic is an array
        if isinstance(e, (ast.BinOp, ast.Call)) and not isinstance(e, ast.Name):
            frame = frame or isinstance(e, ast.BinOp)
        self._dictish[key] = not frame
        return not frame

    def _bound_arg(self, call, t, pname):
        tparams = t.params
        off = 1 if (t.cls is not None and t.parent is None and tparams and tparams[0].name in ("self", "cls")) else 0
        if isinstance(call.func, ast.Name) and t.name == "__init__":
            off = 1
        for i, a in enumerate(call.args):
            if isinstance(a, ast.Starred):
                break
            if i + off < len(tparams) and tparams[i + off].kind == "pos" and tparams[i + off].name == pname:
                return a
        for k in call.keywords:
            if k.arg == pname:
                return k.value
        return None

    # ---- leak classification
    def classify(self, value, root, node):
        """True: value depends on something else than the mutated object and literals; False: idempotent; None: unknown."""
        if value is None:
            return False
        leaves = self.org.leaves(value, node)
        rootname = root.split(".")[-1] if root.startswith("self.") else root
        for l in leaves:
            kind, _, body = l.partition(":")
            if kind == "const":
                continue
            if kind == "param":
                if body != root:
                    return True
            elif kind == "path":
                b = body.split(".")[0].split("[")[0]
                if b in LIB_ALIASES:
                    continue
                if root.startswith("self.") and body.startswith(root):
                    continue
                if b == root:
                    continue
                if b == "self":
                    return True
                # path rooted at a local: its own leaves are included separately
            elif kind == "call":
                cn = body
                b = cn.split(".")[0]
                if b in LIB_ALIASES or cn in PURE_BUILTINS or b == root or b == "?":
                    continue
                if b == "self" or b == "super()":
                    return True
            elif kind == "iter":
                continue
            elif kind == "free":
                if body in LIB_ALIASES or body in PURE_BUILTINS or body in ("True", "False", "None"):
                    continue
        return False

    def _record(self, aliases, node, value, extra_depth=0, via=None, leak=None, why=""):
        for r, d in self._plain(aliases):
            lk = leak if leak is not None else self.classify(value, r, node)
            self.muts.append(Mutation(r, d + extra_depth, node, value, lk, via, why))

    # ---- transfer
    def stmt(self, st, node):
        al, fresh = st
        # 1. effects of calls anywhere in the statement (callee summaries, in-place methods)
        for n in au.walk_local(node):
            if isinstance(n, ast.Call):
                self._call_effects(n, st)
        # 2. stores
        if isinstance(node, (ast.Assign, ast.AnnAssign, ast.AugAssign)):
            value = node.value
            if value is None:
                return st
            val_alias = self.alias(value, st)
            al = dict(al)
            fresh = set(fresh)
            for t in au.stmt_targets(node):
                elts = t.elts if isinstance(t, (ast.Tuple, ast.List)) else [t]
                for e in elts:
                    if isinstance(e, ast.Name):
                        if isinstance(node, ast.AugAssign):
                            # x += v mutates lists / arrays in place
                            cur = al.get(e.id, frozenset())
                            if cur:
                                # never idempotent: the new content depends on the old one (x *= -1 flips on every call)
                                self._record(cur, node, value, leak=True, why="augmented assignment on an alias")
                        else:
                            al[e.id] = val_alias if len(elts) == 1 else frozenset()
                            fresh = {f for f in fresh if f[0] != e.id}
                    elif isinstance(e, (ast.Subscript, ast.Attribute)):
                        p = au.path(e)
                        if isinstance(e, ast.Attribute) and p and p.startswith("self.") and p.count(".") == 1:
                            continue  # binding an attribute of self: not a mutation of a received object (C11.b / allow-list)
                        cont = self.alias(e.value, st)
                        if cont:
                            self._record(cont, node, value)
                        if isinstance(node, ast.AugAssign):
                            # x[k] += v is  t = x[k]; t += v (in place for arrays / lists); x[k] = t
                            elem = self.alias(e, st)
                            if elem:
                                self._record(elem, node, value, leak=True, why="augmented assignment on an element that is shared with the original")
                        if isinstance(e, ast.Subscript) and isinstance(e.value, ast.Name) and isinstance(e.slice, ast.Constant):
                            if not val_alias:
                                fresh.add((e.value.id, repr(e.slice.value)))
                            else:
                                fresh.discard((e.value.id, repr(e.slice.value)))
            return (al, frozenset(fresh))
        if isinstance(node, ast.Return) and node.value is not None:
            vals = node.value.elts if isinstance(node.value, ast.Tuple) else [node.value]
            for v in vals:
                self.rets |= set(self._plain(self.alias(v, st)))
        if isinstance(node, ast.Delete):
            for t in node.targets:
                if isinstance(t, (ast.Subscript, ast.Attribute)):
                    cont = self.alias(t.value, st)
                    if cont:
                        self._record(cont, node, None, why="del")
        return st

    def _call_effects(self, call, st):
        m = au.method_name(call)
        f = call.func
        if isinstance(f, ast.Attribute):
            recv = self.alias(f.value, st)
            inplace_kw = au.kwarg(call, "inplace")
            is_inplace = m in INPLACE_METHODS or (isinstance(inplace_kw, ast.Constant) and inplace_kw.value is True)
            if recv and is_inplace:
                p = au.path(f.value)
                if not (p and p.startswith("self.") and p.count(".") == 1 and False):
                    val = call.args[0] if call.args else None
                    self._record(recv, call, val, why="in-place method .%s()" % m)
        # callee summaries
        for t in self.an.ctx.p.resolve_call(call, self.fn):
            summ = self.an.summary(t)
            if not summ:
                continue
            tparams = t.params
            off = 1 if (t.cls is not None and t.parent is None and tparams and tparams[0].name in ("self", "cls")) else 0
            if isinstance(f, ast.Name) and t.name == "__init__":
                off = 1
            binding = {}
            for i, a in enumerate(call.args):
                if isinstance(a, ast.Starred):
                    break
                if i + off < len(tparams) and tparams[i + off].kind == "pos":
                    binding[tparams[i + off].name] = a
            for k in call.keywords:
                if k.arg:
                    binding[k.arg] = k.value
            for mu in summ:
                if mu.root in binding:
                    arg = binding[mu.root]
                    al = self.alias(arg, st)
                    if al:
                        self._record(al, call, None, extra_depth=mu.depth, via=(mu.via or t), leak=mu.leak,
                                     why="through %s (parameter %s)" % (t.qualname, mu.root))

    def bind_loop(self, st, node):
        al, fresh = st
        al = dict(al)
        it = self.alias(node.iter, st)
        # enumerate(x) / zip(x, y) / x.items(): elements of the arguments
        if isinstance(node.iter, ast.Call) and au.method_name(node.iter) in ("enumerate", "zip", "items", "values", "iterrows", "reversed", "sorted"):
            it = frozenset()
            srcs = list(node.iter.args)
            if isinstance(node.iter.func, ast.Attribute):
                srcs.append(node.iter.func.value)
            for a in srcs:
                it |= self.alias(a, st)
        elem = frozenset((r, d + 1) for r, d, *_ in it)
        for nm in au.target_names(node.target):
            al[nm] = elem
        return (al, frozenset(f for f in fresh if f[0] not in au.target_names(node.target)))


class EffectAnalysis:
    def __init__(self, ctx):
        self.ctx = ctx
        self._sum = {}
        self._full = {}
        self._rets = {}
        self._stack = []

    def mutations(self, fn) -> list:
        if fn in self._full:
            return self._full[fn]
        if fn in self._stack or len(self._stack) > 12:
            return []
        self._stack.append(fn)
        try:
            dom = _Alias(self, fn)
            w = Walker(dom)
            w.run_function(fn)
            # de-duplicate (loops re-visit statements)
            seen, out = set(), []
            for m in dom.muts:
                k = (m.root, id(m.node), m.depth)
                if k not in seen:
                    seen.add(k)
                    out.append(m)
                else:
                    # keep the most pessimistic leak classification
                    for o in out:
                        if (o.root, id(o.node), o.depth) == k and m.leak and not o.leak:
                            o.leak = True
            self._full[fn] = out
            self._rets[fn] = set(dom.rets)
            return out
        finally:
            self._stack.pop()

    def return_aliases(self, fn) -> set:
        """(parameter, depth) pairs the function's return value may alias."""
        if fn not in self._rets:
            self._rets[fn] = set()
            self.mutations(fn)
        return {(r, d) for r, d in self._rets.get(fn, set()) if not r.startswith("self.")}

    def summary(self, fn) -> list:
        """Mutations of non-self parameters (what a caller needs to know)."""
        return [m for m in self.mutations(fn) if not m.root.startswith("self.")]


def _is_public(fn) -> bool:
    return not fn.name.startswith("_") and fn.parent is None


def _mutable_default(d) -> bool:
    if d is None:
        return False
    if isinstance(d, (ast.List, ast.Dict, ast.Set, ast.ListComp, ast.DictComp)):
        return True
    if isinstance(d, ast.Call):
        return True  # Node(...), Asset(), Unit() ... an object shared by all calls
    return False


@analysis("effects", ["C10.a", "C10.e", "C10.f", "C15.c", "C03.f", "C06.g", "C10.h", "C01.k", "C10.i", "C01.n", "C11.j", "C01.o"])
def run(ctx):
    p = ctx.p
    an = ctx.memo("effects", lambda: EffectAnalysis(ctx))
    ctor_attrs = {}
    for ci in p.classes.values():
        s = set()
        for c in p.mro(ci):
            init = c.methods.get("__init__")
            if init:
                from .serialization import self_attr_writes
                s |= {a for a, _, _ in self_attr_writes(init)}
        ctor_attrs[ci.name] = s
    # attributes that hold an object the *caller* gave (by reference): `self.x = x`, `self.x = x if ... else [x]` ... - not the containers the
    # constructor builds itself ([], {}, list(x), x.copy(), a comprehension): those are the object's own state
    def _aliases_param(init, e, st, depth=0):
        if depth > 4:
            return False
        pn = {q.name for q in init.params if q.name not in ("self", "cls")}
        if isinstance(e, ast.Name):
            if e.id in pn and [d for d in ctx.flow(init).defs(e.id, st) if d.kind == "param"]:
                return True  # the parameter object itself may arrive here (element stores and re-bindings on other paths do not change that)
            ds = [d for d in ctx.flow(init).defs(e.id, st) if d.kind == "assign" and d.value is not None]
            return any(_aliases_param(init, d.value, d.node, depth + 1) for d in ds)
        if isinstance(e, ast.IfExp):
            return _aliases_param(init, e.body, st, depth + 1) or _aliases_param(init, e.orelse, st, depth + 1)
        if isinstance(e, ast.BoolOp):
            return any(_aliases_param(init, v, st, depth + 1) for v in e.values)
        if isinstance(e, ast.Attribute):
            return _aliases_param(init, e.value, st, depth + 1)
        return False
    alias_attrs = {}
    for ci in p.classes.values():
        s = set()
        for c in p.mro(ci):
            init = c.methods.get("__init__")
            if init:
                from .serialization import self_attr_writes
                for a, st, v in self_attr_writes(init):
                    if v is None or _aliases_param(init, v, st):
                        s.add(a)
        alias_attrs[ci.name] = s

    n_public = 0
    for fn in sorted(p.all_functions(), key=lambda f: f.qualname):
        if fn.parent is not None:
            continue
        muts = an.mutations(fn)
        # ------------------------------------------------------------ C10.f mutable defaults (all functions, incl. constructors)
        for q in fn.params:
            if q.has_default and _mutable_default(q.default):
                hit = [m for m in muts if m.root == q.name]
                ctx.ob("C10.f", fn, "default %s=%s" % (q.name, au.short(q.default, 50)), not hit,
                       "the default object is created once and shared by every call; it is mutated at %s" % (
                           "; ".join(p.where(m.node) for m in hit[:3])), node=(hit[0].node if hit else fn.node))
        # ------------------------------------------------------------ C01.n the skip list of the nodal balance
        if fn.cls is not None and fn.cls.name == "Portfolio" and fn.param("skip_nodes") is not None:
            hit = [m for m in muts if m.root == "skip_nodes"]
            ctx.ob("C01.n", fn, "skip_nodes is only read", not hit,
                   "skip_nodes is modified at %s: the caller's list - or the default list of the signature, which is shared by all calls - keeps the "
                   "nodes added here. A node that had no dispatch rows in one set-up (its assets start later: first interval of a split, first of "
                   "two studies) gets no balance row in any later set-up: load at the node is reported, nothing is delivered (net flow 20 at node B)"
                   % "; ".join(p.where(m.node) for m in hit[:3]), node=(hit[0].node if hit else fn.node))
        if fn.name == "__init__":
            continue  # constructors normalise their arguments once (idempotent); not a set-up / optimise / serialise entry
        if not _is_public(fn):
            continue
        n_public += 1
        exempt = EXEMPT_FUNCTIONS.get(fn.qualname)
        # ------------------------------------------------------------ C10.a parameters
        by_root = {}
        for m in muts:
            by_root.setdefault(m.root, []).append(m)
        for q in fn.params:
            if q.name in ("self", "cls") and fn.cls is not None:
                continue
            ms = by_root.get(q.name, [])
            # a mutation that happens inside a *public* callee is that callee's finding
            own = [m for m in ms if m.via is None or not _is_public(m.via)]
            leaks = [m for m in own if m.leak]
            rule_ids = ["C10.a"]
            if q.name == "prices":
                rule_ids.append("C10.e")
            if q.name == "fix_time_window":
                rule_ids.append("C15.c")
            for rid in rule_ids:
                if exempt:
                    if own and rid == "C10.a":
                        ctx.note(rid, fn, "parameter %s" % q.name, "mutated by design: " + exempt)
                    continue
                if rid == "C10.e":
                    ok = not own
                    detail = "price data is modified in place at " + "; ".join(p.where(m.node) for m in own[:4])
                    ctx.ob(rid, fn, "parameter %s" % q.name, ok, detail if own else "", node=(own[0].node if own else fn.node),
                           trivial=False)
                    continue
                if leaks:
                    ctx.ob(rid, fn, "parameter %s" % q.name, False,
                           "the caller's object is rewritten with call-dependent state: " + "; ".join(
                               "%s: %s%s" % (p.where(m.node), au.short(m.node, 90), (" [%s]" % m.why) if m.why else "")
                               for m in leaks[:4]), node=leaks[0].node)
                else:
                    o = ctx.ob(rid, fn, "parameter %s" % q.name, True, "", node=fn.node, trivial=not ms)
                    if own:
                        ctx.note(rid, fn, "parameter %s (idempotent normalisation)" % q.name,
                                 "self-normalising stores only: " + "; ".join(au.short(m.node, 70) for m in own[:3]))
        # ------------------------------------------------------------ C10.a constructor-kept attributes / other assets
        if fn.cls is not None and (p.is_subclass(fn.cls, "Asset") or fn.cls.name == "Portfolio"):
            kept = alias_attrs.get(fn.cls.name, set())
            for root, ms in sorted(by_root.items()):
                if not root.startswith("self."):
                    continue
                attr = root[5:]
                if attr not in kept:
                    continue
                own = [m for m in ms if m.via is None or not _is_public(m.via)]
                leaks = [m for m in own if m.leak]
                if exempt:
                    continue
                if leaks:
                    rids = ["C10.a"] + (["C06.g"] if p.is_subclass(fn.cls, "CHPAsset") else [])
                    # what is written: the foreign sources of the stored values identify the finding (a known entry for "the wrapper's own
                    # window is written into the inner assets" must not cover "state of the grid is written there")
                    src = set()
                    nested = {g.name: g for g in p.all_functions() if g.parent is fn}
                    pnames = {q.name for q in fn.params if q.name not in ("self", "cls")}

                    def atoms(e, at, depth=0, bound=()):
                        for x in au.walk_local(e):
                            if isinstance(x, ast.Attribute):
                                pth = au.path(x)
                                if pth and pth.startswith("self.") and not pth.startswith(root) and not isinstance(p.parent(x), ast.Attribute) \
                                        and not (isinstance(p.parent(x), ast.Call) and p.parent(x).func is x):
                                    src.add(pth)
                                elif pth and not isinstance(p.parent(x), ast.Attribute) and au.base_name(x) in pnames and au.base_name(x) not in bound:
                                    src.add("param " + pth)
                            elif isinstance(x, ast.Name) and isinstance(x.ctx, ast.Load) and x.id not in bound:
                                if x.id in pnames and not isinstance(p.parent(x), ast.Attribute):
                                    src.add("param " + x.id)
                                elif x.id in nested and depth < 3:
                                    g = nested[x.id]
                                    gb = tuple(q.name for q in g.params)
                                    for st2 in au.walk_stmts(g.body):
                                        for y in au.walk_own(st2):
                                            if y is not st2 or True:
                                                pass
                                        atoms_stmt(st2, depth + 1, bound + gb)
                                elif depth < 3 and x.id not in pnames and x.id not in nested:
                                    r = ctx.resolve(fn, x, at, depth=1)
                                    if r is not x:
                                        atoms(r, at, depth + 1, bound)

                    def atoms_stmt(st2, depth, bound):
                        for y in au.walk_own(st2):
                            if isinstance(y, (ast.Attribute, ast.Name)) and not isinstance(p.parent(y), ast.Attribute):
                                atoms(y, st2, depth, bound)

                    for m in leaks:
                        if m.value is None or m.via is not None:
                            src.add("in-place call" if m.value is None else "via %s" % getattr(m.via, "qualname", m.via))
                            continue
                        atoms(m.value, m.node)
                    # ... and how: the stores themselves, with local names replaced by placeholders in order of appearance
                    def alpha(node):
                        t = ast.parse(au.U(node)).body[0]
                        names = {}
                        for x in ast.walk(t):
                            if isinstance(x, ast.Name) and x.id not in ("self", "max", "min", "np", "pd", "len", "str", "int", "float", "None", "True", "False") \
                                    and x.id not in pnames:
                                x.id = names.setdefault(x.id, "_%d" % len(names))
                        return au.U(t)
                    how = sorted({alpha(m.node) for m in leaks if m.via is None and isinstance(m.node, (ast.Assign, ast.AugAssign))})
                    rids = rids + ["C11.j"]
                    if fn.cls.name == "Portfolio" and attr == "assets":
                        rids = rids + ["C01.o"]
                    for rid in rids:
                        ctx.ob(rid, fn, "self.%s" % attr, False,
                               "an object kept from the constructor (user data, or another asset) is rewritten with call-dependent "
                               "state: " + "; ".join("%s: %s" % (p.where(m.node), au.short(m.node, 90)) for m in leaks[:4]) + (
                                   " - what is saved (to_json) after a set-up is no longer what was constructed" if rid == "C11.j" else ""),
                               node=leaks[0].node, key="self.%s <- %s [%s]" % (attr, ", ".join(sorted(src)) or "?", "; ".join(how)))
                elif own:
                    ctx.note("C10.a", fn, "self.%s (idempotent)" % attr, "; ".join(au.short(m.node, 70) for m in own[:3]))
    ctx.require(n_public >= 40, "fewer than 40 public functions analysed")
    for ci in sorted(p.classes.values(), key=lambda c: c.name):
        if p.is_subclass(ci, "CHPAsset") and "setup_optim_problem" in ci.methods:
            m = ci.methods["setup_optim_problem"]
            if not any(o.rule == "C06.g" and o.fn_name == m.qualname for o in ctx.obs if hasattr(o, "fn_name")):
                if not any(o.rule == "C06.g" and m.qualname in o.key for o in ctx.obs):
                    ctx.ob("C06.g", m, "the asset's own parameters are not modified by the set-up", True)

    # ------------------------------------------------------------ C10.a: a set-up never overwrites a constructor-kept parameter
    from .serialization import self_attr_writes
    n_m = 0
    for ci in sorted(p.classes.values(), key=lambda c: c.name):
        if not (p.is_subclass(ci, "Asset") or ci.name == "Portfolio"):
            continue
        kept = ctor_attrs.get(ci.name, set())
        for m in ci.methods.values():
            if m.name in ("__init__", "set_timegrid"):
                continue
            n_m += 1
            hits = [(a, st, v) for a, st, v in self_attr_writes(m) if a in kept]
            if not hits:
                ctx.ob("C10.a", m, "constructor-kept attributes are not overwritten", True, trivial=True)
            for a, st, v in hits:
                ctx.ob("C10.a", m, "self.%s overwritten" % a, False,
                       "self.%s is a parameter given to the constructor (and persisted); %s overwrites it during set-up, so the next "
                       "set-up of the same object - with another grid, unit or prices - starts from the value frozen by this one, and "
                       "to_json no longer shows what the user passed" % (a, m.qualname), node=st)
    ctx.require(n_m >= 30, "fewer than 30 asset / portfolio methods scanned")

    # ------------------------------------------------------------ C10.h: no results carried from call to call
    from .gridcache import _MustAssign
    from ..flow import Walker as _W
    SETUPS = ("setup_optim_problem", "setup_split_optim_problem", "create_cost_samples")
    for ci in sorted(p.classes.values(), key=lambda c: c.name):
        if not (p.is_subclass(ci, "Asset") or ci.name == "Portfolio"):
            continue
        for mname in SETUPS:
            m = ci.methods.get(mname)
            if m is None or all(isinstance(s0, (ast.Pass, ast.Expr)) for s0 in m.body):
                continue
            written = {a for a, _, _ in self_attr_writes(m)} - ctor_attrs.get(ci.name, set()) - {"timegrid"}
            bad = []
            # (1) probes of instance state
            for n in au.walk_local(m.node, include_self=False):
                if isinstance(n, ast.Call) and isinstance(n.func, ast.Name) and n.func.id in ("hasattr", "getattr") and len(n.args) >= 2 \
                        and isinstance(n.args[0], ast.Name) and n.args[0].id == "self":
                    nm = au.const_str(n.args[1])
                    if nm != "timegrid":
                        bad.append((n, "probes self.%s with %s()" % (nm, n.func.id)))
            # (2) reads of an attribute this method writes, before it has written it in this call
            if written:
                dom = _MustAssign()
                w = _W(dom)
                loads = []

                def on_stmt(node, state, loads=loads, written=written):
                    hdr = node.test if isinstance(node, (ast.If, ast.While)) else (node.iter if isinstance(node, ast.For) else node)
                    if isinstance(node, (ast.If, ast.While, ast.For)) or not isinstance(node, (ast.FunctionDef, ast.ClassDef)):
                        for x in au.walk_local(hdr):
                            if isinstance(x, ast.Attribute) and isinstance(x.ctx, ast.Load) and isinstance(x.value, ast.Name) and x.value.id == "self" \
                                    and x.attr in written and x.attr not in state:
                                loads.append(x)
                w.on_stmt = on_stmt
                w.run_function(m)
                seen = set()
                for x in loads:
                    if id(x) not in seen:
                        seen.add(id(x))
                        bad.append((x, "reads self.%s before this call has written it" % x.attr))
            rids = ["C10.h"] + (["C01.k"] if (ci.name == "Portfolio" and mname == "setup_optim_problem") else [])
            for rid in rids:
                ctx.ob(rid, m, "no state carried over from a previous set-up", not bad,
                       "%s: what it finds there was left by an earlier set-up of the same object - possibly for another grid, other prices, "
                       "another interval of a split optimisation. A cache keyed by counts (variables, rows, steps) is reused for a problem "
                       "of equal size but different structure: the solver balances the old nodal rows while the report reads the new "
                       "mapping (imbalance 3 at node N1 in the third interval)" % "; ".join("%s (%s)" % (why, p.where(n)) for n, why in bad[:3]),
                       node=(bad[0][0] if bad else m.node))

    # ... and the helpers of the set-ups: no method of an asset / portfolio decides by probing what an earlier call left on the object
    for ci in sorted(p.classes.values(), key=lambda c: c.name):
        if not (p.is_subclass(ci, "Asset") or ci.name == "Portfolio"):
            continue
        for mname, m in sorted(ci.methods.items()):
            if mname in SETUPS or mname == "__init__":
                continue
            bad = []
            for n in au.walk_local(m.node, include_self=False):
                if isinstance(n, ast.Call) and isinstance(n.func, ast.Name) and n.func.id in ("hasattr", "getattr") and len(n.args) >= 2 \
                        and isinstance(n.args[0], ast.Name) and n.args[0].id == "self":
                    nm = au.const_str(n.args[1])
                    if nm != "timegrid" and nm not in ctor_attrs.get(ci.name, set()):
                        bad.append((n, nm))
            ctx.ob("C10.h", m, "no probe of state left by an earlier call", not bad,
                   "%s decides by %s: the attribute is not set by the constructor - it is whatever an earlier set-up of the same object left there "
                   "(positions of start / shutdown variables recorded for another grid or other prices), so the problem depends on the set-ups before "
                   "it (fresh asset: 72 restrictions, re-used asset: 96)" % (m.qualname, "; ".join("%s(self, %r) at %s" % (n.func.id, nm, p.where(n)) for n, nm in bad[:3])),
                   node=(bad[0][0] if bad else m.node), trivial=not bad)

    # ------------------------------------------------------------ C10.i: a received grid is handed on
    for fn in sorted(p.all_functions(), key=lambda f: f.qualname):
        if fn.parent is not None:
            continue
        gp = fn.param("timegrid")
        if gp is None:
            continue
        for c in p.calls_in(fn):
            targets = [t for t in p.resolve_call(c, fn) if t.param("timegrid") is not None and t.param("timegrid").has_default and au.is_none(t.param("timegrid").default)]
            if not targets or any(t is fn for t in targets):
                continue
            # calls on the object itself run after it has taken the grid (set_timegrid); the rule is about *other* objects
            if not isinstance(c.func, ast.Attribute) or au.base_name(c.func) in ("self", None) or \
                    (isinstance(c.func.value, ast.Call) and isinstance(c.func.value.func, ast.Name) and c.func.value.func.id == "super"):
                continue
            passed = au.kwarg(c, "timegrid") is not None
            if not passed:
                t0 = targets[0]
                names = [q.name for q in t0.params]
                off = 1 if (t0.cls is not None and names and names[0] in ("self", "cls")) else 0
                pos = names.index("timegrid") - off
                passed = len(c.args) > pos and not any(isinstance(a, ast.Starred) for a in c.args)
            if not passed:
                # ... or the receiver was given the grid explicitly before: <recv>.set_timegrid(timegrid)
                recv = au.U(c.func.value)
                passed = any(isinstance(x, ast.Call) and au.method_name(x) == "set_timegrid" and isinstance(x.func, ast.Attribute) and au.U(x.func.value) == recv
                             and au.U(au.arg_or_kw(x, 0, "timegrid")) == "timegrid" and x.lineno < c.lineno for x in au.walk_local(fn.node))
            ctx.ob("C10.i", fn, au.short(c, 80), passed,
                   "%s was given a grid but calls %s without it: the callee then works on the grid its object was last set up with - another "
                   "study, a rolling window, an interval of a split optimisation. With a grid of equal length the result is silently wrong (cost "
                   "samples of an SLP built on the other grid's step lengths and discount factors), otherwise it raises" % (fn.qualname, targets[0].qualname),
                   node=c)

    # ------------------------------------------------------------ C03.f: optimize works on copies
    opt = p.cls("OptimProblem").methods.get("optimize")
    ctx.require(opt is not None, "OptimProblem.optimize vanished")
    muts = [m for m in an.mutations(opt) if m.root in ("self.mapping", "self.c", "self.l", "self.u", "self.b", "self.cType")]
    ctx.ob("C03.f", opt, "the problem is not modified by optimize()", not muts,
           "optimize() changes the problem it is called on: %s. A later optimize() of the same object then solves another problem "
           "(e.g. after make_soft_problem=True the boolean flags stay cleared and a MIP is silently solved as LP)" % "; ".join(
               "%s: %s" % (p.where(m.node), au.short(m.node, 60)) for m in muts[:3]), node=(muts[0].node if muts else opt.node))
