"""Analysis 29 - interval convention, restriction by one selector, zone normalisation (C19.a C19.b C19.c C19.e).

C19.a  every interval-membership test over time points is half open:  >= start  and  < end
C19.b  the overlap guard precedes the assignment into the grid in values_to_grid
C19.c  a restricted grid takes every per-step attribute from the *same* attribute of the reference grid through the same
       selector; the coarse grid is built from consecutive pairs of one date range
C19.e  user dates that are order-compared with grid time points first pass through a zone normaliser (or derive from the
       grid itself); reported under C19 for asset windows / interval data / take periods, under C20 for orders and C15 for
       the fix window
"""
from __future__ import annotations
import ast
from .. import astutil as au
from ..tables import rule, TIME_CARRIERS
from . import analysis

rule("C19.a", "every interval-membership test over time points is half open (>= start and < end)", floor=4, props=["C19", "C08", "C20"])
rule("C19.b", "the overlap guard precedes the assignment into the grid (overlapping intervals are rejected, not overwritten)", floor=1)
rule("C19.c", "a sub-grid takes each per-step attribute from the same attribute of the reference grid through one selector; the "
              "coarse grid is built from consecutive pairs of one date range", floor=8)
rule("C19.e", "a user date that is order-compared with grid time points has passed a zone normaliser (tz_localize / Timestamp(tz=) / "
              "prep_date_dict) or derives from the grid itself", floor=6, props=["C19", "C20", "C15"])

NORMALISERS = {"tz_localize", "tz_convert", "prep_date_dict"}
GRID_ATTRS = {"timepoints", "start", "end", "tz"}


def _is_timeish(e, org, at) -> bool:
    for n in org.nodes(e, at):
        if isinstance(n, ast.Attribute) and n.attr == "timepoints":
            return True
    return False


def _norm_cmp(c: ast.Compare):
    """[(left, op, right)] for (possibly chained) comparisons."""
    out = []
    left = c.left
    for op, right in zip(c.ops, c.comparators):
        out.append((left, op, right))
        left = right
    return out


@analysis("intervals", ["C19.a", "C19.b", "C19.c", "C19.e"])
def run(ctx):
    p = ctx.p
    n_a = n_e = 0
    for fn in sorted(p.all_functions(), key=lambda f: f.qualname):
        if fn.parent is not None:
            continue
        org = ctx.origins(fn, values_only=True)
        for st in au.walk_stmts(fn.body):
            for n in au.walk_own(st):
                # ------------------------------------------------------------ C19.a : pairs of comparisons on one operand
                pair = None
                if isinstance(n, ast.BinOp) and isinstance(n.op, ast.BitAnd):
                    parts = au.flatten_bitand(n)
                    par = p.parent(n)
                    if isinstance(par, ast.BinOp) and isinstance(par.op, ast.BitAnd):
                        parts = None
                elif isinstance(n, ast.BoolOp) and isinstance(n.op, ast.And):
                    parts = au.flatten_boolop(n, ast.And)
                elif isinstance(n, ast.Compare) and len(n.ops) == 2:
                    parts = [n]
                else:
                    parts = None
                if parts:
                    cmps = []
                    for prt in parts:
                        if isinstance(prt, ast.Compare):
                            cmps.extend(_norm_cmp(prt))
                    cmps = [(l, o, r) for l, o, r in cmps if isinstance(o, (ast.Lt, ast.LtE, ast.Gt, ast.GtE))]
                    if len(cmps) >= 2:
                        # find a common operand
                        texts = {}
                        for l, o, r in cmps:
                            for side, x in (("l", l), ("r", r)):
                                texts.setdefault(au.U(x), []).append((side, o, l, r))
                        for common, uses in texts.items():
                            if len(uses) < 2:
                                continue
                            node_common = uses[0][2] if uses[0][0] == "l" else uses[0][3]
                            if not _is_timeish(node_common, org, st):
                                continue
                            lower = upper = None
                            for side, o, l, r in uses[:2]:
                                # express as  common OP bound
                                op = type(o) if side == "l" else {ast.Lt: ast.Gt, ast.Gt: ast.Lt, ast.LtE: ast.GtE, ast.GtE: ast.LtE}[type(o)]
                                if op in (ast.Gt, ast.GtE):
                                    lower = op
                                else:
                                    upper = op
                            if lower is None or upper is None:
                                continue
                            n_a += 1
                            ok = lower is ast.GtE and upper is ast.Lt
                            ctx.ob("C19.a", fn, au.short(n, 100), ok,
                                   "interval membership is tested as %s start and %s end; the convention everywhere else is the half-open "
                                   "[start, end): a point on a boundary would be counted twice or not at all (steps, take periods, orders)"
                                   % (">=" if lower is ast.GtE else ">", "<" if upper is ast.Lt else "<="), node=n)
                            break
                # ------------------------------------------------------------ C19.e : ordering comparison grid time points vs other
                if isinstance(n, ast.Compare):
                    for l, o, r in _norm_cmp(n):
                        if not isinstance(o, (ast.Lt, ast.LtE, ast.Gt, ast.GtE)):
                            continue
                        tl, tr = _is_timeish(l, org, st), _is_timeish(r, org, st)
                        if tl == tr:
                            continue
                        other = r if tl else l
                        nodes = org.nodes(other, st)
                        # stores into the container the value is taken from count as definitions (inp['start'] = ....tz_localize(..))
                        full = ctx.origins(fn).nodes(other, st)
                        normalised = any(isinstance(x, ast.Call) and au.method_name(x) in NORMALISERS for x in full) or \
                            any(isinstance(x, ast.Call) and au.method_name(x) in ("Timestamp", "date_range", "to_datetime") and au.kwarg(x, "tz") is not None for x in full)
                        grid_derived = any(isinstance(x, ast.Attribute) and x.attr in GRID_ATTRS and (
                            "timegrid" in (au.dotted(x) or "") or "restricted" in (au.dotted(x) or "") or (fn.cls is not None and fn.cls.name == "Timegrid" and au.base_name(x) == "self"))
                            for x in nodes)
                        n_e += 1
                        ok = normalised or grid_derived
                        ctx.ob("C19.e", fn, au.short(n, 90), ok,
                               "%s is compared with grid time points but neither passes a zone normaliser nor derives from the grid: on a "
                               "zone-aware grid a naive user date raises TypeError (asset windows, interval data and take periods with naive "
                               "dates are healed)" % au.short(other, 40), node=n,
                               ok_detail="zone-normalised" if normalised else "derived from the grid")
    ctx.require(n_a >= 4, "fewer than 4 interval membership tests over time points found")
    ctx.require(n_e >= 5, "fewer than 5 ordering comparisons with grid time points found")

    # ================================================================= C19.b
    tg = p.cls("Timegrid")
    vg = tg.methods.get("values_to_grid")
    ctx.require(vg is not None, "Timegrid.values_to_grid vanished")
    done = False
    for lp in [s for s in au.walk_stmts(vg.body) if isinstance(s, ast.For)]:
        stores = [s for s in lp.body if isinstance(s, ast.Assign) and isinstance(s.targets[0], ast.Subscript) and isinstance(s.targets[0].value, ast.Name)]
        guards = [s for s in lp.body if isinstance(s, ast.If) and any(isinstance(x, ast.Raise) for x in s.body)
                  and any(isinstance(x, ast.Call) and au.method_name(x) in ("isnan", "isnull", "isna") for x in au.walk_local(s.test))]
        for s in stores:
            arr, sel = s.targets[0].value.id, au.U(s.targets[0].slice)
            g = [x for x in guards if any(isinstance(y, ast.Subscript) and au.base_name(y) == arr and au.U(y.slice) == sel for y in au.walk_local(x.test))]
            done = True
            ok = bool(g) and all(x.lineno < s.lineno for x in g)
            ctx.ob("C19.b", vg, "overlap guard before %s" % au.short(s, 40), ok,
                   "values are written into the grid without first checking (on the same selector) that the cells are still undefined: "
                   "overlapping intervals silently overwrite each other instead of being rejected", node=s)
    if not done:
        ctx.ob("C19.b", vg, "interval loop", None, "loop assigning interval values into the grid not found")

    # ================================================================= C19.c
    init = tg.methods.get("__init__")
    ctx.require(init is not None, "Timegrid.__init__ vanished")
    ref = "ref_timegrid"
    n_c = 0
    for st in au.walk_stmts(init.body):
        tgt = val = None
        if isinstance(st, ast.Assign) and isinstance(st.targets[0], ast.Attribute) and au.base_name(st.targets[0]) == "self":
            tgt, val = st.targets[0].attr, st.value
        elif isinstance(st, ast.Expr) and isinstance(st.value, ast.Call) and au.method_name(st.value) == "append" and st.value.args:
            recv = st.value.func.value
            if isinstance(recv, ast.Attribute) and au.base_name(recv) == "self":
                tgt, val = recv.attr, st.value.args[0]
        if tgt is None or tgt not in TIME_CARRIERS:
            continue
        srcs = [x for x in au.walk_local(val) if isinstance(x, ast.Subscript) and isinstance(x.value, ast.Attribute) and au.base_name(x.value) == ref]
        if not srcs:
            # inside the reference branch every per-step attribute has to come from the reference grid (list initialisations,
            # np.asarray(self.x) conversions and the index itself - taken from ref.I a statement earlier - aside)
            in_ref_branch = False
            for a in p.ancestors(st):
                if isinstance(a, ast.If):
                    nt = au.none_test(a.test)
                    if nt is not None and isinstance(nt[0], ast.Name) and nt[0].id == ref:
                        arm = a.orelse if nt[1] else a.body       # the arm on which the reference grid exists
                        if any(st is x for x in au.walk_stmts(arm)):
                            in_ref_branch = True
            trivial = isinstance(val, (ast.List, ast.Name)) or (isinstance(val, ast.Call) and au.method_name(val) in ("asarray", "array", "len")) \
                or (isinstance(val, ast.Attribute) and au.base_name(val) == ref)
            if in_ref_branch and not trivial and tgt in ("dt", "Dt", "timepoints", "discount_factors"):
                n_c += 1
                ctx.ob("C19.c", init, au.short(st, 80), False,
                       "self.%s of the sub-grid is computed without the reference grid's %s: the step lengths of a coarse sub-grid must be the "
                       "sums of the fine steps it collects (an interval sticking out of the horizon is shorter than its nominal length)" % (tgt, tgt), node=st)
            continue
        n_c += 1
        attrs = {x.value.attr for x in srcs}
        ok = attrs == {tgt}
        ctx.ob("C19.c", init, au.short(st, 80), ok,
               "self.%s of the sub-grid is taken from %s of the reference grid: per-step attributes must be restricted attribute by "
               "attribute (dt from dt, Dt from Dt ...)" % (tgt, sorted(attrs)), node=st)
    # same selector within one block
    for blk_owner in [s for s in au.walk_stmts(init.body) if isinstance(s, (ast.If, ast.For))]:
        for blk in (blk_owner.body, getattr(blk_owner, "orelse", [])):
            sels = {}
            for st in blk:
                if isinstance(st, ast.Assign) and isinstance(st.targets[0], ast.Attribute) and st.targets[0].attr in TIME_CARRIERS \
                        and isinstance(st.value, ast.Subscript) and au.base_name(st.value) == ref:
                    sels[st.targets[0].attr] = au.U(st.value.slice)
                if isinstance(st, ast.If):   # discount factors are copied under hasattr(...)
                    for s2 in st.body:
                        if isinstance(s2, ast.Assign) and isinstance(s2.targets[0], ast.Attribute) and s2.targets[0].attr in TIME_CARRIERS \
                                and isinstance(s2.value, ast.Subscript) and au.base_name(s2.value) == ref:
                            sels[s2.targets[0].attr] = au.U(s2.value.slice)
            if len(sels) >= 3:
                n_c += 1
                ok = len(set(sels.values())) == 1
                ctx.ob("C19.c", init, "one selector for %s" % ", ".join(sorted(sels)), ok,
                       "the attributes of the restricted grid are subset with different selectors %s: the sub-grid is no longer an "
                       "index-consistent subset" % sels, node=blk[0])
    # consecutive pairs of one range
    for lp in [s for s in au.walk_stmts(init.body) if isinstance(s, ast.For)]:
        it = lp.iter
        if isinstance(it, ast.Call) and au.method_name(it) == "zip" and len(it.args) == 2 and all(isinstance(a, ast.Subscript) for a in it.args):
            a, b = it.args
            n_c += 1
            ok = au.U(a.value) == au.U(b.value) and au.U(a.slice).replace(" ", "") in ("0:-1", ":-1") and au.U(b.slice).replace(" ", "") == "1:"
            ctx.ob("C19.c", init, "coarse intervals: %s" % au.short(it, 60), ok,
                   "coarse intervals must be consecutive pairs (x[0:-1], x[1:]) of one date range so that they partition the fine steps "
                   "without gap or overlap", node=lp)
    ctx.require(n_c >= 8, "fewer than 8 sub-grid attribute assignments found in Timegrid.__init__")
