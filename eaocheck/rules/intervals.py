"""Analysis 29 - interval convention, restriction by one selector, zone normalisation (C19.a C19.b C19.c C19.e).

C19.a  every interval-membership test over time points is half open:  >= start  and  < end
C19.b  the overlap guard precedes the assignment into the grid in values_to_grid
C19.c  a restricted grid takes every per-step attribute from the *same* attribute of the reference grid through the same
       selector; the coarse grid is built from consecutive pairs of one date range
C19.e  user dates that are order-compared with grid time points first pass through a zone normaliser (or derive from the
       grid itself); reported under C19 for asset windows / interval data / take periods, under C20 for orders and C15 for
       the fix window
"""
from __future__ import annotations
import ast
from .. import astutil as au
from ..tables import rule, TIME_CARRIERS
from . import analysis

rule("C19.r", "time points and interval boundaries are compared as time stamps (pandas aligns zone and resolution), never through their raw "
              "integer representation (.asi8, .view('i8'), .astype('int64') of a time index), whose unit differs between indices", floor=1,
     props=["C19", "C02", "C08"])
rule("C19.a", "every interval-membership test over time points is half open (>= start and < end)", floor=4, props=["C19", "C08", "C20"])
rule("C19.b", "the overlap guard precedes the assignment into the grid (overlapping intervals are rejected, not overwritten)", floor=1)
rule("C19.c", "a sub-grid takes each per-step attribute from the same attribute of the reference grid through one selector; the "
              "coarse grid is built from consecutive pairs of one date range", floor=8, props=["C19", "C12", "C13"])
rule("C19.e", "a user date that is order-compared with grid time points has passed a zone normaliser (tz_localize / Timestamp(tz=) / "
              "prep_date_dict) or derives from the grid itself", floor=6, props=["C19", "C20", "C15"])

ZONE_CASE = "a zone is attached (tz_localize(zone) / replace(tzinfo=)) only to a value that is known to be naive at that point - under a " \
            "test `<the same value>.tzinfo is None` or right after parsing a zone-free string; an aware value is compared as the " \
            "instant it is (or converted with tz_convert), never stripped and re-read in another zone"
rule("C19.g", "time zone case analysis of interval data, asset windows and grids: " + ZONE_CASE, floor=3)
rule("C15.g", "time zone case analysis of the fix-window date: " + ZONE_CASE, floor=1)
rule("C20.h", "time zone case analysis of order start / end: " + ZONE_CASE, floor=2)
rule("C11.i", "time zone case analysis of dates read back from JSON: " + ZONE_CASE, floor=1)
rule("C19.i", "the boundaries of the coarse intervals of a sub-grid span its whole window: the date range is opened with the window start "
              "and closed with the window end when it does not reach them (anchored frequencies, a window that is not a multiple of "
              "the coarse step) - no fine step is lost", floor=1, props=["C19", "C13"])
rule("C19.j", "the points of a grid built from start / end / freq begin at the grid start: the date range is opened with the start when it "
              "does not begin there (calendar-anchored frequencies 'W', 'MS' ... begin at the first anchor after the start)", floor=1)
rule("C19.k", "an extreme timestamp (pd.Timestamp.max / .min, used for 'valid for ever') never has a zone attached or time added: west of "
              "UTC the localised value lies beyond the representable range and the interval silently becomes empty", floor=0)
rule("C14.i", "Dt - the time elapsed since the start of the *reference* grid, kept for discounting - is not used as a duration by an asset's "
              "set-up: the active duration of a window is restricted.dt.sum()", floor=0, props=["C14", "C16", "C08"])
rule("C19.m", "interval data without 'end': the single-start case (one 'end' is made up) is taken exactly when there is one start - the guard "
              "that separates it from the implied-ends case compares the number of starts with 1", floor=1)
NO_STRIP = "a date that reaches the zone case analysis has not passed a conversion that silently drops its zone (.values on a frame " \
           "column, a datetime64 cast, tz_localize(None)) - neither in the function nor where the constructor stored it"
rule("C19.h", "interval data and asset windows: " + NO_STRIP, floor=2)
rule("C15.h", "fix-window date: " + NO_STRIP, floor=1)
rule("C20.i", "orders: " + NO_STRIP, floor=1)

NORMALISERS = {"tz_localize", "tz_convert", "prep_date_dict"}
GRID_ATTRS = {"timepoints", "start", "end", "tz"}


def _is_timeish(e, org, at) -> bool:
    for n in org.nodes(e, at):
        if isinstance(n, ast.Attribute) and n.attr == "timepoints":
            return True
    return False


def _callers_arg(ctx, fn, pname):
    """[(caller function, statement, argument expression)] for every call of `fn` in the package that binds parameter `pname`"""
    p = ctx.p
    out = []
    names = [q.name for q in fn.params]
    off = 1 if (fn.cls is not None and fn.parent is None and names and names[0] in ("self", "cls")) else 0
    for g in p.all_functions():
        for st in au.walk_stmts(g.body):
            for c in au.walk_own(st):
                if not (isinstance(c, ast.Call) and au.method_name(c) == fn.name):
                    continue
                if fn not in p.resolve_call(c, g):
                    continue
                a = au.kwarg(c, pname)
                if a is None and pname in names:
                    pos = names.index(pname) - off
                    if 0 <= pos < len(c.args) and not any(isinstance(x, ast.Starred) for x in c.args):
                        a = c.args[pos]
                if a is not None:
                    out.append((g, st, a))
    return out


def _norm_cmp(c: ast.Compare):
    """[(left, op, right)] for (possibly chained) comparisons."""
    out = []
    left = c.left
    for op, right in zip(c.ops, c.comparators):
        out.append((left, op, right))
        left = right
    return out


def _strip_ts(e):
    """pd.to_datetime(x) / pd.Timestamp(x) -> x (both keep the zone state of x)."""
    while isinstance(e, ast.Call) and au.method_name(e) in ("to_datetime", "Timestamp") and len(e.args) == 1 and not e.keywords:
        e = e.args[0]
    return e


def _naive_tests(test):
    """values `test` proves naive when it is true: conjuncts `<v>.tzinfo is None` / `<v>.tz is None`."""
    out = []
    for c in (au.flatten_boolop(test, ast.And) if isinstance(test, ast.BoolOp) and isinstance(test.op, ast.And) else [test]):
        nt = au.none_test(c)
        if nt is not None and nt[1] and isinstance(nt[0], ast.Attribute) and nt[0].attr in ("tzinfo", "tz"):
            out.append(au.U(_strip_ts(nt[0].value)))
    return out


def _strips_zone(x) -> str:
    if isinstance(x, ast.Attribute) and x.attr == "values" and not (isinstance(x.value, ast.Call) and au.method_name(x.value) == "values"):
        return ".values (a zone-aware column becomes naive UTC)"
    if isinstance(x, ast.Call):
        m = au.method_name(x)
        if m == "tz_localize" and x.args and au.is_none(x.args[0]):
            return "tz_localize(None)"
        if m == "replace" and au.kwarg(x, "tzinfo") is not None and au.is_none(au.kwarg(x, "tzinfo")):
            return "replace(tzinfo=None)"
        if m == "datetime64":
            return "np.datetime64(..)"
        dts = [k.value for k in x.keywords if k.arg == "dtype"] + (list(x.args[:1]) if m == "astype" else [])
        if any("datetime64" in (au.const_str(d) or au.U(d)) or (au.const_str(d) or "").startswith("M8") for d in dts):
            return "a cast to datetime64"
    return ""


def _stored_strips(ctx, cls, attr):
    """zone-stripping conversions on the way into self.<attr> in the constructors of the class (and its bases)."""
    out = []
    for c in ctx.p.mro(cls):
        init = c.methods.get("__init__")
        if init is None:
            continue
        org = ctx.origins(init)
        for st in au.walk_stmts(init.body):
            if isinstance(st, ast.Assign) and any(au.path(t) == "self." + attr for t in st.targets):
                for x in org.nodes(st.value, st):
                    why = _strips_zone(x)
                    if why:
                        out.append((init, x, why))
    return out


def _zone_cases(ctx):
    p = ctx.p
    counts = {}
    for fn in sorted(p.all_functions(), key=lambda f: f.qualname):
        if fn.parent is not None:
            continue
        rid = "C19.g"
        if fn.cls is not None and fn.cls.name == "OrderBook":
            rid = "C20.h"
        elif fn.module.name.endswith("serialization"):
            rid = "C11.i"
        ff = None
        for st in au.walk_stmts(fn.body):
            for n in au.walk_own(st):
                if not isinstance(n, ast.Call) or not isinstance(n.func, ast.Attribute):
                    continue
                m = n.func.attr
                zone = None
                if m == "tz_localize" and (n.args or n.keywords):
                    zone = n.args[0] if n.args else n.keywords[0].value
                elif m == "replace" and au.kwarg(n, "tzinfo") is not None:
                    zone = au.kwarg(n, "tzinfo")
                if zone is None or au.is_none(zone):
                    continue
                recv = n.func.value
                rtxt = au.U(_strip_ts(recv))
                my_rid = rid
                if rid == "C19.g" and any(isinstance(a, ast.If) and "fix_time_window" in au.names_in(a.test) for a in p.ancestors(n)):
                    my_rid = "C15.g"
                # (i) under a naive test on the same value (no re-definition of the value between test and call is possible
                #     inside one statement; for a block: the receiver's base name is not assigned between the `if` and the call)
                proven = None
                child = n
                for a in p.ancestors(n):
                    if isinstance(a, ast.If) and any(child is x or any(child is y for y in ast.walk(x)) for x in a.body):
                        if rtxt in _naive_tests(a.test):
                            base = au.base_name(_strip_ts(recv))
                            redefined = any(isinstance(s2, (ast.Assign, ast.AugAssign)) and s2.lineno < st.lineno and
                                            base in {t for t0 in au.stmt_targets(s2) for t in au.target_names(t0)}
                                            for s2 in au.walk_stmts(a.body))
                            if not redefined:
                                proven = "under `%s`" % au.short(a.test, 60)
                                break
                    if isinstance(a, ast.IfExp) and rtxt in _naive_tests(a.test):
                        proven = "under `%s`" % au.short(a.test, 60)
                        break
                    child = a
                # (ii) freshly parsed from a zone-free format
                if proven is None and isinstance(recv, ast.Name):
                    ff = ff or ctx.flow(fn)
                    ds = [d for d in ff.defs(recv.id, st)]
                    if ds and all(d.kind == "assign" and d.value is not None and any(
                            isinstance(x, ast.Call) and au.method_name(x) == "strptime" and len(x.args) == 2 and au.const_str(x.args[1]) is not None
                            and "%z" not in au.const_str(x.args[1]).lower() for x in au.walk_local(d.value)) for d in ds):
                        proven = "parsed from a zone-free string"
                counts[my_rid] = counts.get(my_rid, 0) + 1
                stripped = any(isinstance(x, ast.Call) and au.method_name(x) == "tz_localize" and x.args and au.is_none(x.args[0]) for x in au.walk_local(recv))
                ctx.ob(my_rid, fn, au.short(n, 80), proven is not None,
                       "%s gets the zone %s attached without being known naive here%s: for an aware value (a UTC datetime on a CET grid) "
                       "tz_localize raises TypeError, and after stripping its zone the wall-clock reading is re-interpreted in the other "
                       "zone, i.e. the instant shifts by the offset between the zones" % (
                           au.short(recv, 50), au.short(zone, 30), " (its own zone is stripped first with tz_localize(None))" if stripped else ""),
                       node=n, ok_detail=proven or "")
                def _extremes(e, at):
                    return [x for x in ctx.origins(fn).nodes(e, at) if isinstance(x, ast.Attribute) and x.attr in ("max", "min")
                            and isinstance(x.value, ast.Attribute) and x.value.attr == "Timestamp"]
                core = _strip_ts(recv)
                if isinstance(core, ast.Subscript) and isinstance(core.value, ast.Name) and au.const_str(core.slice) is not None:
                    # an element of a dictionary: only what was stored under that key
                    extreme = []
                    for d in ctx.flow(fn).defs(core.value.id, st):
                        if d.kind == "store" and isinstance(d.index, str) and d.index.replace('"', "'") == au.U(core).replace('"', "'") and d.value is not None:
                            extreme += _extremes(d.value, d.node)
                else:
                    extreme = _extremes(recv, st)
                if extreme:
                    ctx.ob("C19.k", fn, au.short(n, 80), False,
                           "%s can be pd.Timestamp.%s (line %s, the end of an interval that is 'valid for ever'); attaching a zone west of UTC "
                           "moves it beyond the largest representable instant - the comparison `time points < end` is then false everywhere "
                           "and the value is assigned to no step (grid in America/New_York, {'start': .., 'values': 3}: [nan nan])" % (
                               au.short(recv, 40), extreme[0].attr, extreme[0].lineno), node=n)
                # ---- no zone-stripping conversion upstream of the value
                srid = {"C20.h": "C20.i", "C19.g": "C19.h", "C15.g": "C15.h"}.get(my_rid)
                if srid is None:
                    continue
                full = ctx.origins(fn).nodes(recv, st)
                strips = [(fn, x, _strips_zone(x)) for x in full if _strips_zone(x)]
                if fn.cls is not None:
                    for x in full:
                        if isinstance(x, ast.Attribute) and isinstance(x.value, ast.Name) and x.value.id == "self" and isinstance(x.ctx, ast.Load):
                            strips.extend(_stored_strips(ctx, fn.cls, x.attr))
                counts[srid] = counts.get(srid, 0) + 1
                ctx.ob(srid, fn, "origin of %s" % au.short(recv, 50), not strips,
                       "%s passes through %s%s before its zone is looked at: a zone-aware date given by the user arrives naive (in UTC), "
                       "is then taken for a naive local date and gets the grid's zone attached - the instant shifts by the grid's UTC "
                       "offset (an order 10:00-12:00 CET is executed 09:00-11:00)" % (
                           au.short(recv, 40), strips[0][2] if strips else "", (" in %s line %s" % (strips[0][0].qualname, strips[0][1].lineno)) if strips else ""),
                       node=(strips[0][1] if strips and strips[0][0] is fn else n))
    return counts


rule("C19.n", "a window is half open wherever its end meets a time point: a comparison of a grid time point (an element of .timepoints) with the "
              "end of a window is `point < end` (inside) or `point >= end` (outside) - also in a shortcut that decides 'the window covers the "
              "whole grid' from the last point. `end >= last point` takes the closed interval: a window that ends exactly on the last point "
              "gets that point too", floor=0, props=["C19", "C14", "C08"])
rule("C13.n", "two frequencies are the same only if they are the same frequency: they are compared as a whole (the strings, or the offsets) - "
              "not through a projection that drops the multiple (to_offset(f).name is 'h' for 'h', '2h' and '4h'): an asset with freq '4h' on an "
              "hourly grid would count as having the grid's frequency and be dispatched hour by hour", floor=0, props=["C13", "C19"])
rule("C16.q", "the time a window is active is the sum of the step lengths of its restricted grid: restricted.start / .end (and an asset's own start / "
              "end) are the dates as given, not clipped to the horizon and not snapped to the grid - their difference is not a duration a set-up may "
              "charge for", floor=0, props=["C16", "C08", "C14"])
rule("C19.o", "already-gridded prices pass through unchanged: a price table with a numeric (positional) index is mapped onto the grid's time "
              "points row by row, in the caller's order - between taking the copy and `index = self.timepoints` nothing re-orders, "
              "aggregates or drops rows (groupby / sort / drop_duplicates / resample ... sort by label: a table whose labels are not "
              "increasing would be permuted before the positional mapping)", floor=1)
rule("C02.i", "interval data brought to the grid keeps its gaps: a step that lies in no interval is undefined (NaN) until the documented "
              "default fills it (vec[isnan(vec)] = default_value) - no other gap filler (ffill / bfill / interpolate / nan_to_num / fillna with "
              "another value) runs on the result of values_to_grid: a spread, cost or capacity given for an interval must not be carried "
              "beyond its end", floor=1, props=["C02", "C19"])


@analysis("intervals", ["C19.a", "C19.b", "C19.c", "C19.e", "C19.g", "C15.g", "C20.h", "C11.i", "C19.h", "C20.i", "C15.h", "C19.i", "C19.j", "C19.k", "C14.i", "C19.m", "C02.i", "C19.n", "C19.o", "C13.n", "C16.q", "C19.r"])
def run(ctx):
    p = ctx.p
    # ---------------------------------------------------------------- C19.r no comparison of raw integer stamps
    INT_VIEWS = ("asi8",)
    n_cmp = 0
    for fn_ in sorted(p.all_functions(), key=lambda f: f.qualname):
        hits = []
        for x in au.walk_local(fn_.node, include_self=False):
            if isinstance(x, ast.Attribute) and x.attr in INT_VIEWS:
                hits.append(x)
            elif isinstance(x, ast.Call) and au.method_name(x) in ("view", "astype") and x.args and (
                    au.const_str(x.args[0]) in ("i8", "int64", "<i8") or au.U(x.args[0]) in ("np.int64", "numpy.int64", "'int64'")) \
                    and isinstance(x.func, ast.Attribute) and any(w in au.U(x.func.value) for w in ("timepoints", "to_datetime", "DatetimeIndex", "date_range")):
                hits.append(x)
            if isinstance(x, ast.Compare):
                n_cmp += 1
        for h in hits:
            ctx.ob("C19.r", fn_, "time stamps as integers: %s" % au.short(h, 60), False,
                   "%s takes the integer representation of time stamps; it is counted in the unit of *that* index (ns, s, D ...), so a comparison "
                   "with the integers of another index is only right when both happen to have the same unit: interval boundaries given as "
                   "datetime64[D] / [s] arrays lie 1e9 x below the grid's ns values and select nothing (0 of 192 points got a value), "
                   "and overlaps are accepted silently" % au.short(h, 60), node=h)
    ctx.ob("C19.r", "package", "time points are compared as time stamps", True, ok_detail="%d comparisons in the package, none on integer views of time stamps" % n_cmp)
    zc = _zone_cases(ctx)
    ctx.require(sum(zc.values()) >= 5, "fewer than 5 zone attachments (tz_localize) found", rules=['C19.g', 'C15.g', 'C20.h', 'C11.i', 'C19.h', 'C20.i', 'C15.h', 'C19.k'])
    n_a = n_e = 0
    for fn in sorted(p.all_functions(), key=lambda f: f.qualname):
        if fn.parent is not None:
            continue
        org = ctx.origins(fn, values_only=True)
        for st in au.walk_stmts(fn.body):
            for n in au.walk_own(st):
                # ------------------------------------------------------------ C19.a : pairs of comparisons on one operand
                pair = None
                if isinstance(n, ast.BinOp) and isinstance(n.op, ast.BitAnd):
                    parts = au.flatten_bitand(n)
                    par = p.parent(n)
                    if isinstance(par, ast.BinOp) and isinstance(par.op, ast.BitAnd):
                        parts = None
                elif isinstance(n, ast.BoolOp) and isinstance(n.op, ast.And):
                    parts = au.flatten_boolop(n, ast.And)
                elif isinstance(n, ast.Compare) and len(n.ops) == 2:
                    parts = [n]
                else:
                    parts = None
                if parts:
                    cmps = []
                    for prt in parts:
                        if isinstance(prt, ast.Compare):
                            cmps.extend(_norm_cmp(prt))
                    cmps = [(l, o, r) for l, o, r in cmps if isinstance(o, (ast.Lt, ast.LtE, ast.Gt, ast.GtE))]
                    if len(cmps) >= 2:
                        # find a common operand
                        texts = {}
                        for l, o, r in cmps:
                            for side, x in (("l", l), ("r", r)):
                                texts.setdefault(au.U(x), []).append((side, o, l, r))
                        for common, uses in texts.items():
                            if len(uses) < 2:
                                continue
                            node_common = uses[0][2] if uses[0][0] == "l" else uses[0][3]
                            if not _is_timeish(node_common, org, st):
                                continue
                            lower = upper = None
                            for side, o, l, r in uses[:2]:
                                # express as  common OP bound
                                op = type(o) if side == "l" else {ast.Lt: ast.Gt, ast.Gt: ast.Lt, ast.LtE: ast.GtE, ast.GtE: ast.LtE}[type(o)]
                                if op in (ast.Gt, ast.GtE):
                                    lower = op
                                else:
                                    upper = op
                            if lower is None or upper is None:
                                continue
                            n_a += 1
                            ok = lower is ast.GtE and upper is ast.Lt
                            ctx.ob("C19.a", fn, au.short(n, 100), ok,
                                   "interval membership is tested as %s start and %s end; the convention everywhere else is the half-open "
                                   "[start, end): a point on a boundary would be counted twice or not at all (steps, take periods, orders)"
                                   % (">=" if lower is ast.GtE else ">", "<" if upper is ast.Lt else "<="), node=n)
                            break
                # ------------------------------------------------------------ C19.n : one time point against the end of a window
                if isinstance(n, ast.Compare) and len(n.ops) == 1 and isinstance(n.ops[0], (ast.Lt, ast.LtE, ast.Gt, ast.GtE)):
                    l0, r0 = n.left, n.comparators[0]

                    def is_point(e):
                        return any(isinstance(x, ast.Attribute) and x.attr == "timepoints" for x in au.walk_local(e))

                    def is_end(e):
                        e = _strip_ts(e)
                        return (isinstance(e, ast.Attribute) and e.attr == "end") or (isinstance(e, ast.Name) and e.id == "end")
                    opn = None
                    if is_point(l0) and is_end(r0):
                        opn = type(n.ops[0])
                    elif is_end(l0) and is_point(r0):
                        opn = {ast.Lt: ast.Gt, ast.Gt: ast.Lt, ast.LtE: ast.GtE, ast.GtE: ast.LtE}[type(n.ops[0])]
                    if opn is not None:
                        ctx.ob("C19.n", fn, au.short(n, 80), opn in (ast.Lt, ast.GtE),
                               "a time point is compared with the end of a window as `point %s end`: windows are half open - a point equal to the end "
                               "is outside. Here a window that ends exactly on the (last) point is treated as covering it: an asset whose end is the "
                               "last time point of the reference grid (of the horizon, or of an interval of a split optimisation) is dispatched one step "
                               "beyond its end; an interval boundary on the last point swallows the whole grid" % ("<=" if opn is ast.LtE else ">"), node=n)
                # ------------------------------------------------------------ C19.e : ordering comparison grid time points vs other
                if isinstance(n, ast.Compare):
                    for l, o, r in _norm_cmp(n):
                        if not isinstance(o, (ast.Lt, ast.LtE, ast.Gt, ast.GtE)):
                            continue
                        tl, tr = _is_timeish(l, org, st), _is_timeish(r, org, st)
                        if tl == tr:
                            continue
                        other = r if tl else l
                        nodes = org.nodes(other, st)
                        # stores into the container the value is taken from count as definitions (inp['start'] = ....tz_localize(..))
                        full = ctx.origins(fn).nodes(other, st)
                        normalised = any(isinstance(x, ast.Call) and au.method_name(x) in NORMALISERS for x in full) or \
                            any(isinstance(x, ast.Call) and au.method_name(x) in ("Timestamp", "date_range", "to_datetime") and au.kwarg(x, "tz") is not None for x in full)
                        grid_derived = any(isinstance(x, ast.Attribute) and x.attr in GRID_ATTRS and (
                            "timegrid" in (au.dotted(x) or "") or "restricted" in (au.dotted(x) or "") or (fn.cls is not None and fn.cls.name == "Timegrid" and au.base_name(x) == "self"))
                            for x in nodes)
                        n_e += 1
                        ok = normalised or grid_derived
                        if not ok:
                            # the value comes out of a method of the package (a helper that builds the boundaries): judged by what it returns
                            for x in full:
                                if isinstance(x, ast.Call) and isinstance(x.func, ast.Attribute) and au.U(x.func.value) == "self":
                                    for t_ in p.resolve_call(x, fn):
                                        rets_ = [r_ for r_ in au.walk_stmts(t_.body) if isinstance(r_, ast.Return) and r_.value is not None]
                                        if rets_ and all(any((isinstance(y, ast.Call) and au.method_name(y) in NORMALISERS) or
                                                             (isinstance(y, ast.Call) and au.method_name(y) in ("Timestamp", "date_range", "to_datetime") and au.kwarg(y, "tz") is not None) or
                                                             (isinstance(y, ast.Attribute) and y.attr in GRID_ATTRS and au.base_name(y) == "self" and t_.cls is not None and t_.cls.name == "Timegrid")
                                                             for y in ctx.origins(t_).nodes(r_.value, r_)) for r_ in rets_):
                                            ok = True
                        if not ok and isinstance(other, ast.Name) and fn.param(other.id) is not None and not [d for d in ctx.flow(fn).defs(other.id, st) if d.kind != "param"]:
                            # the value is a parameter of a helper: what matters is what the package's own callers hand over
                            # (a helper extracted from a comparison must not change the verdict of that comparison)
                            sites = _callers_arg(ctx, fn, other.id)
                            if sites:
                                bad_site = None
                                for cfn, cst, arg in sites:
                                    corg = ctx.origins(cfn, values_only=True)
                                    cfull = ctx.origins(cfn).nodes(arg, cst)
                                    cnorm = any(isinstance(x, ast.Call) and au.method_name(x) in NORMALISERS for x in cfull) or \
                                        any(isinstance(x, ast.Call) and au.method_name(x) in ("Timestamp", "date_range", "to_datetime") and au.kwarg(x, "tz") is not None for x in cfull)
                                    cgrid = any(isinstance(x, ast.Attribute) and x.attr in GRID_ATTRS and (
                                        "timegrid" in (au.dotted(x) or "") or "restricted" in (au.dotted(x) or "") or (cfn.cls is not None and cfn.cls.name == "Timegrid" and au.base_name(x) == "self"))
                                        for x in corg.nodes(arg, cst))
                                    if not (cnorm or cgrid):
                                        bad_site = (cfn, cst, arg)
                                ok = bad_site is None
                                if ok:
                                    ctx.ob("C19.e", fn, au.short(n, 90), True, ok_detail="parameter of a helper: every caller in the package hands over a normalised / grid-derived date", node=n)
                                    continue
                                fn_b, st_b, arg_b = bad_site
                                ctx.ob("C19.e", fn_b, "%s handed to %s" % (au.short(arg_b, 40), fn.qualname), False,
                                       "%s is handed to %s, which compares it with grid time points, but it neither passes a zone normaliser nor derives from the "
                                       "grid: on a zone-aware grid a naive user date raises TypeError" % (au.short(arg_b, 40), fn.qualname), node=st_b)
                                continue
                        ctx.ob("C19.e", fn, au.short(n, 90), ok,
                               "%s is compared with grid time points but neither passes a zone normaliser nor derives from the grid: on a "
                               "zone-aware grid a naive user date raises TypeError (asset windows, interval data and take periods with naive "
                               "dates are healed)" % au.short(other, 40), node=n,
                               ok_detail="zone-normalised" if normalised else "derived from the grid")
    ctx.require(n_a >= 2, "fewer than 2 interval membership tests over time points found", rules=['C19.a'])
    ctx.require(n_e >= 5, "fewer than 5 ordering comparisons with grid time points found", rules=['C19.e'])

    # ================================================================= C19.b
    tg = p.cls("Timegrid")
    vg = tg.methods.get("values_to_grid")
    ctx.require(vg is not None, "Timegrid.values_to_grid vanished", rules=['C19.b'])
    done = False
    for lp in [s for s in au.walk_stmts(vg.body) if isinstance(s, ast.For)]:
        stores = [s for s in lp.body if isinstance(s, ast.Assign) and isinstance(s.targets[0], ast.Subscript) and isinstance(s.targets[0].value, ast.Name)]
        guards = [s for s in lp.body if isinstance(s, ast.If) and any(isinstance(x, ast.Raise) for x in s.body)
                  and any(isinstance(x, ast.Call) and au.method_name(x) in ("isnan", "isnull", "isna") for x in au.walk_local(s.test))]
        for s in stores:
            arr, sel = s.targets[0].value.id, au.U(s.targets[0].slice)
            g = [x for x in guards if any(isinstance(y, ast.Subscript) and au.base_name(y) == arr and au.U(y.slice) == sel for y in au.walk_local(x.test))]
            done = True
            ok = bool(g) and all(x.lineno < s.lineno for x in g)
            ctx.ob("C19.b", vg, "overlap guard before %s" % au.short(s, 40), ok,
                   "values are written into the grid without first checking (on the same selector) that the cells are still undefined: "
                   "overlapping intervals silently overwrite each other instead of being rejected", node=s)
    if not done:
        ctx.ob("C19.b", vg, "interval loop", None, "loop assigning interval values into the grid not found")

    # ================================================================= C19.m single start versus implied ends
    found_m = False
    for iff in [s0 for s0 in au.walk_stmts(vg.body) if isinstance(s0, ast.If) and s0.orelse]:
        t = iff.test
        if not (isinstance(t, ast.Compare) and len(t.ops) == 1 and isinstance(t.left, ast.Call) and au.call_name(t.left) == "len" and au.const_num(t.comparators[0]) is not None):
            continue
        one_elem = [s1 for s1 in iff.orelse + iff.body if isinstance(s1, ast.Assign) and isinstance(s1.value, ast.List) and len(s1.value.elts) == 1
                    and isinstance(s1.targets[0], ast.Subscript)]
        if not one_elem:
            continue
        found_m = True
        k = au.const_num(t.comparators[0])
        in_else = any(one_elem[0] is x for x in iff.orelse)
        op = type(t.ops[0])
        # the arm with the one-element list must be taken iff len == 1
        ok = (in_else and ((op is ast.Gt and k == 1) or (op is ast.GtE and k == 2) or (op is ast.NotEq and k == 1))) or \
            ((not in_else) and ((op is ast.Eq and k == 1) or (op is ast.LtE and k == 1) or (op is ast.Lt and k == 2)))
        ctx.ob("C19.m", vg, "if %s" % au.short(t, 50), ok,
               "the arm that makes up a single 'end' (a one-element list) is taken for every input that fails `%s`, i.e. also for %s starts: "
               "zip(start, end, values) then silently drops all intervals but the first, and every grid point gets the first interval's "
               "value (winter / summer capacity 10 / 4: 10 all year)" % (au.short(t, 40), "two" if k == 2 else "several"), node=iff)
    if not found_m:
        ctx.ob("C19.m", vg, "single-start case", None, "the branch that makes up a single 'end' was not found")

    # ================================================================= C19.c
    init = tg.methods.get("__init__")
    ctx.require(init is not None, "Timegrid.__init__ vanished")
    ref = "ref_timegrid"
    n_c = 0
    for st in au.walk_stmts(init.body):
        tgt = val = None
        if isinstance(st, ast.Assign) and isinstance(st.targets[0], ast.Attribute) and au.base_name(st.targets[0]) == "self":
            tgt, val = st.targets[0].attr, st.value
        elif isinstance(st, ast.Expr) and isinstance(st.value, ast.Call) and au.method_name(st.value) == "append" and st.value.args:
            recv = st.value.func.value
            if isinstance(recv, ast.Attribute) and au.base_name(recv) == "self":
                tgt, val = recv.attr, st.value.args[0]
        if tgt is None or tgt not in TIME_CARRIERS:
            continue
        srcs = [x for x in au.walk_local(val) if isinstance(x, ast.Subscript) and isinstance(x.value, ast.Attribute) and au.base_name(x.value) == ref]
        # any other mention of a per-step attribute of the reference grid (its dtype, its length ...) and integer casts
        mentions = {x.attr for x in au.walk_local(val) if isinstance(x, ast.Attribute) and x.attr in TIME_CARRIERS and isinstance(x.value, ast.Name)
                    and x.value.id == ref}
        casts = [k.value for c in au.walk_local(val) if isinstance(c, ast.Call) for k in c.keywords if k.arg == "dtype"] + \
                [c.args[0] for c in au.walk_local(val) if isinstance(c, ast.Call) and au.method_name(c) == "astype" and c.args]
        int_cast = [c for c in casts if any((isinstance(x, ast.Name) and x.id == "int") or (isinstance(x, ast.Attribute) and x.attr.startswith(("int", "uint")))
                                            or (isinstance(x, ast.Constant) and isinstance(x.value, str) and x.value.startswith(("int", "uint", "i8", "i4")))
                                            for x in au.walk_local(c))]
        if tgt in ("dt", "Dt", "discount_factors") and (int_cast or (mentions - {tgt} and not srcs)):
            n_c += 1
            ctx.ob("C19.c", init, au.short(st, 80), False,
                   "self.%s holds real numbers (step lengths / durations in main time units, discount factors) but is cast %s: a step of "
                   "half a unit (30 min in 'h', a 23 h day in 'd') becomes 0" % (
                       tgt, "to an integer type" if int_cast else "with a property of the reference grid's %s" % sorted(mentions - {tgt})), node=st)
            continue
        if not srcs:
            # inside the reference branch every per-step attribute has to come from the reference grid (list initialisations,
            # np.asarray(self.x) conversions and the index itself - taken from ref.I a statement earlier - aside)
            in_ref_branch = False
            for a in p.ancestors(st):
                if isinstance(a, ast.If):
                    nt = au.none_test(a.test)
                    if nt is not None and isinstance(nt[0], ast.Name) and nt[0].id == ref:
                        arm = a.orelse if nt[1] else a.body       # the arm on which the reference grid exists
                        if any(st is x for x in au.walk_stmts(arm)):
                            in_ref_branch = True
            trivial = isinstance(val, (ast.List, ast.Name)) or (isinstance(val, ast.Call) and au.method_name(val) in ("asarray", "array", "len")) \
                or (isinstance(val, ast.Attribute) and au.base_name(val) == ref)
            if in_ref_branch and not trivial and tgt in ("dt", "Dt", "timepoints", "discount_factors"):
                n_c += 1
                ctx.ob("C19.c", init, au.short(st, 80), False,
                       "self.%s of the sub-grid is computed without the reference grid's %s: the step lengths of a coarse sub-grid must be the "
                       "sums of the fine steps it collects (an interval sticking out of the horizon is shorter than its nominal length)" % (tgt, tgt), node=st)
            continue
        n_c += 1
        attrs = {x.value.attr for x in srcs}
        ok = attrs == {tgt}
        ctx.ob("C19.c", init, au.short(st, 80), ok,
               "self.%s of the sub-grid is taken from %s of the reference grid: per-step attributes must be restricted attribute by "
               "attribute (dt from dt, Dt from Dt ...)" % (tgt, sorted(attrs)), node=st)
    # same selector within one block
    for blk_owner in [s for s in au.walk_stmts(init.body) if isinstance(s, (ast.If, ast.For))]:
        for blk in (blk_owner.body, getattr(blk_owner, "orelse", [])):
            sels = {}
            for st in blk:
                if isinstance(st, ast.Assign) and isinstance(st.targets[0], ast.Attribute) and st.targets[0].attr in TIME_CARRIERS \
                        and isinstance(st.value, ast.Subscript) and au.base_name(st.value) == ref:
                    sels[st.targets[0].attr] = au.U(st.value.slice)
                if isinstance(st, ast.If):   # discount factors are copied under hasattr(...)
                    for s2 in st.body:
                        if isinstance(s2, ast.Assign) and isinstance(s2.targets[0], ast.Attribute) and s2.targets[0].attr in TIME_CARRIERS \
                                and isinstance(s2.value, ast.Subscript) and au.base_name(s2.value) == ref:
                            sels[s2.targets[0].attr] = au.U(s2.value.slice)
            if len(sels) >= 3:
                n_c += 1
                ok = len(set(sels.values())) == 1
                ctx.ob("C19.c", init, "one selector for %s" % ", ".join(sorted(sels)), ok,
                       "the attributes of the restricted grid are subset with different selectors %s: the sub-grid is no longer an "
                       "index-consistent subset" % sels, node=blk[0])
    # consecutive pairs of one range
    for lp in [s for s in au.walk_stmts(init.body) if isinstance(s, ast.For)]:
        it = lp.iter
        if isinstance(it, ast.Call) and au.method_name(it) == "zip" and len(it.args) == 2 and all(isinstance(a, ast.Subscript) for a in it.args):
            a, b = it.args
            n_c += 1
            ok = au.U(a.value) == au.U(b.value) and au.U(a.slice).replace(" ", "") in ("0:-1", ":-1") and au.U(b.slice).replace(" ", "") == "1:"
            ctx.ob("C19.c", init, "coarse intervals: %s" % au.short(it, 60), ok,
                   "coarse intervals must be consecutive pairs (x[0:-1], x[1:]) of one date range so that they partition the fine steps "
                   "without gap or overlap", node=lp)

    # ---- C19.i: the boundaries of the coarse intervals span [start, end) - whichever way the intervals are cut out of them
    coarse = [st for st in au.walk_stmts(init.body) if isinstance(st, ast.Assign) and isinstance(st.targets[0], ast.Name)
              and isinstance(st.value, ast.Call) and au.method_name(st.value) == "date_range"
              and au.kwarg(st.value, "start") is not None
              and au.U(au.kwarg(st.value, "freq") or ast.Constant(None)) != "self.freq"]
    for rng in coarse:
        # the coarse steps are the asset's own: counted from the start of its window, wherever the horizon begins
        sk, ek = au.kwarg(rng.value, "start"), au.kwarg(rng.value, "end")
        nk = au.kwarg(rng.value, "normalize")
        if nk is not None and not (isinstance(nk, ast.Constant) and nk.value is False):
            ctx.ob("C19.i", init, "coarse boundaries lie inside the window", False,
                   "the boundaries are generated with normalize=%s: the first boundary is moved back to midnight of the start day, i.e. *before* the window "
                   "start, and nothing trims it (the repair only prepends the start when the first boundary lies after it) - a daily sub-grid of a "
                   "window that starts at 06:00 collects the fine steps from midnight on: the restricted grid contains a point outside the window"
                   % au.short(nk, 40), node=rng, key="coarse boundaries are not normalised to midnight")
        dep = [x for k0 in (sk, ek) if k0 is not None for x in au.walk_local(k0) if isinstance(x, ast.Name) and x.id == ref]
        ctx.ob("C19.i", init, "coarse boundaries are counted from the window start", au.U(sk) == "self.start" if not dep else False,
               "the boundaries of the coarse intervals are generated from %s .. %s, which depends on the reference grid: the coarse steps of an asset "
               "(gas days from 06:00, its own '4h' blocks) then begin at the horizon start instead of the asset's start whenever the asset starts "
               "before the horizon - the rate is constant over other intervals than the asset's own, the optimum differs from the fine problem "
               "with the asset's equalities (553.7 vs 712.6)" % (au.short(sk, 40), au.short(ek, 40)), node=rng,
               key="coarse boundaries are counted from the window start")
    # an empty range (no anchor of the frequency inside the window) is opened and closed as well: the repair of the first boundary is not
    # made to depend on the range being non-empty - in __init__ or in a helper it calls
    n_open = 0
    for m_ in sorted(p.cls("Timegrid").methods.values(), key=lambda f: f.qualname):
        for rng_ in au.walk_stmts(m_.body):
            if not (isinstance(rng_, ast.Assign) and isinstance(rng_.targets[0], ast.Name) and isinstance(rng_.value, ast.Call)
                    and au.method_name(rng_.value) == "date_range" and au.kwarg(rng_.value, "start") is not None
                    and au.U(au.kwarg(rng_.value, "freq") or ast.Constant(None)) != "self.freq"):
                continue
            seq_ = rng_.targets[0].id
            for x in au.walk_local(m_.node, include_self=False):
                if isinstance(x, ast.Call) and isinstance(x.func, ast.Attribute) and x.func.attr == "insert" and au.base_name(x.func) == seq_ \
                        and x.args and au.const_num(x.args[0]) == 0:
                    n_open += 1
                    needs_nonempty = None
                    child = x
                    for a0 in p.ancestors(x):
                        if isinstance(a0, ast.If) and any(child is b0 or any(child is y for y in ast.walk(b0)) for b0 in a0.body):
                            for cj in au.flatten_boolop(a0.test, ast.And):
                                if isinstance(cj, ast.Compare) and isinstance(cj.left, ast.Call) and au.call_name(cj.left) == "len" and au.U(cj.left.args[0]) == seq_ \
                                        and isinstance(cj.ops[0], (ast.Gt, ast.GtE, ast.NotEq)):
                                    needs_nonempty = a0
                                if isinstance(cj, ast.Call) and au.call_name(cj) == "len" and au.U(cj.args[0]) == seq_:
                                    needs_nonempty = a0
                        if a0 is m_.node:
                            break
                        child = a0
                    ctx.ob("C19.i", m_, "an empty range of coarse boundaries is opened too", needs_nonempty is None,
                           "the window start is prepended to %s only if the range is not empty (%s): a window without any anchor of the frequency (Monday "
                           "to Saturday with 'W') yields no boundary at all, the coarse sub-grid is silently empty - T = 0, none of the 120 fine steps "
                           "covered" % (seq_, au.short(needs_nonempty.test, 50) if needs_nonempty is not None else ""), node=x,
                           key="an empty range of coarse boundaries is opened too")
    if not coarse:
        ctx.ob("C19.i", init, "coarse boundaries span the window", None, "date_range(start=self.start, ..., freq=<coarse freq>) not found")
    for rng in coarse:
        seq_name = rng.targets[0].id
        opened = closed = False
        o_node = c_node = None
        repair_stmts = set()
        for s2 in au.walk_stmts(init.body):
            if s2.lineno <= rng.lineno:
                continue
            for x in au.walk_own(s2):
                if isinstance(x, ast.Call) and isinstance(x.func, ast.Attribute) and au.base_name(x.func) == seq_name:
                    txt = au.U(x)
                    if x.func.attr == "insert" and x.args and au.const_num(x.args[0]) == 0 and "start" in txt:
                        opened, o_node = True, x
                        repair_stmts.add(id(s2))
                    if x.func.attr in ("append", "union") and "end" in txt:
                        closed, c_node = True, x
                        repair_stmts.add(id(s2))
                    if x.func.attr == "insert" and x.args and au.const_num(x.args[0]) != 0 and len(x.args) > 1 and "end" in au.U(x.args[1]):
                        closed, c_node = True, x
                        repair_stmts.add(id(s2))
                if isinstance(x, ast.Call) and au.method_name(x) in ("union", "append", "DatetimeIndex", "concat") and seq_name in au.names_in(x) \
                        and "start" in au.U(x) and "end" in au.U(x):
                    opened = closed = True
                    repair_stmts.add(id(s2))
        excl_done = False
        if opened and closed and o_node is not None and c_node is not None:
            # the two repairs are independent of each other: they may not sit in mutually exclusive arms of one `if`
            def arms(n):
                out, child = {}, n
                for a0 in p.ancestors(n):
                    if isinstance(a0, ast.If):
                        out[id(a0)] = "body" if any(child is b0 for b0 in a0.body) else ("orelse" if any(child is b0 for b0 in a0.orelse) else "test")
                    child = a0
                return out
            ao, ac = arms(o_node), arms(c_node)
            excl = [k for k in ao if k in ac and {ao[k], ac[k]} == {"body", "orelse"}]
            if excl:
                ctx.ob("C19.i", init, "coarse boundaries span the window", False,
                       "the window end is appended (%s) only on the arm on which the window start was not prepended (%s): a window that neither "
                       "starts nor ends on a boundary of the coarse step (anchored frequency 'W', Friday to Wednesday) loses its last partial "
                       "interval - the asset has no variables for those fine steps" % (p.where(c_node), p.where(o_node)), node=c_node)
                excl_done = True
        if not excl_done:
            ctx.ob("C19.i", init, "coarse boundaries span the window", opened and closed,
                   "the coarse intervals are consecutive pairs of %s = date_range(start, end, freq) only; the range stops at the last multiple "
                   "of the coarse step before the end (and, for anchored frequencies such as 'W', starts at the first anchor after the "
                   "start): fine steps before the first / after the last boundary belong to no coarse interval, the asset is silently "
                   "inactive there (hourly grid of 84 h with a daily asset: 72 steps covered; two weeks with 'W': one of two)" % seq_name,
                   node=rng, ok_detail="opened with the window start and closed with the window end")
        # ... and both ends of the sequence bound an interval: the uses of the sequence (after the repairs) include its first and its last element
        first_used = last_used = False
        uses = []
        for s2 in au.walk_stmts(init.body):
            if s2.lineno <= rng.lineno or id(s2) in repair_stmts:
                continue
            if isinstance(s2, ast.If) and any(id(b0) in repair_stmts for b0 in s2.body + s2.orelse):
                continue     # the test that decides on a repair
            for x in au.walk_own(s2):
                if isinstance(x, ast.Name) and x.id == seq_name and isinstance(x.ctx, ast.Load):
                    par = p.parent(x)
                    uses.append(x)
                    if isinstance(par, ast.Subscript) and par.value is x:
                        sl = par.slice
                        if isinstance(sl, ast.Slice):
                            lo = au.const_num(sl.lower) if sl.lower is not None else 0
                            hi = au.const_num(sl.upper) if sl.upper is not None else None
                            if sl.lower is not None and lo is None or (sl.upper is not None and hi is None) or sl.step is not None:
                                first_used = last_used = True      # not interpreted
                                continue
                            if lo == 0:
                                first_used = True
                            if sl.upper is None:
                                last_used = True
                        else:
                            k = au.const_num(sl)
                            if k is None:
                                first_used = last_used = True      # variable index: any element
                            elif k == 0:
                                first_used = True
                            elif k == -1:
                                last_used = True
                    else:
                        first_used = last_used = True
        if uses:
            ctx.ob("C19.i", init, "first and last boundary bound a coarse interval", first_used and last_used,
                   "after it has been opened / closed, the boundary sequence %s is only read through slices that leave out its %s element: %s. The "
                   "%s - an asset that ends before the horizon ends gets variables (and dispatch) for all later steps" % (
                       seq_name, "last" if first_used else "first", sorted({au.short(p.parent(u), 30) for u in uses}),
                       "last interval is not bounded by the window end: it collects every fine step up to the end of the reference grid"
                       if first_used else "first interval is not bounded by the window start"),
                   node=uses[0], key="both ends of the boundary sequence are used")
    ctx.require(n_c >= 8, "fewer than 8 sub-grid attribute assignments found in Timegrid.__init__", rules=['C19.c', 'C19.i', 'C19.j'])
    # ---- C14.i: readers of Dt in set-ups
    for fn2 in sorted(p.all_functions(), key=lambda f: f.qualname):
        if fn2.cls is None or not p.is_subclass(fn2.cls, "Asset"):
            continue
        for x in au.walk_local(fn2.node, include_self=False):
            if isinstance(x, ast.Attribute) and x.attr == "Dt" and isinstance(x.ctx, ast.Load):
                ctx.ob("C14.i", fn2, au.short(p.parent(x) if isinstance(p.parent(x), ast.Subscript) else x, 60), False,
                       "Dt of a (restricted / interval) grid is sliced from the reference grid: it is the time elapsed since the start of the "
                       "original horizon, not the length of this window. Used as a duration it charges an asset that starts late - or any "
                       "interval of a split optimisation after the first - for all the time before its own window (fix costs of a scaled "
                       "asset: 24, 48, 72 h for three daily intervals instead of 24 each; split value -30198 vs unsplit -15798)", node=x)
    # ---- C19.j: the main grid's own range
    main_ranges = [st for st in au.walk_stmts(init.body) if isinstance(st, ast.Assign) and isinstance(st.targets[0], ast.Name)
                   and isinstance(st.value, ast.Call) and au.method_name(st.value) == "date_range"
                   and au.U(au.kwarg(st.value, "start") or ast.Constant(None)) == "self.start" and au.U(au.kwarg(st.value, "freq") or ast.Constant(None)) == "self.freq"]
    if not main_ranges:
        ctx.ob("C19.j", init, "range of the grid's own time points", None, "date_range(start=self.start, ..., freq=self.freq) not found")
    for st in main_ranges:
        nm = st.targets[0].id
        opened = any(isinstance(x, ast.Call) and isinstance(x.func, ast.Attribute) and x.func.attr == "insert" and au.base_name(x.func) == nm
                     and x.args and au.const_num(x.args[0]) == 0 and "start" in au.U(x) for s2 in au.walk_stmts(init.body) if s2.lineno > st.lineno
                     for x in au.walk_own(s2))
        ctx.ob("C19.j", init, "the grid's points begin at its start", opened,
               "the points are date_range(start, end, freq) as it comes: for a calendar-anchored frequency the first point is the first "
               "anchor after the start (grid from Jan 1 with 'W': first point Jan 3; from Jan 15 with 'MS': Feb 1) - the steps before it "
               "do not exist, whatever lies there (prices, asset windows, orders) is silently ignored", node=st)


    # ================================================================= C02.i gaps of interval data are filled by the documented default only
    FILLERS = ("ffill", "bfill", "pad", "backfill", "interpolate", "nan_to_num", "fillna", "nanmax", "nanmin")
    n_i = 0
    for fn2 in sorted(p.all_functions(), key=lambda f: f.qualname):
        if fn2.parent is not None:
            continue
        calls = [(st, x) for st in au.walk_stmts(fn2.body) for x in au.walk_own(st) if isinstance(x, ast.Call) and au.method_name(x) == "values_to_grid"
                 and isinstance(x.func, ast.Attribute)]
        if not calls:
            continue
        org2 = ctx.origins(fn2, values_only=True)
        call_ids = {id(x) for _, x in calls}
        for st0, x0 in calls:
            n_i += 1
            bad = None
            for st in au.walk_stmts(fn2.body):
                if st.lineno < st0.lineno:
                    continue
                for c in au.walk_own(st):
                    if not (isinstance(c, ast.Call) and au.method_name(c) in FILLERS):
                        continue
                    is_mod = isinstance(c.func, ast.Attribute) and isinstance(c.func.value, ast.Name) and c.func.value.id in ("np", "pd", "numpy", "pandas")
                    recv = c.func.value if (isinstance(c.func, ast.Attribute) and not is_mod) else (c.args[0] if c.args else None)
                    if recv is None:
                        continue
                    if not any(id(y) == id(x0) for y in org2.nodes(recv, st)) and not any(y is x0 for y in au.walk_local(recv)):
                        continue
                    if au.method_name(c) == "fillna" and c.args and any(isinstance(y, ast.Name) and y.id == "default_value" for y in au.walk_local(c.args[0])):
                        continue      # the documented default, spelled differently
                    bad = (st, c)
                    break
                if bad:
                    break
            ctx.ob("C02.i", fn2, "gaps of %s" % au.short(x0, 60), bad is None,
                   "the gridded interval data passes through %s (%s) before the documented default is applied: a step outside all intervals is no "
                   "longer undefined - it inherits the value of a neighbouring interval. A spread of 3.0 given for the first day only is charged "
                   "on all days (optimum 1362 instead of 1815 of the reference model)" % (
                       au.short(bad[1], 50) if bad else "", p.where(bad[0]) if bad else ""), node=(bad[1] if bad else x0),
                   ok_detail="no gap filler on the way to the default / to the consumer")
    ctx.require(n_i >= 1, "no call of values_to_grid found in the package", rules=["C02.i"])


    # ================================================================= C19.o positional pass-through of gridded prices
    ptg = tg.methods.get("prices_to_grid")
    if ptg is None:
        ctx.ob("C19.o", "Timegrid", "prices_to_grid", None, "Timegrid.prices_to_grid not found")
    else:
        REORDER = ("groupby", "sort_index", "sort_values", "drop_duplicates", "resample", "unstack", "pivot", "pivot_table", "sample", "nlargest",
                   "nsmallest", "dropna", "reindex", "sort", "unique", "T", "transpose", "iloc", "reset_index", "set_index")
        pos = [st for st in au.walk_stmts(ptg.body) if isinstance(st, ast.Assign) and any(
            isinstance(t0, ast.Attribute) and t0.attr == "index" for t0 in st.targets) and any(
            isinstance(x, ast.Attribute) and x.attr == "timepoints" for x in au.walk_local(st.value))]
        if not pos:
            ctx.ob("C19.o", ptg, "positional mapping onto the time points", None, "`<prices>.index = self.timepoints` not found")
        for st in pos:
            frame = au.base_name(st.targets[0])
            bad = None
            for s2 in au.walk_stmts(ptg.body):
                if s2.lineno >= st.lineno:
                    continue
                if isinstance(s2, ast.Assign) and any(isinstance(t0, ast.Name) and t0.id == frame for t0 in s2.targets):
                    calls = [x for x in au.walk_local(s2.value) if (isinstance(x, ast.Call) and au.method_name(x) in REORDER and isinstance(x.func, ast.Attribute)
                                                                     and frame in au.names_in(x.func.value))
                             or (isinstance(x, ast.Attribute) and x.attr in ("T", "iloc") and au.base_name(x) == frame)]
                    if calls:
                        bad = (s2, calls[0])
                elif isinstance(s2, ast.Expr) and isinstance(s2.value, ast.Call) and au.method_name(s2.value) in REORDER and au.base_name(s2.value.func) == frame \
                        and any(k.arg == "inplace" and isinstance(k.value, ast.Constant) and k.value.value is True for k in s2.value.keywords):
                    bad = (s2, s2.value)
            ctx.ob("C19.o", ptg, "rows keep the caller's order up to %s" % au.short(st, 50), bad is None,
                   "before the numeric index is replaced by the time points position by position, the table passes through %s (%s), which orders the rows "
                   "by label (or drops / merges rows): an already-gridded table whose numeric labels are not increasing - a frame sorted by another "
                   "column, a countdown index - comes back permuted (47 of 48 steps differ), silently" % (
                       au.short(bad[1], 50) if bad else "", p.where(bad[0]) if bad else ""), node=(bad[0] if bad else st))


    # ================================================================= C13.n frequencies compared as a whole
    n_13 = 0
    PROJ = ("name", "base", "rule_code", "_prefix", "kind")
    for fnq in sorted(p.all_functions(), key=lambda f: f.qualname):
        for x in au.walk_local(fnq.node, include_self=False):
            if not (isinstance(x, ast.Compare) and len(x.ops) == 1 and isinstance(x.ops[0], (ast.Eq, ast.NotEq))):
                continue
            sides = [x.left, x.comparators[0]]
            if not any("freq" in au.U(e) for e in sides):
                continue
            proj = [e for e in sides if isinstance(e, ast.Attribute) and e.attr in PROJ and isinstance(e.value, ast.Call) and au.method_name(e.value) in ("to_offset", "Timedelta", "to_timedelta")]
            if proj:
                n_13 += 1
                ctx.ob("C13.n", fnq, au.short(x, 80), False,
                       "the frequencies are compared through %s, which keeps the unit and drops the multiple: '4h' and 'h' compare equal - an asset with freq "
                       "'4h' on an hourly grid gets no coarse sub-grid, is dispatched on the fine grid without the equalities (dispatch 2, -1, -1, -1 inside "
                       "one of its intervals) and its value exceeds the fine problem with the equalities" % au.short(proj[0], 40), node=x)
    if n_13 == 0:
        ctx.ob("C13.n", "package", "comparisons of frequencies", True, ok_detail="frequencies are compared as a whole")

    # ================================================================= C16.q a duration is a sum of step lengths
    n_16 = 0
    for fnq in sorted(p.all_functions(), key=lambda f: f.qualname):
        if fnq.cls is None or not p.is_subclass(fnq.cls, "Asset") or fnq.name == "__init__":
            continue
        for x in au.walk_local(fnq.node, include_self=False):
            if isinstance(x, ast.BinOp) and isinstance(x.op, ast.Sub) and isinstance(x.left, ast.Attribute) and isinstance(x.right, ast.Attribute) \
                    and x.left.attr == "end" and x.right.attr == "start":
                n_16 += 1
                ctx.ob("C16.q", fnq, au.short(x, 70), False,
                       "%s is the distance between the dates as the user gave them: a window that starts before the horizon, ends after it or cuts through "
                       "a step is longer than the time the asset is active on the grid (restricted.dt.sum()) - fix costs of a scaled asset with life time "
                       "2020-2022 on a horizon of two days are charged for two years (26316 instead of 72)" % au.short(x, 50), node=x)
    if n_16 == 0:
        ctx.ob("C16.q", "package", "durations in set-ups", True, ok_detail="no set-up uses end - start of a window as a duration")
