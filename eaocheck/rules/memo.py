"""Memo discipline (C19.q, C03.m, C11.m, C07.ag): a result that is kept under a key and handed out again instead of being recomputed.

The shape is always the same, whether the store is a local dict that lives for one call (results of `op.optimize()` per interval), a
dict hung on an object (`timegrid.__dict__.setdefault('_kept', {})`, `self._grids`) or a module-level dict:

        if K not in D:            |   if K in D: x = D[K]          |   D.setdefault(K, V)
            D[K] = V              |   else: ...; D[K] = V          |
        x = D[K]                  |                                 |

The kept value is right for the next look-up only if everything the *miss block* reads is determined by K.  The rule computes, for each
memo site, the inputs of the miss block (backward slice through the function's reaching definitions; receivers and whole-object
arguments of package calls are expanded to the attributes the callee reads) and the atoms of the key (only in content-preserving
positions: `x`, `x.tobytes()`, `np.asarray(x)`, `tuple(x)`, `str(x)`, `x.get('a')` - not `x.shape`, `x.nnz`, `len(x)`, `max(x, y)`,
`round(x, 2)`), and reports inputs that no atom covers:

  * memo that outlives the call (on an object, on the module): parameters of the function, attributes of `self` that are written
    after construction, attributes of other objects - everything but what the owner object's identity fixes (attributes that only
    its constructor writes);
  * memo local to one call: only what varies between the look-ups - loop variables and what is read off them.  A key atom
    `<obj>.name` stands for the object (names are the package's identities within one portfolio).

An input that is only used in the message of an assert / raise is ignored.  What the analysis cannot resolve is not reported.
"""
from __future__ import annotations
import ast
from .. import astutil as au
from ..tables import rule
from . import analysis

TXT = "a result kept under a key (a dict on the object, the grid, the module, or a local dict across loop passes) and handed out again is " \
      "determined by that key: every input of the computation it replaces is covered by the key in a content-preserving form (not by a shape, " \
      "a count, a clipped or rounded value, a name)"
rule("C19.q", "time grid: " + TXT + " - a kept sub-grid / mesh is otherwise the one of another window anchor, zone or wacc", floor=0,
     props=["C19", "C12", "C13", "C02", "C20", "C09", "C15", "C08", "C10"])
rule("C03.m", "optimisation: " + TXT + " - a kept solution / row block is otherwise the one of a problem with another matrix or right-hand side",
     floor=0, props=["C03", "C01", "C18", "C14", "C10"])
rule("C11.m", "serialisation: " + TXT + " - a kept object is otherwise handed out for a different JSON record", floor=0, props=["C11", "C10"])
rule("C07.ag", "set-ups and reports: " + TXT + " - kept rows / mappings / cost vectors are otherwise those of other capacities, prices, "
               "windows or of another asset", floor=0,
     props=["C07", "C04", "C08", "C16", "C14", "C17", "C05", "C06", "C02", "C13", "C10"])

CONTENT_CALLS = {"tobytes", "tostring", "copy", "asarray", "array", "tuple", "str", "repr", "hash", "float", "int", "frozenset", "sorted",
                 "Timestamp", "to_datetime", "tolist", "item", "lower", "upper", "strip", "to_offset", "Timedelta",
                 "toarray", "todense", "to_json", "to_numpy", "to_dict", "tocsr", "tocoo", "dumps", "ravel", "flatten"}
LOSSY_ATTRS = {"shape", "size", "ndim", "nnz", "dtype", "T", "name"}   # `name` handled separately


def _rule_for(fn):
    if fn.cls is not None and fn.cls.name == "Timegrid":
        return "C19.q"
    if fn.module.name == "optimization":
        return "C03.m"
    if fn.module.name == "serialization":
        return "C11.m"
    return "C07.ag"


def _anc(parents, x):
    while x in parents:
        x = parents[x]
        yield x


class _Site:
    def __init__(self, store, D, K, V):
        self.store, self.D, self.K, self.V = store, D, K, V


def _key_atoms(ctx, fn, e, at, depth=0) -> set:
    """content-preserving atoms of a key expression: 'param:x', 'path:p', 'name:x' (a local that is not resolvable: itself)"""
    if e is None or depth > 8:
        return set()
    if isinstance(e, (ast.Tuple, ast.List)):
        out = set()
        for x in e.elts:
            out |= _key_atoms(ctx, fn, x, at, depth + 1)
        return out
    if isinstance(e, ast.IfExp):
        return _key_atoms(ctx, fn, e.body, at, depth + 1) | _key_atoms(ctx, fn, e.orelse, at, depth + 1)
    if isinstance(e, ast.Constant):
        return set()
    if isinstance(e, ast.JoinedStr):          # f"{self.name}_{n}"
        out = set()
        for x in e.values:
            if isinstance(x, ast.FormattedValue):
                out |= _key_atoms(ctx, fn, x.value, at, depth + 1)
        return out
    if isinstance(e, ast.BinOp) and isinstance(e.op, ast.Add):   # tuple / string concatenation
        return _key_atoms(ctx, fn, e.left, at, depth + 1) | _key_atoms(ctx, fn, e.right, at, depth + 1)
    if isinstance(e, ast.Name):
        ds = list(ctx.flow(fn).defs(e.id, at))
        if ds and all(d.kind == "param" for d in ds):
            return {"param:" + e.id}
        if len(ds) == 1 and ds[0].kind == "assign" and ds[0].value is not None and ds[0].index in (None, ()):
            return _key_atoms(ctx, fn, ds[0].value, ds[0].node, depth + 1)
        if ds and any(d.kind == "param" for d in ds):
            # `if start is None: start = self.start`: the parameter or its documented default
            out = {"param:" + e.id}
            for d in ds:
                if d.kind == "assign" and d.value is not None:
                    out |= _key_atoms(ctx, fn, d.value, d.node, depth + 1)
            return out
        return {"name:" + e.id}
    if isinstance(e, ast.Call):
        m = au.method_name(e)
        if m == "get" and isinstance(e.func, ast.Attribute) and e.args and isinstance(e.args[0], ast.Constant):
            b = au.path(e.func.value)
            return {"path:%s[%r]" % (b, e.args[0].value)} if b else set()
        if m in CONTENT_CALLS:
            if isinstance(e.func, ast.Attribute) and au.dotted(e.func.value) not in ("np", "numpy", "pd", "pandas"):
                return _key_atoms(ctx, fn, e.func.value, at, depth + 1)
            if e.args:
                return _key_atoms(ctx, fn, e.args[0], at, depth + 1)
        return set()      # any other call may lose information (max, min, round, len, id ...)
    if isinstance(e, (ast.Attribute, ast.Subscript)):
        if isinstance(e, ast.Attribute) and e.attr in LOSSY_ATTRS and e.attr != "name":
            return set()
        if isinstance(e, ast.Attribute) and e.attr in ("values", "data", "indices", "indptr") and au.path(e.value):
            return _key_atoms(ctx, fn, e.value, at, depth + 1) if e.attr == "values" else set()
        pth = au.path(e)
        if pth:
            # a local base bound to a pure path is substituted (I = self.timegrid.restricted.I)
            b = au.base_name(e)
            if b and b != "self" and fn.param(b) is None:
                ds = list(ctx.flow(fn).defs(b, at))
                if len(ds) == 1 and ds[0].kind == "assign" and ds[0].value is not None and au.path(ds[0].value):
                    return {"path:" + au.path(ds[0].value) + pth[len(b):]}
            return {"path:" + pth}
    return set()


def _covered(inp: str, atoms: set, local_memo: bool) -> bool:
    kind, _, q = inp.partition(":")
    for a in atoms:
        ak, _, pth = a.partition(":")
        if kind in ("param", "name") and ak in ("param", "name") and pth == q:
            return True
        if kind == "path":
            if ak == "path" and (q == pth or q.startswith(pth + ".") or q.startswith(pth + "[")):
                return True
            if ak in ("param", "name") and (q.startswith(pth + ".") or q.startswith(pth + "[")):
                return True
            if local_memo and ak == "path" and pth.endswith(".name") and (q.startswith(pth[:-5] + ".") or q == pth[:-5]):
                return True
        if kind in ("param", "name") and local_memo and ak == "path" and pth == q + ".name":
            return True
    return False


@analysis("memo", ["C19.q", "C03.m", "C11.m", "C07.ag"])
def run(ctx):
    p = ctx.p
    from .serialization import self_attr_writes
    # attributes of a class that are written after construction (by any method other than __init__, or from outside through `<x>.attr = ...`)
    late = {}
    outside = set()
    for f in p.all_functions():
        for x in au.walk_local(f.node, include_self=False):
            if isinstance(x, ast.Attribute) and isinstance(x.ctx, ast.Store) and not (isinstance(x.value, ast.Name) and x.value.id == "self"):
                outside.add(x.attr)
    for ci in p.classes.values():
        s = set()
        for c in p.classes.values():
            if ci in p.mro(c) or c in p.mro(ci):
                for mn, mth in c.methods.items():
                    if mn != "__init__":
                        s |= {a for a, _, _ in self_attr_writes(mth)}
        late[ci.name] = s | outside

    # attributes a package function reads off one of its parameters (incl. self), transitively through self.m() calls
    _reads_cache = {}

    def reads_of(t, pname, depth=0):
        k = (t, pname)
        if k in _reads_cache:
            return _reads_cache[k]
        _reads_cache[k] = set()
        out = set()
        for x in au.walk_local(t.node, include_self=False):
            if isinstance(x, ast.Attribute) and isinstance(x.value, ast.Name) and x.value.id == pname and isinstance(x.ctx, ast.Load):
                par = p.parent(x)
                if isinstance(par, ast.Call) and par.func is x:
                    if depth < 3 and pname in ("self", "cls"):
                        for t2 in p.resolve_call(par, t):
                            out |= reads_of(t2, "self", depth + 1)
                    continue
                out.add(x.attr)
            elif isinstance(x, ast.Call) and isinstance(x.func, ast.Name) and x.func.id in ("hasattr", "getattr") and len(x.args) >= 2 \
                    and isinstance(x.args[0], ast.Name) and x.args[0].id == pname and au.const_str(x.args[1]):
                out.add(au.const_str(x.args[1]))
        _reads_cache[k] = out
        return out

    counts = {"C19.q": 0, "C03.m": 0, "C11.m": 0, "C07.ag": 0}
    sites_total = 0
    for fn in sorted(p.all_functions(), key=lambda f: f.qualname):
        if fn.parent is not None:
            continue
        rid = _rule_for(fn)
        counts[rid] += 1
        flow = ctx.flow(fn)
        org = ctx.origins(fn)
        stmts = list(au.walk_stmts(fn.body))
        sites = []
        for st in stmts:
            if isinstance(st, ast.Assign) and len(st.targets) == 1 and isinstance(st.targets[0], ast.Subscript):
                t = st.targets[0]
                if isinstance(t.value, (ast.Name, ast.Attribute)) and not isinstance(t.slice, ast.Slice):
                    sites.append(_Site(st, t.value, t.slice, st.value))
            elif isinstance(st, ast.Expr) and isinstance(st.value, ast.Call) and au.method_name(st.value) == "setdefault" \
                    and isinstance(st.value.func, ast.Attribute) and len(st.value.args) == 2 \
                    and not (isinstance(st.value.func.value, ast.Attribute) and st.value.func.value.attr == "__dict__"):
                sites.append(_Site(st, st.value.func.value, st.value.args[0], st.value.args[1]))
        parents = {}
        for a in ast.walk(fn.node):
            for c in ast.iter_child_nodes(a):
                parents[c] = a
        accum = set()
        for s in sites:
            Dt, Kt = au.U(s.D), au.U(s.K)
            if any(isinstance(x, ast.Subscript) and isinstance(x.ctx, ast.Load) and au.U(x.value) == Dt and au.U(x.slice) == Kt for x in ast.walk(s.V)):
                accum.add((Dt, Kt))     # D[K] = f(D[K], new): an accumulation over the passes, not a kept result
        for s in sites:
            Dt, Kt = au.U(s.D), au.U(s.K)
            if (Dt, Kt) in accum or isinstance(s.K, ast.Constant):
                continue
            # the same key is looked up in the same container
            tests = []
            for x in au.walk_local(fn.node, include_self=False):
                if isinstance(x, ast.Compare) and len(x.ops) == 1 and isinstance(x.ops[0], (ast.In, ast.NotIn)) and au.U(x.left) == Kt:
                    c = x.comparators[0]
                    if au.U(c) == Dt or (isinstance(c, ast.Call) and au.method_name(c) in ("keys", "setdefault") and (
                            au.U(c.func.value) == Dt or (isinstance(s.D, ast.Attribute) and au.const_str(c.args[0] if c.args else None) == s.D.attr))):
                        tests.append(x)
                elif isinstance(x, ast.Call) and au.method_name(x) == "get" and isinstance(x.func, ast.Attribute) and au.U(x.func.value) == Dt \
                        and x.args and au.U(x.args[0]) == Kt:
                    tests.append(x)
            if not tests and not (isinstance(s.store, ast.Expr)):
                continue
            # ---- what kind of container
            owner = None
            persistent = None
            d = s.D
            if isinstance(d, ast.Name):
                ds = [dd for dd in flow.defs(d.id, s.store) if dd.kind not in ("store", "aug")]
                if not ds:
                    persistent = True                       # module-level name
                elif all(dd.kind == "assign" and dd.value is not None for dd in ds):
                    vals = [dd.value for dd in ds]
                    if all(isinstance(v, ast.Dict) or (isinstance(v, ast.Call) and isinstance(v.func, ast.Name) and v.func.id in ("dict", "OrderedDict", "defaultdict"))
                           for v in vals):
                        persistent = False
                    elif all(isinstance(v, ast.Call) and au.method_name(v) == "setdefault" and isinstance(v.func.value, ast.Attribute)
                             and v.func.value.attr == "__dict__" for v in vals):
                        persistent = True
                        owner = au.path(vals[0].func.value.value)
                    elif all(au.path(v) and (au.base_name(v) == "self" or fn.param(au.base_name(v)) is not None) for v in vals):
                        persistent = True
                        owner = au.base_name(vals[0])
            elif isinstance(d, ast.Attribute) and au.path(d):
                b0 = au.base_name(d)
                fresh_here = [x for x in stmts if isinstance(x, ast.Assign) and any(au.U(t_) == Dt for t_ in x.targets)
                              and (isinstance(x.value, ast.Dict) or (isinstance(x.value, ast.Call) and isinstance(x.value.func, ast.Name) and x.value.func.id == "dict"))
                              and x.lineno < s.store.lineno and not any(isinstance(a0, (ast.If, ast.For, ast.While, ast.Try)) for a0 in _anc(parents, x))]
                if b0 != "self" and fn.param(b0) is None:
                    persistent = False          # a container on an object this call created
                elif fresh_here:
                    persistent = False          # (re-)created unconditionally at the top of this call
                else:
                    persistent = True
                    owner = au.path(d.value)
            if persistent is None:
                continue
            # a local container must live across loop passes: created outside a loop that contains the store
            loops = []
            a = s.store
            while a in parents:
                a = parents[a]
                if isinstance(a, (ast.For, ast.While)):
                    loops.append(a)
            if not persistent:
                if not loops:
                    continue
                if isinstance(s.D, ast.Name):
                    ds = [dd for dd in flow.defs(s.D.id, s.store) if dd.kind not in ("store", "aug")]
                    if any(any(dd.node is x for x in ast.walk(lp)) for dd in ds for lp in loops[-1:]):
                        continue          # re-created in every pass of the outermost loop
            sites_total += 1
            # ---- miss block
            block = None
            for t in tests:
                a = t
                while a in parents and not isinstance(a, ast.If):
                    a = parents[a]
                if isinstance(a, ast.If):
                    neg = isinstance(t, ast.Compare) and isinstance(t.ops[0], ast.NotIn)
                    if isinstance(parents.get(t), ast.UnaryOp) and isinstance(parents[t].op, ast.Not):
                        neg = not neg
                    body = a.body if neg else a.orelse
                    if any(s.store is x for b0 in body for x in ast.walk(b0)):
                        block = body
                        break
            loopvars = set()
            for lp in loops:
                if isinstance(lp, ast.For):
                    loopvars |= set(au.target_names(lp.target))
            # ---- inputs
            inputs = {}     # leaf -> node (for the report)

            def add(leaf, node):
                inputs.setdefault(leaf, node)

            exprs = []
            if block is not None:
                for b in au.walk_stmts(block):
                    if isinstance(b, (ast.Assert, ast.Raise)):
                        continue
                    for fld in ("value", "test", "iter"):
                        v = getattr(b, fld, None)
                        if isinstance(v, ast.expr):
                            exprs.append((v, b))
            else:
                exprs.append((s.V, s.store))
            seen_defs = set()

            def sl(e, at, depth=0):
                if e is None or depth > 40:      # (nesting of one expression; definitions are followed once each - seen_defs - from depth 0)
                    return
                if isinstance(e, ast.Constant):
                    return
                if isinstance(e, (ast.Attribute, ast.Subscript)) and au.path(e):
                    pth = au.path(e)
                    b = au.base_name(e)
                    if isinstance(e, ast.Subscript) and not isinstance(e.slice, ast.Constant):
                        sl(e.slice, at, depth + 1)
                    if b == "self" or fn.param(b) is not None and not [d_ for d_ in flow.defs(b, at) if d_.kind != "param"]:
                        add("path:" + pth, e)
                        return
                    ds_ = list(flow.defs(b, at))
                    if ds_ and all(d_.kind == "for" for d_ in ds_):
                        add("path:" + pth, e)
                        return
                    if len(ds_) == 1 and ds_[0].kind == "assign" and ds_[0].value is not None and au.path(ds_[0].value) and ds_[0].index in (None, ()):
                        add("path:" + au.path(ds_[0].value) + pth[len(b):], e)
                        return
                    sl(ast.Name(id=b, ctx=ast.Load()), at, depth + 1)
                    return
                if isinstance(e, ast.Name):
                    if not isinstance(e.ctx, ast.Load):
                        return
                    for d_ in flow.defs(e.id, at):
                        if d_.kind == "param":
                            if e.id not in ("self", "cls"):
                                add("param:" + e.id, e)
                        elif d_.kind == "for":
                            add("name:" + e.id, e)
                        elif d_.kind in ("assign", "aug", "unpack", "store", "with") and d_.value is not None and id(d_) not in seen_defs:
                            seen_defs.add(id(d_))
                            sl(d_.value, d_.node, 0)
                            for pd_ in d_.prev:
                                if pd_.value is not None and id(pd_) not in seen_defs:
                                    seen_defs.add(id(pd_))
                                    sl(pd_.value, pd_.node, 0)
                    return
                if isinstance(e, ast.Call):
                    tg = p.resolve_call(e, fn)
                    recv_done = False
                    if tg and isinstance(e.func, ast.Attribute) and au.path(e.func.value) and au.U(e.func.value) != "self" \
                            and not (isinstance(e.func.value, ast.Call)):
                        r = au.path(e.func.value)
                        # receiver of unknown class: what *every* candidate reads (the enclosing method itself is not a candidate: a method that
                        # calls its own name on the elements of its container delegates to the element class)
                        cands = [t for t in tg if t is not fn] or tg
                        rd = None
                        for t in cands:
                            rd = reads_of(t, "self") if rd is None else (rd & reads_of(t, "self"))
                        rd = rd or set()
                        rb = au.base_name(e.func.value)
                        rds = list(flow.defs(rb, at)) if rb else []
                        if rb == "self" or (rds and all(d_.kind in ("param", "for") for d_ in rds)):
                            for a_ in sorted(rd):
                                add("path:%s.%s" % (r, a_), e)
                            recv_done = True
                    if tg:
                        t = tg[0]
                        names = [q.name for q in t.params]
                        off = 1 if (t.cls is not None and names and names[0] in ("self", "cls")) else 0
                        bound = []
                        for i, a_ in enumerate(e.args):
                            if not isinstance(a_, ast.Starred) and i + off < len(names):
                                bound.append((names[i + off], a_))
                        for kw in e.keywords:
                            if kw.arg:
                                bound.append((kw.arg, kw.value))
                        for pn, a_ in bound:
                            if isinstance(a_, ast.Name) and a_.id == "self":
                                for at_ in sorted(reads_of(t, pn)):
                                    add("path:self.%s" % at_, e)
                    if isinstance(e.func, ast.Attribute) and not recv_done:
                        sl(e.func.value, at, depth + 1)
                    for a_ in e.args:
                        sl(a_.value if isinstance(a_, ast.Starred) else a_, at, depth + 1)
                    for kw in e.keywords:
                        if not (isinstance(kw.value, ast.Name) and kw.value.id == "self"):
                            sl(kw.value, at, depth + 1)
                    return
                if isinstance(e, (ast.ListComp, ast.SetComp, ast.GeneratorExp, ast.DictComp)):
                    for g_ in e.generators:
                        sl(g_.iter, at, depth + 1)
                    return
                if isinstance(e, ast.Lambda):
                    return
                for c_ in ast.iter_child_nodes(e):
                    if isinstance(c_, ast.expr):
                        sl(c_, at, depth + 1)

            for e, at in exprs:
                sl(e, at)
            atoms = _key_atoms(ctx, fn, s.K, s.store)
            # a guard that empties the container when something changed validates that something: `if D.get('A') is not self.A: D.clear()`
            for x in stmts:
                if isinstance(x, ast.If) and any(isinstance(c_, ast.Call) and au.method_name(c_) == "clear" and isinstance(c_.func, ast.Attribute)
                                                 and au.U(c_.func.value) == Dt for b_ in x.body for c_ in ast.walk(b_)):
                    for y in ast.walk(x.test):
                        if isinstance(y, (ast.Attribute, ast.Subscript)) and au.path(y) and not au.path(y).startswith(Dt):
                            atoms.add("path:" + au.path(y))
            # names bound inside the miss block are not inputs
            inner = set()
            if block is not None:
                for b_ in au.walk_stmts(block):
                    if isinstance(b_, ast.For):
                        inner |= set(au.target_names(b_.target))
            for nm in inner:
                inputs.pop("name:" + nm, None)
            miss = []
            for leaf, node in sorted(inputs.items()):
                k, _, q = leaf.partition(":")
                if k == "path":
                    segs = q.replace("[", ".").split(".")
                    base = segs[0]
                    if q == Dt or q.startswith(Dt + ".") or q.startswith(Dt + "["):
                        continue
                    if isinstance(p.parent(node), ast.Call) and False:
                        continue
                    # method paths (x.append) are not data
                    if len(segs) >= 2 and segs[-1] in ("append", "copy", "keys", "values", "items", "get", "setdefault", "tobytes", "clear", "update"):
                        continue
                    if base == "self":
                        if not persistent:
                            continue                    # the object's own state does not vary within one call
                        a1 = segs[1] if len(segs) > 1 else ""
                        if owner is not None and (owner == "self" or owner.startswith("self.")) and fn.cls is not None \
                                and a1 not in late.get(fn.cls.name, set()) and not owner.startswith("self.%s" % a1 + "."):
                            continue                    # fixed by the identity of the object that holds the memo
                        if owner is not None and owner.startswith("self.") and q.startswith(owner + "."):
                            # state of the owner object itself (e.g. self.timegrid.restricted.* for a memo on self.timegrid): covered only if stable
                            a2 = q[len(owner) + 1:].split(".")[0].split("[")[0]
                            if a2 not in outside and not any(a2 in v for v in late.values()):
                                continue
                    elif base in loopvars:
                        pass
                    elif fn.param(base) is not None:
                        if not persistent:
                            continue
                        if owner == base:
                            a1 = segs[1] if len(segs) > 1 else ""
                            if a1 and a1 not in outside and not any(a1 in v for v in late.values()):
                                continue
                    else:
                        continue                          # a local whose origin the slice did not reach: not reported
                elif k == "param":
                    if not persistent:
                        continue
                    if owner == q:
                        continue
                elif k == "name":
                    pass
                if not _covered(leaf, atoms, not persistent):
                    miss.append((leaf, node))
            what = "%s memo %s[%s]" % ("persistent" if persistent else "per-call", Dt, au.short(s.K, 60))
            if miss:
                ctx.ob(rid, fn, "%s is determined by its key" % what, False,
                       "the kept value is handed out for every later look-up with an equal key, but the computation it replaces also reads %s - "
                       "none of which the key (%s) covers in a content-preserving form. A later look-up that differs only there gets the value "
                       "computed for the earlier one" % (", ".join(sorted({l.partition(':')[2] for l, _ in miss})[:8]),
                                                         ", ".join(sorted(a.partition(':')[2] for a in atoms)) or "no data atom"),
                       node=s.store)
            else:
                ctx.ob(rid, fn, "%s is determined by its key" % what, True, ok_detail="%d input(s), all covered by the key" % len(inputs),
                       node=s.store)
    for rid, n in counts.items():
        ctx.ob(rid, "package", "functions scanned for kept results", True, ok_detail="%d function(s), %d memo site(s) in the package" % (n, sites_total))
    ctx.require(sum(counts.values()) >= 50, "fewer than 50 functions scanned for memo sites")
