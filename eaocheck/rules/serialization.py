"""Analysis 22 - serialisation agreement (C11.a-g).

The JSON writer stores `obj.__dict__` (minus a pop list) and the reader calls the class constructor with the stored
dictionary.  Round-tripping therefore needs, for every class, agreement between four things that live in different
places: the attributes any method may write on `self`, the pop list, the constructor signature (following forwarded
**kwargs) and the tag/keys the reader branch uses.  All four are computed from the source on every run.
"""
from __future__ import annotations
import ast
from .. import astutil as au
from ..tables import rule
from ..ir import FuncInfo, ClassInfo
from . import analysis

rule("C11.a", "persisted attributes (written in __init__, not popped by the writer) are accepted by the constructor", floor=40)
rule("C11.b", "attributes written outside __init__ (scratch state of set-up) are removed by the writer", floor=2)
rule("C11.c", "every constructor parameter is persisted under its own name (stored from that parameter, or forwarded to super().__init__)", floor=60)
rule("C11.n", "a numpy array is written with its own tolist() - exact for every dtype (datetime64[ns] as integer nanoseconds) - not converted to "
              "time stamps first, which the writer formats to full seconds", floor=1, props=["C11", "C20"])
rule("C11.l", "objects that are rebuilt by a JSON round trip are compared by value: two entries of self.nodes are 'the same node' when their "
              "names agree - `==` / `!=` / `is` on the Node objects themselves is identity (Node defines no __eq__), true for a node passed twice and "
              "false for the two equal nodes the loader creates: the loaded asset builds another problem", floor=0)
rule("C11.k", "what a constructor keeps from a table is JSON-stable: a DataFrame given as parameter is stored as a dict of arrays / lists (column "
              "-> values: to_numpy(), to_dict(orient='list')) - not as to_dict() with its default orient, a dict of dicts keyed by the row labels: "
              "integer keys come back from JSON as strings, and the set-up, which addresses the rows by position, raises KeyError on the loaded "
              "object", floor=0)
rule("C11.d", "Timegrid writer keys are constructor parameters and every state-determining parameter is written", floor=5)
rule("C06.j", "plant / CHP classes: every constructor parameter is stored or forwarded to the base class constructor (last_dispatch, ramps, "
              "runtimes ... reach the attributes the set-up reads)", floor=20)
rule("C05.l", "storage: every constructor parameter is stored or forwarded", floor=10)
rule("C02.g", "contracts and transports: every constructor parameter is stored or forwarded", floor=20)
rule("C16.j", "scaled / structured / linked asset: every constructor parameter is stored or forwarded", floor=8)
rule("C20.k", "order book: every constructor parameter (wacc, orders, full_exec ...) is stored or forwarded to the base class - what "
              "the set-up reads is what the user passed", floor=3)
rule("C11.e", "every __class__ tag the writer emits has a reader branch reading only keys the writer wrote; datetime formats agree", floor=9)
rule("C11.f", "every asset class is resolvable by name in the reader's namespace", floor=12)
rule("C11.g", "Node / Unit: instance attributes are constructor parameters; Portfolio: reader keys are writer keys", floor=6)

# parameters of Timegrid.__init__ that need not be stored, with the reason
TIMEGRID_PARAM_EXCEPTIONS = {
    "ref_timegrid": "a saved grid is a top-level grid; restricted sub-grids are rebuilt by set_restricted_grid on every set-up",
}
ANY = "*"


def if_chain(node: ast.If) -> list:
    """[(test|None, body)] of an if / elif / else chain."""
    out = []
    while True:
        out.append((node.test, node.body))
        if len(node.orelse) == 1 and isinstance(node.orelse[0], ast.If):
            node = node.orelse[0]
        else:
            if node.orelse:
                out.append((None, node.orelse))
            return out


def isinstance_classes(test) -> set:
    """Class names tested by isinstance(x, C) (or-combinations, tuples) in a test."""
    out = set()
    for n in au.walk_local(test):
        if isinstance(n, ast.Call) and isinstance(n.func, ast.Name) and n.func.id == "isinstance" and len(n.args) == 2:
            c = n.args[1]
            elts = c.elts if isinstance(c, ast.Tuple) else [c]
            for e in elts:
                d = au.dotted(e)
                if d:
                    out.add(d)
    return out


def self_attr_writes(fn: FuncInfo) -> list:
    """[(attr, stmt, value)] for self.<attr> = ... / self.<attr> += ... / setattr(self, 'attr', v) in fn."""
    out = []
    first = fn.params[0].name if fn.params else "self"
    for st in au.walk_stmts(fn.body):
        for t in au.stmt_targets(st):
            elts = t.elts if isinstance(t, (ast.Tuple, ast.List)) else [t]
            for e in elts:
                if isinstance(e, ast.Attribute) and isinstance(e.value, ast.Name) and e.value.id == first:
                    out.append((e.attr, st, getattr(st, "value", None)))
        if isinstance(st, ast.Expr) and isinstance(st.value, ast.Call):
            c = st.value
            if isinstance(c.func, ast.Name) and c.func.id == "setattr" and len(c.args) >= 2 \
                    and isinstance(c.args[0], ast.Name) and c.args[0].id == first and au.const_str(c.args[1]):
                out.append((au.const_str(c.args[1]), st, c.args[2] if len(c.args) > 2 else None))
    return out


def accepted_params(p, ci: ClassInfo, _depth=0):
    """Names the constructor of ci can bind by keyword, following forwarded **kwargs. Returns (set, any: bool)."""
    init = p.resolve_method(ci, "__init__")
    if init is None or _depth > 8:
        return set(), False
    names = {q.name for q in init.params[1:] if q.kind in ("pos", "kwonly")}
    kw = next((q.name for q in init.params if q.kind == "kwarg"), None)
    if kw is None:
        return names, False
    # is **kw forwarded to a super().__init__ call?
    for c in p.calls_in(init):
        cn = au.call_name(c)
        if cn == "super().__init__" and any(k.arg is None and isinstance(k.value, ast.Name) and k.value.id == kw for k in c.keywords):
            nxt = None
            mro = p.mro(init.cls)
            for b in mro[1:]:
                if "__init__" in b.methods:
                    nxt = b
                    break
            if nxt is None:
                return names, False
            more, anyk = accepted_params(p, nxt, _depth + 1)
            return names | more, anyk
    return names, True  # **kwargs swallowed: any keyword is accepted


def _branches(fn: FuncInfo) -> list:
    out = []
    for st in fn.body:
        if isinstance(st, ast.If):
            out.extend(if_chain(st))
    return out


def _pops(body, var: str):
    """(unconditional, {class: set}) keys popped from dict `var` in body: var.pop('k', ..), del var['k'],
       for k in [..]: var.pop(k, ..), and the same under `if var['asset_type'] == 'X'`."""
    uncond, per_class = set(), {}

    def pops_in(stmts) -> set:
        keys = set()
        for st in stmts:
            if isinstance(st, ast.Expr) and isinstance(st.value, ast.Call) and au.method_name(st.value) == "pop" \
                    and au.base_name(st.value.func) == var and st.value.args and au.const_str(st.value.args[0]) is not None:
                keys.add(au.const_str(st.value.args[0]))
            elif isinstance(st, ast.Delete):
                for t in st.targets:
                    if isinstance(t, ast.Subscript) and au.base_name(t) == var and au.const_str(t.slice) is not None:
                        keys.add(au.const_str(t.slice))
            elif isinstance(st, ast.For) and isinstance(st.target, ast.Name) and isinstance(st.iter, (ast.List, ast.Tuple, ast.Set)):
                lits = [au.const_str(e) for e in st.iter.elts]
                if all(l is not None for l in lits):
                    for s2 in st.body:
                        if isinstance(s2, ast.Expr) and isinstance(s2.value, ast.Call) and au.method_name(s2.value) == "pop" \
                                and au.base_name(s2.value.func) == var and s2.value.args \
                                and isinstance(s2.value.args[0], ast.Name) and s2.value.args[0].id == st.target.id:
                            keys.update(lits)
        return keys

    uncond |= pops_in(body)
    for st in body:
        if isinstance(st, ast.If):
            for test, b in if_chain(st):
                if test is None:
                    continue
                classes = set()
                for n in au.walk_local(test):
                    if isinstance(n, ast.Compare) and len(n.ops) == 1 and isinstance(n.ops[0], (ast.Eq, ast.In)):
                        sides = [n.left, n.comparators[0]]
                        if any(isinstance(s, ast.Subscript) and au.const_str(s.slice) == "asset_type" for s in sides):
                            for s in sides:
                                if au.const_str(s) is not None:
                                    classes.add(au.const_str(s))
                                elif isinstance(s, (ast.Tuple, ast.List, ast.Set)):
                                    classes.update(x for x in (au.const_str(e) for e in s.elts) if x)
                keys = pops_in(b)
                for c in classes:
                    per_class.setdefault(c, set()).update(keys)
    return uncond, per_class


def _dict_keys_written(body, var: str) -> dict:
    """{key: value expr} for var = {...} literals and var['k'] = v in body (recursively in nested ifs)."""
    out = {}
    for st in au.walk_stmts(body):
        if isinstance(st, ast.Assign):
            for t in st.targets:
                if isinstance(t, ast.Name) and t.id == var and isinstance(st.value, ast.Dict):
                    for k, v in zip(st.value.keys, st.value.values):
                        if au.const_str(k) is not None:
                            out[au.const_str(k)] = v
                elif isinstance(t, ast.Subscript) and au.base_name(t) == var and isinstance(t.value, ast.Name) \
                        and au.const_str(t.slice) is not None:
                    out[au.const_str(t.slice)] = st.value
    return out


def _tag_value(v):
    s = au.const_str(v)
    if s is not None:
        return s
    if isinstance(v, ast.Attribute) and v.attr == "__name__":
        return au.terminal(v.value)
    return None


def _find_hooks(ctx):
    """writer / reader functions = what serialization.to_json / load_from_json hand to json as default= / object_hook=."""
    p = ctx.p
    ser = p.module("serialization")
    writer = reader = None
    for f in ser.functions.values():
        for c in p.calls_in(f):
            d = au.kwarg(c, "default")
            if isinstance(d, ast.Name) and d.id in ser.functions:
                writer = ser.functions[d.id]
            h = au.kwarg(c, "object_hook")
            if isinstance(h, ast.Name) and h.id in ser.functions:
                reader = ser.functions[h.id]
    ctx.require(writer is not None, "serialization: no function is passed as json default= (writer hook vanished)")
    ctx.require(reader is not None, "serialization: no function is passed as json object_hook= (reader hook vanished)")
    return ser, writer, reader


def _projection(p, ci):
    if ci.name == "OrderBook":
        return "C20.k"
    if p.is_subclass(ci, "CHPAsset"):
        return "C06.j"
    if ci.name == "Storage":
        return "C05.l"
    if ci.name in ("ScaledAsset", "StructuredAsset"):
        return "C16.j"
    if ci.name in ("SimpleContract", "Contract", "Transport", "ExtendedTransport", "MultiCommodityContract"):
        return "C02.g"
    return None


@analysis("serialization", ["C11.a", "C11.b", "C11.c", "C11.d", "C11.e", "C11.f", "C11.g", "C20.k", "C06.j", "C05.l", "C02.g", "C16.j", "C11.k", "C11.l", "C11.n"])
def run(ctx):
    p = ctx.p
    ser, writer, reader = _find_hooks(ctx)
    wparam = writer.params[0].name
    rparam = reader.params[0].name
    wbranches = _branches(writer)
    # ---- writer branches by class
    by_class = {}
    for test, body in wbranches:
        if test is None:
            continue
        for c in isinstance_classes(test):
            by_class.setdefault(au.terminal(ast.parse(c).body[0].value) if "." in c else c, (test, body))
            by_class.setdefault(c, (test, body))
    ctx.require("Asset" in by_class, "writer has no isinstance(obj, Asset) branch")
    # result variable of the writer = what it returns
    resvar = None
    for st in writer.body:
        if isinstance(st, ast.Return) and isinstance(st.value, ast.Name):
            resvar = st.value.id
    ctx.require(resvar is not None, "writer does not return a plain result variable")

    # ---- reader branches by tag
    rtags = {}
    for st in au.walk_stmts(reader.body):
        if isinstance(st, ast.If):
            for test, body in if_chain(st):
                if test is None:
                    continue
                for n in au.walk_local(test):
                    if isinstance(n, ast.Compare) and len(n.ops) == 1 and isinstance(n.ops[0], ast.Eq):
                        l, r = n.left, n.comparators[0]
                        for a, b in ((l, r), (r, l)):
                            if isinstance(a, ast.Subscript) and au.const_str(a.slice) == "__class__" and au.const_str(b) is not None:
                                rtags.setdefault(au.const_str(b), body)

    # =========================================================================== assets: C11.a / b / c / f
    abody = by_class["Asset"][1]
    whole_dict = any(isinstance(st, ast.Assign) and au.U(st.value).replace(" ", "") in
                     ("%s.__dict__.copy()" % wparam, "dict(%s.__dict__)" % wparam, "copy.copy(%s.__dict__)" % wparam,
                      "vars(%s).copy()" % wparam)
                     for st in abody)
    uncond, per_class = _pops(abody, resvar)
    added = set(_dict_keys_written(abody, resvar))            # '__class__', 'asset_type'
    # keys the reader removes before calling the constructor
    rbody = rtags.get("Asset")
    ctx.require(rbody is not None, "reader has no branch for the tag 'Asset'")
    r_uncond, _ = _pops(rbody, rparam)
    ctor_call_generic = any(isinstance(n, ast.Call) and any(k.arg is None for k in n.keywords) and
                            isinstance(n.func, ast.Subscript) and au.call_name(n.func.value) == "globals"
                            for st in rbody for n in au.walk_local(st))
    if not whole_dict or not ctor_call_generic:
        ctx.ob("C11.a", writer, "asset branch", None, "writer/reader no longer use the __dict__ / globals()[type](**obj) scheme")
        return

    asset_classes = sorted(p.asset_classes(), key=lambda c: c.name)
    ctx.require(len(asset_classes) >= 10, "fewer than 10 asset classes found")
    ns = p.namespace(ser)
    for ci in asset_classes:
        # C11.f
        ctx.ob("C11.f", ci.name, "class %s visible in reader namespace" % ci.name, ci.name in ns,
               "globals()[asset_type] in %s cannot resolve %s" % (reader.qualname, ci.name), node=ci.node)
        popped = uncond | per_class.get(ci.name, set())
        acc, anyk = accepted_params(p, ci)
        init_attrs, other_attrs = {}, {}
        for c in p.mro(ci):
            for mname, m in c.methods.items():
                for attr, st, val in self_attr_writes(m):
                    (init_attrs if mname == "__init__" else other_attrs).setdefault(attr, (c, m, st))
        # C11.a: one obligation per (class, attribute)
        for attr, (dc, m, st) in sorted(init_attrs.items()):
            if attr in popped:
                continue
            ok = anyk or (attr in acc)
            ctx.ob("C11.a", ci.name, "attribute %s" % attr, ok,
                   "%s.%s is stored by the JSON writer but %s.__init__ has no parameter of that name: load_from_json(to_json(x)) "
                   "raises TypeError" % (dc.name, attr, ci.name), node=st)
        # C11.b: keyed by the defining class (inherited scratch attributes are one finding)
        for attr, (dc, m, st) in sorted(other_attrs.items()):
            if dc is not ci or attr in init_attrs:
                continue
            ok = attr in popped
            ctx.ob("C11.b", dc.name, "attribute %s written in %s" % (attr, m.name), ok,
                   "written outside __init__ and not removed by the writer: the saved JSON depends on whether the object "
                   "was used (and loading fails unless the constructor swallows it)", node=st)
        # C11.c: own constructor parameters
        init = ci.methods.get("__init__")
        if init is None:
            continue
        org = ctx.origins(init)
        writes = self_attr_writes(init)
        supers = [c for c in p.calls_in(init) if au.call_name(c) == "super().__init__"]
        for q in init.params[1:]:
            if q.kind not in ("pos", "kwonly"):
                continue
            stored = False
            for attr, st, val in writes:
                if attr == q.name and val is not None and q.name in org.params(val, st):
                    stored = True
            forwarded = False
            for c in supers:
                for k in c.keywords:
                    if k.arg == q.name and q.name in org.params(k.value, c):
                        forwarded = True
                for a in c.args:
                    if q.name in org.params(a, c):
                        forwarded = True
            lost = stored and (q.name in popped) and not forwarded
            ok = (stored or forwarded) and not lost
            why = "constructor parameter %s of %s is neither stored as self.%s (from that parameter) nor forwarded to " \
                  "super().__init__: it cannot survive to_json/load_from_json" % (q.name, ci.name, q.name)
            if lost:
                why = "parameter %s is stored but the writer pops it for %s" % (q.name, ci.name)
            ctx.ob("C11.c", ci.name, "parameter %s" % q.name, ok, why, node=init.node)
            # the same fact seen from the property of the asset type: a parameter the class accepts reaches the attribute its
            # set-up reads (a Plant that swallows last_dispatch imposes the ramp against 0; an OrderBook that swallows wacc is
            # never discounted)
            proj = _projection(p, ci)
            if proj:
                ctx.ob(proj, ci.name, "parameter %s" % q.name, ok,
                       "%s.__init__ accepts %s but neither stores it nor forwards it to the base class constructor: the base class "
                       "keeps its default, so the value the user passed never reaches the set-up" % (ci.name, q.name), node=init.node)

    # =========================================================================== Timegrid: C11.d
    if "Timegrid" in by_class and "Timegrid" in rtags:
        tbody = by_class["Timegrid"][1]
        keys = _dict_keys_written(tbody, resvar)
        keys.pop("__class__", None)
        tg = p.cls("Timegrid")
        init = tg.methods.get("__init__")
        ctx.require(init is not None, "Timegrid.__init__ vanished")
        params = [q.name for q in init.params[1:] if q.kind in ("pos", "kwonly")]
        org = ctx.origins(init)
        attr_of_param = {}
        for attr, st, val in self_attr_writes(init):
            if val is None:
                continue
            for q in org.params(val, st):
                attr_of_param.setdefault(q, set()).add(attr)
        for k, v in sorted(keys.items()):
            ok = k in params
            detail = "writer key %r is not a parameter of Timegrid.__init__ (Timegrid(**obj) raises TypeError)" % k
            if ok:
                # the value must read an attribute that __init__ derives from that parameter
                read = {au.const_str(n.slice) for n in au.walk_local(v) if isinstance(n, ast.Subscript) and au.const_str(n.slice)}
                read |= {au.const_str(n.args[0]) for n in au.walk_local(v) if isinstance(n, ast.Call) and au.method_name(n) == "get"
                         and n.args and au.const_str(n.args[0])}
                read |= {n.attr for n in au.walk_local(v) if isinstance(n, ast.Attribute) and au.base_name(n) == wparam and n.attr != "__dict__"}
                want = attr_of_param.get(k, set())
                if read and want and not (read & want):
                    ok = False
                    detail = "writer key %r is filled from attribute(s) %s, but Timegrid.__init__ stores that parameter in %s" % (
                        k, sorted(read), sorted(want))
                elif not read or not want:
                    ok = None
                    detail = "cannot relate the value of key %r to an attribute derived from the parameter" % k
            ctx.ob("C11.d", "Timegrid", "writer key %s" % k, ok, detail, node=v)
            # ... and the value is written as it is: the reader hands it to the constructor unchanged, so any re-spelling on the way out
            # (a canonical form, a rounding) makes the loaded grid differ from the saved one in that parameter
            calls = [c for c in au.walk_local(v) if isinstance(c, ast.Call) and au.method_name(c) not in ("get", "str", "isinstance", "getattr")]
            attrs_conv = [c for c in au.walk_local(v) if isinstance(c, ast.Attribute) and isinstance(c.value, ast.Call) and au.method_name(c.value) not in ("get", "getattr")]
            ctx.ob("C11.d", "Timegrid", "value of writer key %s is the attribute itself" % k, not (calls or attrs_conv),
                   "the value written for %r is a function of the attribute (%s): the reader passes it to Timegrid(...) as it is, so the loaded grid is "
                   "built from another value than the saved grid had - a frequency 'd' comes back as 'D', 'W' as 'W-SUN': the time points agree, but "
                   "frequencies are compared as strings (an asset with freq 'd' no longer matches the grid: ValueError in the CHP set-up, "
                   "pd.Timedelta(1, 'W-SUN') raises)" % (k, au.short((calls or attrs_conv)[0], 50) if (calls or attrs_conv) else ""), node=v)
        for q in params:
            if q in TIMEGRID_PARAM_EXCEPTIONS:
                continue
            ctx.ob("C11.d", "Timegrid", "parameter %s is written" % q, q in keys,
                   "Timegrid.__init__ parameter %s determines the grid's state but is not written to JSON: a loaded portfolio "
                   "gets the default instead" % q, node=init.node)
    else:
        ctx.ob("C11.d", writer, "Timegrid branch", None, "writer or reader has no Timegrid branch")

    # =========================================================================== tags: C11.e
    wtags = {}
    for test, body in wbranches:
        kv = _dict_keys_written(body, resvar)
        if "__class__" in kv:
            t = _tag_value(kv["__class__"])
            if t is None:
                ctx.ob("C11.e", writer, au.short(kv["__class__"]), None, "cannot evaluate the tag expression")
                continue
            lit = any(isinstance(st, ast.Assign) and isinstance(st.value, ast.Dict) and
                      any(isinstance(tt, ast.Name) and tt.id == resvar for tt in st.targets) for st in body)
            wtags[t] = (kv, lit, body)
    for t, (kv, lit, body) in sorted(wtags.items()):
        rb = rtags.get(t)
        if rb is None:
            ctx.ob("C11.e", writer, "tag %s" % t, False, "the writer emits __class__=%r but the reader has no branch for it" % t)
            continue
        ok, detail = True, ""
        if lit:
            # unguarded reads obj['k'] in the reader branch must be keys the writer wrote
            guarded = set()
            for st in au.walk_stmts(rb):
                if isinstance(st, ast.If):
                    for n in au.walk_local(st.test):
                        if isinstance(n, ast.Compare) and len(n.ops) == 1 and isinstance(n.ops[0], ast.In) and au.const_str(n.left):
                            guarded.add(au.const_str(n.left))
            for st in rb:
                for n in au.walk_local(st):
                    if isinstance(n, ast.Subscript) and isinstance(n.value, ast.Name) and n.value.id == rparam \
                            and au.const_str(n.slice) is not None and isinstance(n.ctx, ast.Load):
                        k = au.const_str(n.slice)
                        if k not in kv and k not in guarded:
                            ok, detail = False, "reader branch for %r reads key %r which the writer does not write" % (t, k)
        if t == "datetime" and ok:
            wf = [au.const_str(n.args[0]) for st in body for n in au.walk_local(st)
                  if isinstance(n, ast.Call) and au.method_name(n) == "strftime" and n.args]
            rf = [au.const_str(n.args[1]) for st in rb for n in au.walk_local(st)
                  if isinstance(n, ast.Call) and au.method_name(n) == "strptime" and len(n.args) > 1]
            if wf and rf and set(wf) != set(rf):
                ok, detail = False, "datetime format of the writer %r differs from the reader's %r" % (wf, rf)
            elif not wf or not rf:
                ok, detail = None, "strftime / strptime pair not found"
        ctx.ob("C11.e", writer, "tag %s" % t, ok, detail)
        if t == "np_array" and "np_list" in kv:
            # dates in arrays: the reader rebuilds them with np.datetime64(x, <unit>); tolist() of the array itself is
            # self-describing (ns -> integer ns, coarser resolutions -> date / datetime objects).  Any explicit conversion on
            # the way to the list has to go to exactly the unit the reader assumes.
            units = {au.const_str(n.args[1]) for st in rb for n in au.walk_local(st)
                     if isinstance(n, ast.Call) and au.method_name(n) == "datetime64" and len(n.args) > 1}
            v = kv["np_list"]
            st_v = next((st for st in au.walk_stmts(body) if any(x is v for x in ast.walk(st))), None)
            conv = []
            if st_v is not None:
                for x in ctx.origins(writer).nodes(v, st_v):
                    if isinstance(x, ast.Call) and au.method_name(x) in ("astype", "view") and isinstance(x.func, ast.Attribute):
                        arg = x.args[0] if x.args else au.kwarg(x, "dtype")
                        txt = (au.const_str(arg) or au.U(arg)) if arg is not None else ""
                        if not any(txt.replace(" ", "") in ("datetime64[%s]" % u, "M8[%s]" % u, "<M8[%s]" % u) for u in units if u):
                            conv.append((x, txt))
            if len(units) != 1:
                ctx.ob("C11.e", writer, "np_array: unit of dates", None, "the unit the reader rebuilds dates with was not found (%s)" % sorted(map(str, units)))
            else:
                ctx.ob("C11.e", writer, "np_array: unit of dates", not conv,
                       "the array is converted with %s before it is written, but the reader rebuilds dates as np.datetime64(x, %r): for "
                       "an array of another resolution (datetime64[D], [s], [h]) the numbers are counts of that resolution and the "
                       "loaded dates land in January 1970 - take periods and capacity intervals silently vanish" % (
                           au.short(conv[0][0], 50) if conv else "", next(iter(units))), node=(conv[0][0] if conv else v),
                       ok_detail="written with tolist() of the array itself, read back in %r" % next(iter(units)))

            # the element type: the writer stores tolist() of an array of *any* element type (numbers, integers, booleans, dates,
            # objects such as zone-aware time stamps, which become nested dictionaries); the reader may not force one
            forced = []
            for st in au.walk_stmts(rb):
                for x in au.walk_own(st):
                    if not isinstance(x, ast.Call):
                        continue
                    mn = au.method_name(x)
                    d = None
                    if mn in ("asarray", "array", "fromiter", "asanyarray"):
                        d = au.kwarg(x, "dtype") or (x.args[1] if len(x.args) > 1 else None)
                    elif mn == "astype":
                        d = x.args[0] if x.args else au.kwarg(x, "dtype")
                    if d is None:
                        continue
                    alts = []
                    stack = [d]
                    while stack:
                        y = stack.pop()
                        if isinstance(y, ast.IfExp):
                            stack += [y.body, y.orelse]
                        else:
                            alts.append(y)
                    for y in alts:
                        txt = au.const_str(y) or au.U(y)
                        if not any(k in txt for k in ("datetime64", "M8", "object")) and txt != "None":
                            forced.append((x, txt))
            ctx.ob("C11.e", writer, "np_array: element type", not forced,
                   "the reader rebuilds the array with a fixed element type (%s in %s); the writer stores arrays of every element type: an "
                   "integer or boolean array comes back as float (saving the loaded object gives another JSON: '0,' -> '0.0,'), and an "
                   "object array of zone-aware time stamps (an order book built from a DataFrame) cannot be loaded at all" % (
                       forced[0][1] if forced else "", au.short(forced[0][0], 60) if forced else ""), node=(forced[0][0] if forced else v),
                   ok_detail="the element type is left to the stored values")

    # =========================================================================== Node / Unit / Portfolio: C11.g
    for cname in ("Node", "Unit"):
        if cname not in by_class or cname not in rtags or cname not in p.classes:
            ctx.ob("C11.g", writer, "%s branch" % cname, None, "writer/reader branch or class missing")
            continue
        ci = p.cls(cname)
        acc, anyk = accepted_params(p, ci)
        attrs = {}
        for c in p.mro(ci):
            for m in c.methods.values():
                for attr, st, val in self_attr_writes(m):
                    attrs.setdefault(attr, st)
        up, _ = _pops(by_class[cname][1], resvar)
        for attr, st in sorted(attrs.items()):
            if attr in up:
                continue
            ctx.ob("C11.g", cname, "attribute %s" % attr, anyk or attr in acc,
                   "%s.%s is stored but is not a constructor parameter" % (cname, attr), node=st)
    if "Portfolio" in by_class and "Portfolio" in rtags:
        kv = _dict_keys_written(by_class["Portfolio"][1], resvar)
        for st in rtags["Portfolio"]:
            for n in au.walk_local(st):
                if isinstance(n, ast.Subscript) and isinstance(n.value, ast.Name) and n.value.id == rparam \
                        and au.const_str(n.slice) not in (None, "__class__"):
                    k = au.const_str(n.slice)
                    ctx.ob("C11.g", "Portfolio", "reader key %s" % k, k in kv,
                           "the Portfolio reader uses key %r which the writer never writes" % k, node=n)


    # =========================================================================== C11.k tables kept by constructors
    n_k = 0
    for ci in sorted(p.classes.values(), key=lambda c: c.name):
        init = ci.methods.get("__init__")
        if init is None:
            continue
        for st in au.walk_stmts(init.body):
            for c in au.walk_own(st):
                if isinstance(c, ast.Call) and au.method_name(c) == "to_dict" and isinstance(c.func, ast.Attribute):
                    orient = au.arg_or_kw(c, 0, "orient")
                    n_k += 1
                    ok = orient is not None and au.const_str(orient) in ("list", "series", "split", "tight") or (orient is not None and au.const_str(orient) == "records")
                    ctx.ob("C11.k", init, au.short(c, 70), ok,
                           "%s uses the default orient: {column: {row label: value}} - a dict of dicts with the (integer) row labels as keys. It works in memory "
                           "(orders['start'][0]) but JSON object keys are strings: after save / load the keys are '0', '1', ... and the set-up raises "
                           "KeyError(0) - an order book given as data frame can be optimised before saving and not after loading" % au.short(c, 50), node=c)
    if n_k == 0:
        ctx.ob("C11.k", "package", "tables kept by constructors", True, ok_detail="no constructor keeps DataFrame.to_dict()")


    # =========================================================================== C11.n arrays are written exactly
    n_np = 0
    for st in au.walk_stmts(writer.body):
        pairs = []
        if isinstance(st, ast.Assign) and isinstance(st.targets[0], ast.Subscript) and au.const_str(st.targets[0].slice) == "np_list":
            pairs.append(st.value)
        for x in au.walk_own(st):
            if isinstance(x, ast.Dict):
                for k, v in zip(x.keys, x.values):
                    if au.const_str(k) == "np_list":
                        pairs.append(v)
        for v in pairs:
            n_np += 1
            alts, todo = [], [ctx.resolve(writer, v, st)]
            while todo:
                e = todo.pop()
                if isinstance(e, ast.IfExp):
                    todo += [e.body, e.orelse]
                else:
                    alts.append(e)
            wparam = writer.params[0].name if writer.params else "obj"
            bad = [e for e in alts if not (isinstance(e, ast.Call) and au.method_name(e) == "tolist" and isinstance(e.func, ast.Attribute)
                                           and isinstance(e.func.value, ast.Name) and e.func.value.id == wparam)]
            ctx.ob("C11.n", writer, "np_list <- %s" % au.short(v, 50), not bad,
                   "the values of a numpy array are written as %s, not as <array>.tolist(): for a datetime64[ns] array tolist() gives exact integer "
                   "nanoseconds, while time stamps go through the datetime writer, which keeps full seconds only - order dates with fractions of a "
                   "second come back truncated and cover other steps (cost vector [48, -48] before saving, [64, -36] after loading)"
                   % (au.short(bad[0], 50) if bad else ""), node=st)
    if n_np == 0:
        ctx.ob("C11.n", writer, "np_list", None, "the writer has no 'np_list' entry (arrays written in another form)")

    # =========================================================================== C11.l identity comparisons of nodes
    node_eq = "__eq__" in (p.classes.get("Node").methods if p.classes.get("Node") is not None else {})
    n_l = 0
    for fnl in sorted(p.all_functions(), key=lambda f: f.qualname):
        for x in au.walk_local(fnl.node, include_self=False):
            if not (isinstance(x, ast.Compare) and len(x.ops) == 1 and isinstance(x.ops[0], (ast.Eq, ast.NotEq, ast.Is, ast.IsNot))):
                continue
            sides = [x.left, x.comparators[0]]
            def is_node(e):
                return isinstance(e, ast.Subscript) and isinstance(e.value, ast.Attribute) and e.value.attr == "nodes" and not isinstance(e.slice, ast.Slice)
            if all(is_node(e) for e in sides):
                n_l += 1
                ctx.ob("C11.l", fnl, au.short(x, 70), node_eq and not isinstance(x.ops[0], (ast.Is, ast.IsNot)),
                       "two Node objects are compared with `%s`: Node has no __eq__, so this is object identity. A storage given the same Node object for "
                       "input and output is 'one node' before saving; after load_from_json each entry of nodes is a separate object with the same name "
                       "and the comparison flips - c has 48 entries before saving and 96 after loading" % au.short(x, 50), node=x)
    if n_l == 0:
        ctx.ob("C11.l", "package", "comparisons between nodes", True, ok_detail="nodes are only compared through their names")
