"""Analysis 1 - who writes which mapping column, with which origins (C04.b = C16.c, C08.a, C05.f = C06.d = C20.b part).

C04.b  ownership: every value written to the `asset` column by an asset class is the asset's own name, and every frame that
       describes variables (gets a time_step column) in an asset class also gets the asset column before it is returned /
       concatenated
C08.a  who writes time_step: the values originate in the asset's restricted grid (I, possibly stacked / masked), in the
       minor steps of that grid, in existing rows, in the split re-basing through the original I, or are the constant 0
       of a 'size' row
C05.f  binaries are binaries: a frame of new variables flagged bool=True is internal (type 'i'), and where it is
       concatenated the bounds grow by zeros (l) and ones (u)
"""
from __future__ import annotations
import ast
from .. import astutil as au
from ..tables import rule
from . import analysis
from ..carriers import local_roles, role

rule("C04.b", "every value written to the asset column by an asset class is self.name, and every variable frame built in an "
              "asset class is given the asset column", floor=10, props=["C04", "C16"])
rule("C08.a", "time steps written to a mapping originate in the asset's restricted grid (or its minor steps, existing rows, the "
              "split re-basing, or the constant 0 of a size row) - so every step index of a mapping lies on the grid", floor=10, props=["C08", "C07", "C15"])
rule("C05.f", "a frame of new variables flagged bool=True is internal (type 'i') and its bounds are [0, 1]", floor=5,
     props=["C05", "C06"])


def _col_written(t):
    """column name of a store target frame['col'] / frame.loc[sel, 'col'] ; None otherwise."""
    if isinstance(t, ast.Subscript):
        sl = t.slice
        c = au.const_str(sl)
        if c is not None:
            return c
        if isinstance(sl, ast.Tuple) and sl.elts:
            return au.const_str(sl.elts[-1])
    return None


@analysis("mappingcols", ["C04.b", "C08.a", "C05.f"])
def run(ctx):
    p = ctx.p
    asset_fns = [f for ci in p.asset_classes() for f in ci.methods.values() if f.name != "__init__"]
    # ================================================================= C04.b
    n = 0
    for fn in sorted(asset_fns, key=lambda f: f.qualname):
        frames_with_steps, frames_with_asset = {}, set()
        for st in au.walk_stmts(fn.body):
            if isinstance(st, ast.Assign):
                col = _col_written(st.targets[0])
                frame = au.base_name(st.targets[0])
                if col == "asset":
                    n += 1
                    frames_with_asset.add(frame)
                    ok = au.path(st.value) == "self.name"
                    # copying the column elsewhere first (internal_asset = asset) is not a write of the asset column
                    ctx.ob("C04.b", fn, au.short(st, 80), ok,
                           "the owner written to the mapping is %s, not self.name: Asset.dcf and every report select rows by "
                           "asset == self.name, so these variables would belong to nobody (or to another asset)" % au.short(st.value, 40), node=st)
                elif col == "time_step" and isinstance(st.targets[0].value, ast.Name):
                    frames_with_steps.setdefault(frame, st)
            for x in au.walk_own(st):
                if isinstance(x, ast.Dict):
                    keys = {au.const_str(k): v for k, v in zip(x.keys, x.values) if au.const_str(k)}
                    if "time_step" in keys and "type" in keys:
                        n += 1
                        ok = "asset" in keys and au.path(keys["asset"]) == "self.name"
                        ctx.ob("C04.b", fn, "row literal %s" % au.short(x, 60), ok,
                               "a mapping row is inserted without asset = self.name", node=x)
        for frame, st in sorted(frames_with_steps.items()):
            if frame is None or fn.param("mapping") is not None:
                continue   # a helper that transforms an existing mapping copies rows, owner included
            # the frame may be merged into another one that is owned afterwards: mapping = concat([mapping, frame]) with a later
            # whole-column write on the result
            merged_into = set()
            for s2 in au.walk_stmts(fn.body):
                if isinstance(s2, ast.Assign) and isinstance(s2.value, ast.Call) and au.method_name(s2.value) in ("concat", "copy") and \
                        frame in au.names_in(s2.value) and isinstance(s2.targets[0], ast.Name):
                    later = [s3 for s3 in au.walk_stmts(fn.body) if s3.lineno > s2.lineno and isinstance(s3, ast.Assign)
                             and _col_written(s3.targets[0]) == "asset" and au.base_name(s3.targets[0]) == s2.targets[0].id]
                    if later:
                        merged_into.add(s2.targets[0].id)
            # ... or collected in a list that is concatenated into an owned frame:  lst.append(frame) ... target = pd.concat(lst ...)
            lists = {au.base_name(x.func) for s2 in au.walk_stmts(fn.body) for x in au.walk_own(s2)
                     if isinstance(x, ast.Call) and au.method_name(x) == "append" and isinstance(x.func, ast.Attribute) and frame in au.names_in(x)}
            for s2 in au.walk_stmts(fn.body):
                if isinstance(s2, ast.Assign) and isinstance(s2.targets[0], ast.Name) and (au.names_in(s2.value) & lists) and any(
                        isinstance(x, ast.Call) and au.method_name(x) == "concat" for x in au.walk_local(s2.value)):
                    later = [s3 for s3 in au.walk_stmts(fn.body) if s3.lineno > s2.lineno and isinstance(s3, ast.Assign)
                             and _col_written(s3.targets[0]) == "asset" and au.base_name(s3.targets[0]) == s2.targets[0].id]
                    if later:
                        merged_into.add(s2.targets[0].id)
            n += 1
            ok = frame in frames_with_asset or bool(merged_into)
            ctx.ob("C04.b", fn, "frame %s gets an owner" % frame, ok,
                   "the frame `%s` describes variables (it has a time_step column) but is never given asset = self.name in this "
                   "function" % frame, node=st)
    ctx.require(n >= 10, "fewer than 10 ownership sites found")

    # ================================================================= C08.a
    n = 0
    all_fns = [f for f in p.all_functions() if f.parent is None]
    for fn in sorted(all_fns, key=lambda f: f.qualname):
        org = None
        for st in au.walk_stmts(fn.body):
            sites = []
            if isinstance(st, ast.Assign) and _col_written(st.targets[0]) == "time_step":
                sites.append(st.value)
            for x in au.walk_own(st):
                if isinstance(x, ast.Dict):
                    for k, v in zip(x.keys, x.values):
                        if au.const_str(k) == "time_step":
                            sites.append(v)
            for v in sites:
                n += 1
                org = org or ctx.origins(fn, values_only=True)
                nodes = org.nodes(v, st)
                def grid_i(x):
                    if isinstance(x, ast.Attribute) and x.attr in ("I", "I_minor_in_major"):
                        return True
                    return False
                from_grid = any(grid_i(x) for x in nodes)
                from_rows = any(isinstance(x, ast.Subscript) and au.const_str(x.slice) == "time_step" for x in nodes if x is not v) or \
                    any(isinstance(x, ast.Attribute) and x.attr == "time_step" for x in nodes)
                is_zero = au.const_num(v) == 0
                is_empty = isinstance(v, ast.Call) and au.method_name(v) in ("array", "asarray") and v.args and \
                    isinstance(v.args[0], (ast.List, ast.Tuple)) and not v.args[0].elts
                ok = from_grid or from_rows or is_zero or is_empty
                why = "from the grid index" if from_grid else ("from existing rows" if from_rows else ("constant 0" if is_zero else "no rows"))
                ctx.ob("C08.a", fn, au.short(st, 80) if len(au.U(st)) < 90 else "time_step <- %s" % au.short(v, 60), ok,
                       "the time steps written here (%s) do not originate in the asset's restricted grid: steps outside the asset's "
                       "window / the horizon (or positions instead of step labels) end up in the mapping" % au.short(v, 50), node=st,
                       ok_detail=why)
    ctx.require(n >= 10, "fewer than 10 writers of time_step found")

    # ================================================================= C05.f binaries
    n = 0
    for fn in sorted(asset_fns, key=lambda f: f.qualname):
        bool_frames = {}
        for st in au.walk_stmts(fn.body):
            if isinstance(st, ast.Assign) and _col_written(st.targets[0]) == "bool" and isinstance(st.value, ast.Constant) and st.value.value is True \
                    and isinstance(st.targets[0].value, ast.Name):
                bool_frames[st.targets[0].value.id] = st
        for frame, st in sorted(bool_frames.items()):
            types = [s2 for s2 in au.walk_stmts(fn.body) if isinstance(s2, ast.Assign) and _col_written(s2.targets[0]) == "type"
                     and au.base_name(s2.targets[0]) == frame]
            n += 1
            ok = bool(types) and all(au.const_str(s2.value) == "i" for s2 in types)
            ctx.ob("C05.f", fn, "binary frame %s is internal" % frame, ok,
                   "rows flagged bool=True must be type 'i': as type 'd' the binary would enter the nodal balance as dispatch", node=st)
            # bounds where the frame is concatenated
            for s2 in au.walk_stmts(fn.body):
                if isinstance(s2, ast.Assign) and isinstance(s2.value, ast.Call) and au.method_name(s2.value) == "concat" and frame in au.names_in(s2.value):
                    blk = p.parent(s2)
                    stmts = getattr(blk, "body", []) if s2 in getattr(blk, "body", []) else getattr(blk, "orelse", [])
                    fr = local_roles(fn)
                    lo = [s3 for s3 in stmts if isinstance(s3, ast.Assign) and role(s3.targets[0], fr) == "l" and isinstance(s3.value, ast.Call)
                          and au.method_name(s3.value) == "hstack"]
                    hi = [s3 for s3 in stmts if isinstance(s3, ast.Assign) and role(s3.targets[0], fr) == "u" and isinstance(s3.value, ast.Call)
                          and au.method_name(s3.value) == "hstack"]
                    if not lo and not hi:
                        continue
                    def appended(s3):
                        a0 = s3.value.args[0]
                        return a0.elts[1] if isinstance(a0, (ast.Tuple, ast.List)) and len(a0.elts) == 2 else None
                    n += 1
                    l_ok = bool(lo) and all(isinstance(appended(x), ast.Call) and au.method_name(appended(x)) == "zeros" for x in lo)
                    u_ok = bool(hi) and all(isinstance(appended(x), ast.Call) and au.method_name(appended(x)) == "ones" for x in hi)
                    ctx.ob("C05.f", fn, "bounds of %s at %s" % (frame, au.short(s2, 50)), l_ok and u_ok,
                           "binary variables need bounds [0, 1] (l extended by zeros, u by ones); found l += %s, u += %s" % (
                               [au.short(appended(x), 30) for x in lo], [au.short(appended(x), 30) for x in hi]), node=s2)
    ctx.require(n >= 5, "fewer than 5 binary-frame sites found")
