"""Masks and positions (C19.p, C20.o, C07.ad).

A selection of steps / rows is either a boolean *mask* over the whole array or an array of *positions* (np.flatnonzero, np.where(c)[0],
np.nonzero(c)[0], argwhere ...).  Both select the same elements when used as a subscript, so a function can be moved from one
representation to the other line by line - except for the emptiness and counting idioms: `any(mask)`, `mask.any()`, `mask.sum()`, `not
mask.any()` ask for the truth of the *elements*; on positions the element 0 is falsy (`any([0])` is False: a selection that holds only the
first step counts as empty) and `sum` adds positions up.  The rule follows the representation through locals and through helper functions
of the package that return positions, and reports element-truth idioms applied to positions.
"""
from __future__ import annotations
import ast
from .. import astutil as au
from ..tables import rule
from . import analysis

TXT = "a selection kept as an array of *positions* (np.flatnonzero / np.where(c)[0] / nonzero(c)[0], or a helper that returns one) is tested " \
      "for emptiness / counted with len() or .size - never with any() / all() / sum() / `not`, which look at the truth of the elements: " \
      "position 0 is falsy, so a selection that consists of the first step only counts as empty"
rule("C19.p", "time grid: " + TXT, floor=0, props=["C19", "C13", "C08"])
rule("C20.o", "order book: " + TXT, floor=0)
rule("C07.ad", "set-ups: " + TXT, floor=0, props=["C07", "C05"])

PRODUCERS = ("flatnonzero", "argwhere")


def _is_producer(e, returns_positions) -> bool:
    if isinstance(e, ast.Call):
        m = au.method_name(e)
        if m in PRODUCERS:
            return True
        if m in returns_positions:
            return True
        if m in ("asarray", "array", "sort", "unique", "copy") and e.args:
            return _is_producer(e.args[0], returns_positions)
    if isinstance(e, ast.Subscript) and au.const_num(e.slice) == 0 and isinstance(e.value, ast.Call):
        m = au.method_name(e.value)
        if m == "nonzero" or (m == "where" and len(e.value.args) == 1):
            return True
    return False


@analysis("positions", ["C19.p", "C20.o", "C07.ad"])
def run(ctx):
    p = ctx.p
    # helpers of the package that return positions on every return
    returns_positions = set()
    for _ in range(2):
        for fn in p.all_functions():
            rets = [r for r in au.walk_stmts(fn.body) if isinstance(r, ast.Return) and r.value is not None]
            if rets and all(_is_producer(ctx.resolve(fn, r.value, r), returns_positions) for r in rets):
                returns_positions.add(fn.name)
    n = {"C19.p": 0, "C20.o": 0, "C07.ad": 0}
    for fn in sorted(p.all_functions(), key=lambda f: f.qualname):
        cname = fn.cls.name if fn.cls is not None else ""
        rid = "C20.o" if cname == "OrderBook" else ("C19.p" if cname == "Timegrid" else "C07.ad")
        ff = None
        # names that hold positions: every reaching plain definition is a producer
        for st in au.walk_stmts(fn.body):
            for x in au.walk_own(st):
                target = None
                how = None
                if isinstance(x, ast.Call) and isinstance(x.func, ast.Name) and x.func.id in ("any", "all", "sum") and len(x.args) == 1:
                    target, how = x.args[0], "%s(...)" % x.func.id
                elif isinstance(x, ast.Call) and isinstance(x.func, ast.Attribute) and x.func.attr in ("any", "all", "sum") and not x.args:
                    target, how = x.func.value, ".%s()" % x.func.attr
                elif isinstance(x, ast.UnaryOp) and isinstance(x.op, (ast.Not, ast.Invert)) and isinstance(x.operand, ast.Name):
                    target, how = x.operand, "`%s`" % ("not" if isinstance(x.op, ast.Not) else "~")
                if target is None:
                    continue
                is_pos = _is_producer(target, returns_positions)
                if not is_pos and isinstance(target, ast.Name):
                    ff = ff or ctx.flow(fn)
                    ds = list(ff.defs(target.id, st))
                    is_pos = bool(ds) and all(d.kind == "assign" and d.value is not None and d.index in (None, ()) and _is_producer(d.value, returns_positions) for d in ds)
                if not is_pos:
                    continue
                n[rid] += 1
                ctx.ob(rid, fn, au.short(x, 70), False,
                       "%s holds positions (it is defined by %s) and is examined with %s, which asks whether an *element* is true: a selection that "
                       "consists of position 0 only - an interval / an order / a window that covers nothing but the first step of the grid - is taken "
                       "for empty (the first fine step belongs to no coarse interval; an order on the first step can never be executed), and a sum adds "
                       "positions instead of counting" % (au.short(target, 30), "a helper that returns np.flatnonzero(...)" if not _is_producer(target, set()) and not (
                           isinstance(target, ast.Name)) else "np.flatnonzero / where(...)[0] or a helper returning positions", how), node=x)
    for rid, k in n.items():
        if k == 0:
            ctx.ob(rid, "package", "element-truth idioms on positions", True, ok_detail="none (helpers returning positions: %s)" % (sorted(returns_positions) or "none"))
