"""Rule registry. An *analysis* is one function that emits obligations under one or more rule ids; a rule id serves
one or more properties (many rule ids are the same analysis looked at from another property, DESIGN appendix I)."""
from __future__ import annotations
import importlib
from dataclasses import dataclass
from typing import Callable

ANALYSES: list = []

# modules of this package that register analyses (explicit list: a missing module is an error, not a silent skip)
MODULES = [
    "serialization",
    "nullness",
    "gridcache",
    "effects",
    "stale",
    "translation",
    "keys",
    "frames",
    "spaces",
    "minorgrid",
    "costsonly",
    "options",
    "emptiness",
    "storage",
    "chp",
    "nodal",
    "intervals",
    "slp",
    "mappingcols",
    "split",
    "orderbook",
    "scaled",
    "roles",
    "degrees",
    "siblings",
    "lockstep",
    "sparsefmt",
    "counts",
    "windows",
    "positions",
    "modstate",
    "memo",
]


@dataclass
class Analysis:
    name: str
    func: Callable
    emits: tuple


def analysis(name: str, emits):
    def deco(f):
        if not any(a.name == name for a in ANALYSES):
            ANALYSES.append(Analysis(name, f, tuple(emits)))
        return f
    return deco


def load_all():
    for m in MODULES:
        importlib.import_module("eaocheck.rules." + m)
    return ANALYSES
