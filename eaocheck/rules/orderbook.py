"""Analysis 30 - order book constants and selectors (C20.a, C20.b, C20.c, C20.f).

C20.a  one execution variable per order with bounds [0, 1]: l zeros, u ones, c of the same width = number of orders
C20.b  full execution sets the boolean flag on every row of the asset (whole-column write under `if self.full_exec`)
C20.c  cost, delivered volume and covered steps of an order use the same step selector, and the same order index keys
       the cost entry and the rows
C20.f  the order report takes one row per order (de-duplicated by index) and reads x and c at the variable label
"""
from __future__ import annotations
import ast
from .. import astutil as au
from ..tables import rule
from . import analysis

rule("C20.a", "one execution variable per order with bounds [0, 1] (l zeros, u ones, c: all sized by the number of orders)", floor=3)
rule("C20.b", "full execution flags every row of the order book as boolean", floor=1)
rule("C20.c", "cost, delivered volume and covered steps of an order use one step selector; one order index keys cost and rows (an order variable "
              "carries a cost exactly when it has mapping rows: otherwise its cash flow is in the optimal value but in no asset's cash flows)", floor=3,
     props=["C20", "C04", "C07"])
rule("C20.f", "the order report de-duplicates the mapping by index and reads x and c at the variable label", floor=2)


rule("C20.m", "an order without a step in the horizon is pinned to 0: it has no mapping row, so neither the boolean flag of full execution "
              "nor any restriction reaches its variable - only its bounds can make it 'exactly 0 or 1'", floor=1)
rule("C20.l", "an order takes part whenever its window intersects the horizon: a test that skips an order looks at both ends of its "
              "window (start < horizon end and end > horizon start), never at one end alone", floor=0)


rule("C20.n", "every order the user lists is an order of the book - one execution variable each: the constructor keeps all rows of the order "
              "table (no drop_duplicates / unique / groupby / dropna / filtering on the way to self.orders): two identical rows are two "
              "orders", floor=1)

rule("C20.p", "the mapping rows of order k carry the label k - the number that also indexes its bound and its cost (l[k], u[k], c[k]): the label "
              "comes from the loop variable over the orders (directly or through the 'var_name' column set from it), never from a count of the "
              "frames that happened to be non-empty (an order without a step in the horizon shifts all later ones)", floor=1, props=["C20", "C08", "C07", "C04"])

rule("C20.q", "the steps an order delivers in are the steps that *start* inside its window - the same half-open membership test of the step "
              "starts (tp >= start) & (tp < end) that asset windows, interval data and take periods use; an interval-overlap test (every step that "
              "intersects the window) also takes the step that merely contains the start of an order that begins off the grid", floor=1,
     props=["C20", "C19", "C08"])

rule("C20.r", "a quantity an order gives for its whole period is spread over the period's own length (end - start): a division by the summed "
              "length of the steps the order covers in the grid makes the share inside the horizon the whole quantity (an order that sticks out of "
              "the horizon must deliver pro rata - C08)", floor=0, props=["C20", "C08"])

ROW_REDUCERS = ("drop_duplicates", "unique", "groupby", "dropna", "query", "head", "tail", "sample", "nlargest", "nsmallest", "duplicated", "first", "last",
                "drop", "where", "mask", "filter", "compress", "take")


@analysis("orderbook", ["C20.a", "C20.b", "C20.c", "C20.f", "C20.l", "C20.m", "C20.n", "C20.p", "C20.q", "C20.r"])
def run(ctx):
    p = ctx.p
    ob = p.cls("OrderBook")
    # ---- C20.n all rows kept
    ini = ob.methods.get("__init__")
    if ini is None or ini.param("orders") is None:
        ctx.ob("C20.n", "OrderBook", "orders kept", None, "OrderBook.__init__(orders=...) not found")
    else:
        bad = None
        tainted = {"orders"}
        for st in au.walk_stmts(ini.body):
            if isinstance(st, (ast.Assign, ast.AugAssign)):
                uses = [x for x in au.walk_local(st.value) if isinstance(x, ast.Name) and x.id in tainted]
                if uses:
                    tainted |= set(n0 for t0 in au.stmt_targets(st) for n0 in (au.target_names(t0) or ([au.base_name(t0)] if au.base_name(t0) not in (None, "self") else [])))
            for c in au.walk_own(st):
                if isinstance(c, ast.Call) and au.method_name(c) in ROW_REDUCERS and isinstance(c.func, ast.Attribute) and (au.names_in(c.func.value) & tainted):
                    bad = bad or (st, c)
                if isinstance(c, ast.Subscript) and isinstance(c.value, ast.Name) and c.value.id in tainted and isinstance(c.ctx, ast.Load) \
                        and isinstance(c.slice, (ast.Compare, ast.UnaryOp)) :
                    bad = bad or (st, c)
        ctx.ob("C20.n", ini, "all rows of the order table reach self.orders", bad is None,
               "the order table passes through %s (%s) before it is stored: rows are dropped - an order book in which the same product is quoted "
               "twice at the same price and volume (two counterparties) loses one of the two orders; 5 execution variables for 7 orders, optimum "
               "233.7 instead of 377.8 of the formulation with one variable per order" % (au.short(bad[1], 40) if bad else "", p.where(bad[0]) if bad else ""),
               node=(bad[0] if bad else ini.node), ok_detail="no row-reducing operation on the orders")
    fn = ob.methods.get("setup_optim_problem")
    ctx.require(fn is not None, "OrderBook.setup_optim_problem vanished")
    ff = ctx.flow(fn)
    # ---- C20.m orders without steps
    pinned = False
    for lp in [s0 for s0 in au.walk_stmts(fn.body) if isinstance(s0, ast.For)]:
        for iff in [s0 for s0 in au.walk_stmts(lp.body) if isinstance(s0, ast.If)]:
            t, pol = au.strip_not(iff.test)
            empt = (isinstance(t, ast.Call) and au.method_name(t) in ("any",) and not pol) or \
                (isinstance(t, ast.Compare) and len(t.ops) == 1 and au.const_num(t.comparators[0]) == 0 and isinstance(t.left, ast.Call) and au.method_name(t.left) in ("sum", "len", "count_nonzero"))
            if not empt:
                continue
            for s1 in au.walk_stmts(iff.body):
                if isinstance(s1, ast.Assign) and isinstance(s1.targets[0], ast.Subscript) and au.const_num(s1.value) == 0 \
                        and (set(au.target_names(lp.target)) & au.names_in(s1.targets[0].slice)):
                    from ..carriers import local_roles as _lr, role as _role
                    if _role(s1.targets[0].value, _lr(fn)) == "u" or au.U(s1.targets[0].value) == "u":
                        pinned = True
    ctx.ob("C20.m", fn, "orders without a step in the horizon are pinned to 0", pinned,
           "an order that covers no step of the horizon keeps the bounds [0, 1] but gets no mapping row: with full execution enforced its "
           "variable is not flagged boolean (the flag lives in the mapping) and, having neither cost nor restriction, may come back at any "
           "fraction - e.g. 0.5 - although the property says 'exactly 0 or 1'", node=fn.node,
           key="orders without a step in the horizon are pinned to 0")
    # ---- C20.l skipping an order
    org_l = ctx.origins(fn)
    for lp in [s0 for s0 in au.walk_stmts(fn.body) if isinstance(s0, ast.For)]:
        for iff in [s0 for s0 in lp.body if isinstance(s0, ast.If) and any(isinstance(x, ast.Continue) for x in au.walk_stmts(s0.body))]:
            ends = set()
            for nm in [x for x in au.walk_local(iff.test) if isinstance(x, ast.Name)]:
                for y in org_l.nodes(nm, iff):
                    if isinstance(y, ast.Subscript) and au.const_str(y.slice) in ("start", "end") and "orders" in au.U(y.value):
                        ends.add(au.const_str(y.slice))
            if not ends:
                continue
            ctx.ob("C20.l", fn, "if %s: continue" % au.short(iff.test, 60), ends == {"start", "end"},
                   "an order is skipped by a test on its %s alone: an order that starts before the horizon and ends inside it (or starts inside "
                   "and ends after it) intersects the horizon and has to deliver in the covered steps, but it is skipped like an order wholly "
                   "outside - it pays nothing and delivers nothing (payment 0 instead of -1728 in the demo)" % sorted(ends)[0], node=iff)
    # ---- C20.a
    carriers = {}
    for st in fn.body:
        if isinstance(st, ast.Assign) and isinstance(st.targets[0], ast.Name) and st.targets[0].id in ("l", "u", "c") and isinstance(st.value, ast.Call):
            carriers[st.targets[0].id] = st
    ret = [s for s in au.walk_stmts(fn.body) if isinstance(s, ast.Return) and isinstance(s.value, ast.Call) and au.method_name(s.value) == "OptimProblem"]
    names = {}
    if ret:
        for k in ("c", "l", "u"):
            v = au.kwarg(ret[0].value, k)
            if isinstance(v, ast.Name):
                names[k] = v.id
    widths = {}
    for k, local in names.items():
        ds = [d for d in ff.all_defs(local) if d.kind == "assign" and isinstance(d.value, ast.Call) and au.method_name(d.value) in ("zeros", "ones", "full")]
        if ds:
            widths[k] = (au.method_name(ds[0].value), au.U(ds[0].value.args[0]) if ds[0].value.args else "?", ds[0].node)
    n_orders = None
    for st in fn.body:
        if isinstance(st, ast.Assign) and isinstance(st.value, ast.Call) and au.method_name(st.value) == "len" and "orders" in au.U(st.value) and isinstance(st.targets[0], ast.Name):
            n_orders = st.targets[0].id
    if len(widths) < 3:
        ctx.ob("C20.a", fn, "bounds of the execution variables", None, "l / u / c are not created by zeros / ones of a named width (found %s)" % sorted(widths))
    else:
        ctx.ob("C20.a", fn, "lower bound 0", widths["l"][0] == "zeros", "an order is executed at a fraction >= 0: l must be zeros, found %s" % widths["l"][0], node=widths["l"][2])
        ctx.ob("C20.a", fn, "upper bound 1", widths["u"][0] == "ones", "an order is executed at a fraction <= 1: u must be ones, found %s" % widths["u"][0], node=widths["u"][2])
        ws = {w[1] for w in widths.values()}
        ctx.ob("C20.a", fn, "one variable per order", len(ws) == 1 and (n_orders is None or ws == {n_orders}),
               "l, u and c must all have one entry per order (%s); found widths %s" % (n_orders, {k: w[1] for k, w in widths.items()}), node=widths["c"][2])
    # ---- C20.b
    fe = [s for s in au.walk_stmts(fn.body) if isinstance(s, ast.If) and any(au.path(x) == "self.full_exec" for x in au.walk_local(s.test))]
    ok = False
    for s in fe:
        for s2 in s.body:
            if isinstance(s2, ast.Assign) and isinstance(s2.targets[0], ast.Subscript) and au.const_str(s2.targets[0].slice) == "bool" \
                    and isinstance(s2.targets[0].value, ast.Name):
                v = s2.value
                ok = (isinstance(v, ast.Constant) and v.value is True) or au.path(v) == "self.full_exec"
    ctx.ob("C20.b", fn, "full execution sets bool on every row", ok,
           "with full_exec the whole `bool` column of the order book's mapping must be set (a .loc subset or a missing write leaves "
           "orders partially executable)", node=(fe[0] if fe else fn.node))
    # ---- C20.c
    loop = next((s for s in fn.body if isinstance(s, ast.For) and "orders" in au.U(s.iter)), None)
    if loop is None:
        ctx.ob("C20.c", fn, "order loop", None, "loop over the orders not found")
    else:
        lv = au.target_names(loop.target)[0]
        sel_by_role = {}
        for st in au.walk_stmts(loop.body):
            if isinstance(st, ast.Assign):
                t = st.targets[0]
                role = None
                if isinstance(t, ast.Subscript) and isinstance(t.value, ast.Name) and t.value.id == names.get("c", "c"):
                    role = "cost"
                    ctx.ob("C20.c", fn, "cost entry keyed by the order index", au.U(t.slice) == lv,
                           "the cost of order %s is written to entry %s" % (lv, au.U(t.slice)), node=st)
                elif isinstance(t, ast.Subscript) and au.const_str(t.slice) == "time_step":
                    role = "covered steps"
                elif isinstance(t, ast.Subscript) and au.const_str(t.slice) == "disp_factor":
                    role = "delivered volume"
                elif isinstance(t, ast.Subscript) and au.const_str(t.slice) == "var_name":
                    ctx.ob("C20.c", fn, "rows keyed by the order index", au.U(st.value) == lv,
                           "the rows of order %s are labelled %s" % (lv, au.U(st.value)), node=st)
                if role:
                    masks = {au.U(x.slice) for x in au.walk_local(st.value) if isinstance(x, ast.Subscript) and isinstance(x.slice, ast.Name)
                             and x.slice.id != lv}
                    sel_by_role[role] = (masks, st)
                if role == "cost":
                    # every additive term of the cost is a sum over the selected steps: a term without the selector is due even when the
                    # order has no step in the horizon - a variable without mapping row must have zero cost (C07)
                    terms = au.flatten_binop(st.value, (ast.Add, ast.Sub))
                    free = [t0 for t0 in terms if not any(isinstance(x, ast.Subscript) and isinstance(x.slice, ast.Name) and x.slice.id != lv for x in au.walk_local(t0))
                            and au.const_num(t0) != 0]
                    if len(terms) > 1 or free:
                        ctx.ob("C20.c", fn, "every term of the cost of an order is a sum over its steps", not free,
                               "the term %s of the cost of an order does not depend on the steps the order covers: an order without a step in the horizon "
                               "has no mapping row, its variable must then have zero cost (C07: a variable without row is free of cost and in no "
                               "restriction) - here it keeps the cost %s (variable 2 has no mapping row, but cost 2.5)" % (
                                   au.short(free[0], 40) if free else "", au.short(free[0], 40) if free else ""), node=st)
        allm = set()
        for m, _ in sel_by_role.values():
            allm |= m
        ok = len(sel_by_role) == 3 and len(allm) == 1 and all(m == allm for m, _ in sel_by_role.values())
        ctx.ob("C20.c", fn, "one step selector for cost, volume and steps", ok,
               "cost, delivered volume and covered steps of an order must be computed over the same steps; selectors found: %s" % (
                   {k: sorted(v[0]) for k, v in sel_by_role.items()}), node=loop)
        # the selector is the half-open window of the order (C19.a covers the convention)
    # ---- C20.f
    io_fn = p.fn_opt("io.extract_output")
    ctx.require(io_fn is not None, "io.extract_output vanished")
    blk = [s for s in au.walk_stmts(io_fn.body) if isinstance(s, ast.If) and "OrderBook" in au.U(s.test)]
    if not blk:
        ctx.ob("C20.f", io_fn, "order report", None, "block `if isinstance(a, OrderBook)` not found")
    else:
        b = blk[0]
        dd = [x for x in au.walk_local(b) if isinstance(x, ast.Call) and au.method_name(x) == "duplicated"]
        ok = bool(dd) and all(isinstance(x.func, ast.Attribute) and au.terminal(x.func.value) == "index" for x in dd)
        ctx.ob("C20.f", io_fn, "one report row per order", ok,
               "an order has one mapping row per covered step; the report must de-duplicate *by index* to list each order once", node=b)
        own = any(isinstance(x, ast.Compare) and isinstance(x.left, ast.Subscript) and au.const_str(x.left.slice) == "asset" and ".name" in au.U(x.comparators[0])
                  for x in au.walk_local(b))
        ctx.ob("C20.f", io_fn, "report rows of this order book only", own, "the order report must filter asset == a.name", node=b)


    # ================================================================= C20.p labels of an order's rows
    org_p = ctx.origins(fn, values_only=True)
    loops_o = [lp for lp in au.walk_stmts(fn.body) if isinstance(lp, ast.For) and isinstance(lp.target, ast.Name)
               and any(isinstance(s2, ast.Assign) and isinstance(s2.targets[0], ast.Subscript) and au.base_name(s2.targets[0]) in ("c", "u", "l")
                       and isinstance(s2.targets[0].slice, ast.Name) and s2.targets[0].slice.id == lp.target.id for s2 in au.walk_stmts(lp.body))]
    if not loops_o:
        ctx.ob("C20.p", fn, "labels of an order's rows", None, "the loop over the orders (c[k] = ... / u[k] = ...) was not found")
    for lp in loops_o:
        k = lp.target.id
        idx_sets = [s2 for s2 in au.walk_stmts(fn.body) if isinstance(s2, ast.Assign) and isinstance(s2.targets[0], ast.Attribute) and s2.targets[0].attr == "index"]
        from_k = []
        for s2 in idx_sets:
            inside = any(s2 is x for x in au.walk_stmts(lp.body))
            names = {x.id for x in org_p.nodes(s2.value, s2) if isinstance(x, ast.Name)} | au.names_in(s2.value)
            # through a column set from the loop variable:  frame['var_name'] = k ; frame.index = frame['var_name'].values
            cols = {au.const_str(x.slice) for x in au.walk_local(s2.value) if isinstance(x, ast.Subscript) and au.const_str(x.slice)}
            via_col = any(isinstance(s3, ast.Assign) and isinstance(s3.targets[0], ast.Subscript) and au.const_str(s3.targets[0].slice) in cols
                          and isinstance(s3.value, ast.Name) and s3.value.id == k for s3 in au.walk_stmts(lp.body))
            if inside and (k in names or via_col):
                from_k.append(s2)
        keyed = [c for s2 in au.walk_stmts(fn.body) for c in au.walk_own(s2) if isinstance(c, ast.Call) and au.method_name(c) == "concat" and au.kwarg(c, "keys") is not None]
        bad_keys = [c for c in keyed if any(isinstance(x, ast.Call) and au.method_name(x) in ("range", "len", "arange", "count") for x in au.walk_local(au.kwarg(c, "keys")))]
        ok = True if from_k and not bad_keys else (False if bad_keys else None)
        ctx.ob("C20.p", fn, "labels of an order's rows", ok,
               "the labels of the rows come from %s - a count of the frames that were kept, not the order number %s that indexes l, u and c: one order "
               "without a step in the horizon (listed before others) and every later order's rows point at the variable of the order before - "
               "in-horizon orders inherit u = 0 and c = 0 of the outside order, a sell order earns without delivering (1728 instead of 768)"
               % (au.short(au.kwarg(bad_keys[0], "keys"), 40) if bad_keys else "?", k) if bad_keys else
               "no assignment <frame>.index = ... from the loop variable %s (or from a column set to it) found inside the loop" % k,
               node=(bad_keys[0] if bad_keys else lp), ok_detail="index set from the loop variable over the orders")


    # ================================================================= C20.q the step selector of an order
    ffq = ctx.flow(fn)
    sel_names = set()
    for st in au.walk_stmts(fn.body):
        for x in au.walk_own(st):
            if isinstance(x, ast.Subscript) and isinstance(x.slice, ast.Name) and isinstance(x.ctx, ast.Load) and (
                    (isinstance(x.value, ast.Name) and any(isinstance(d.value, ast.Attribute) and d.value.attr in ("dt", "I") for d in ffq.defs(x.value.id, st) if d.value is not None))
                    or (isinstance(x.value, ast.Attribute) and x.value.attr in ("dt", "I"))):
                sel_names.add((x.slice.id, st))
    judged = set()
    for nm, st in sorted(sel_names, key=lambda t: t[1].lineno):
        for d in ffq.defs(nm, st):
            if d.kind != "assign" or d.value is None or id(d.node) in judged:
                continue
            judged.add(id(d.node))
            v = d.value
            half_open = isinstance(v, ast.BinOp) and isinstance(v.op, ast.BitAnd) and all(isinstance(y, ast.Compare) for y in au.flatten_bitand(v))
            overlap = [y for y in au.walk_local(v) if isinstance(y, ast.Call) and au.method_name(y) in ("overlaps", "contains", "get_indexer", "get_indexer_non_unique", "get_loc", "slice_indexer", "searchsorted")]
            ctx.ob("C20.q", fn, au.short(d.node, 80), True if half_open else (False if overlap else None),
                   ("the steps of an order are selected with %s: an interval test on the delivery periods of the steps takes every step that *intersects* "
                    "the order's window - an order starting at 02:30 on an hourly grid (or at noon on a daily grid) is delivered and paid for in the whole "
                    "step that contains its start (optimum 372 instead of 36), whereas every other window of the package starts with the first step "
                    "that begins inside it" % au.short(overlap[0], 50)) if overlap else "the definition of the step selector was not recognised",
                   node=d.node, ok_detail="half-open membership of the step starts")
    if not judged:
        ctx.ob("C20.q", fn, "step selector of an order", None, "no selector applied to the step lengths / step indices found")


    # ================================================================= C20.r proration of per-order quantities
    n_r = 0
    org_r = ctx.origins(fn, values_only=True)
    for st in au.walk_stmts(fn.body):
        for x in au.walk_own(st):
            if not (isinstance(x, ast.BinOp) and isinstance(x.op, ast.Div)):
                continue
            from_orders = any(isinstance(y, ast.Subscript) and au.path(y.value) == "self.orders" for y in au.walk_local(x.left)) or any(
                isinstance(y, ast.Attribute) and au.path(y) == "self.orders" for y in org_r.nodes(x.left, st))
            if not from_orders:
                continue
            den_nodes = list(au.walk_local(x.right)) + org_r.nodes(x.right, st)
            grid_len = any(isinstance(y, ast.Call) and au.method_name(y) == "sum" for y in au.walk_local(x.right)) and any(
                (isinstance(y, ast.Attribute) and y.attr == "dt") or (isinstance(y, ast.Name) and any(isinstance(d.value, ast.Attribute) and d.value.attr == "dt"
                                                                                                     for d in ff.defs(y.id, st) if d.value is not None)) for y in den_nodes)
            n_r += 1
            ctx.ob("C20.r", fn, au.short(x, 70), not grid_len,
                   "a quantity of the order is divided by %s - the length of the steps the order covers *inside the grid*: an order that straddles the "
                   "end of the horizon delivers its whole volume in the covered part (96 MWh on the one day inside, where the share of the covered "
                   "duration is 48) - what lies outside the horizon changes the dispatch inside" % au.short(x.right, 40), node=x)
    if n_r == 0:
        ctx.ob("C20.r", fn, "per-order quantities", True, ok_detail="no per-period quantity of an order is divided by a grid length")
