"""Analysis 15/16/17 (parts) - discipline of the mapping frame.

C07.f  label space after a shrink: when per-variable carriers are shrunk with np.delete(carrier, D), the labels finally set
       on the mapping must depend on D (any correct renumbering does); otherwise the labels still live in the old,
       larger variable space.
C07.g  sanity assertions: NaN assertions on c l u b execute on every path through OptimProblem.__init__; l <= u is
       asserted on every path into a solver call.
C07.i  schema-complete mapping on every return of an asset's set-up (columns time_step node asset type have been
       assigned on every path to a `return OptimProblem(... mapping=M ...)`), and the minor-grid helper does not rebuild the
       frame from nothing without an early exit for the empty input.
"""
from __future__ import annotations
import ast
from .. import astutil as au
from ..flow import Domain, Walker
from ..tables import rule, VAR_CARRIERS, SCHEMA_COLUMNS
from . import analysis

def _series_alignment(ctx):
    from .spaces import Typer
    p = ctx.p
    n_e = n_f = 0
    for fn in sorted(p.all_functions(), key=lambda f: f.qualname):
        if fn.parent is not None:
            continue
        ty = None
        for st in au.walk_stmts(fn.body):
            # ---- C07.ae
            if isinstance(st, ast.Assign) and len(st.targets) == 1 and isinstance(st.targets[0], ast.Subscript) and au.const_str(st.targets[0].slice) is not None:
                v = ctx.resolve(fn, st.value, st)
                ser = v if (isinstance(v, ast.Call) and au.method_name(v) == "Series" and au.kwarg(v, "index") is None) else None
                if ser is not None and not (ser.args and isinstance(ser.args[0], ast.Dict)):
                    ty = ty or Typer(ctx, fn)
                    if ty.is_mapping(st.targets[0].value, st):
                        n_e += 1
                        ctx.ob("C07.ae", fn, au.short(st, 80), False,
                               "%s is a new Series with the default index 0..n-1; assigned to a column of %s it is aligned by index label, not by position. The "
                               "labels of a mapping are variable numbers - a transport has two rows per variable, a coarse asset one per fine step - so a row "
                               "gets the value that belongs to the row at position <its variable number> (split optimisation with a transport: the dispatch of "
                               "the next asset is reported at the wrong time steps, node B is off by 5)" % (au.short(ser, 50), au.short(st.targets[0].value, 30)), node=st)
            # ---- C07.af
            for c in au.walk_own(st):
                if isinstance(c, ast.Call) and au.method_name(c) == "concat":
                    ig = au.kwarg(c, "ignore_index")
                    if not (isinstance(ig, ast.Constant) and ig.value is True) or not c.args:
                        continue
                    ty = ty or Typer(ctx, fn)
                    a0 = c.args[0]
                    parts = []
                    todo = [a0]
                    while todo:
                        e = todo.pop()
                        if isinstance(e, ast.IfExp):
                            todo += [e.body, e.orelse]
                        elif isinstance(e, (ast.List, ast.Tuple)):
                            todo += list(e.elts)
                        elif isinstance(e, ast.Name):
                            parts.append(e)
                            # a list local: what is appended to it / comprehended into it
                            for s2 in au.walk_stmts(fn.body):
                                for x in au.walk_own(s2):
                                    if isinstance(x, ast.Call) and au.method_name(x) == "append" and isinstance(x.func, ast.Attribute) and au.U(x.func.value) == e.id and x.args:
                                        parts.append(x.args[0])
                            for d in ctx.flow(fn).defs(e.id, st):
                                if d.kind == "assign" and isinstance(d.value, ast.ListComp):
                                    for g in d.value.generators:
                                        todo.append(g.iter)
                        else:
                            parts.append(e)
                    is_map = any(ty.is_mapping(x, st) for x in parts)
                    if is_map:
                        n_f += 1
                        ctx.ob("C07.af", fn, au.short(c, 80), False,
                               "the mapping frames are concatenated with ignore_index=True: the labels - variable numbers, shifted per interval / per asset - are "
                               "replaced by row positions. As soon as some variable has two rows (transport, coarse frequency, order book) every later row "
                               "points to the wrong variable: the steps of a fixed window are looked up in this mapping, the wrong variables are pinned", node=c)
    if n_e == 0:
        ctx.ob("C07.ae", "package", "Series assigned to mapping columns", True, ok_detail="no fresh Series is assigned to a column of a mapping")
    if n_f == 0:
        ctx.ob("C07.af", "package", "concatenation of mapping frames", True, ok_detail="no concat(..., ignore_index=True) over mapping frames")


rule("C07.w", "rows of merged / deleted variables are re-labelled through the *labels* of those variables (every row that carries the label, "
              "whichever group it belongs to), not through a mask over the rows of the current group", floor=1)
rule("C07.f", "after per-variable carriers are shrunk with np.delete the mapping labels are renumbered (the labels set on the "
              "mapping depend on the deleted set)", floor=1)
rule("C07.g", "NaN assertions on c l u b execute on every path through OptimProblem.__init__; l <= u is asserted before any "
              "solver interface is entered", floor=5)
rule("C07.i", "on every path on which an asset's set-up returns a problem, its mapping carries the columns time_step node "
              "asset type (an empty window yields a well-formed empty problem)", floor=6, props=["C07", "C08", "C16"])

TOP = None  # unknown frame: every column may be present


def _frame_cols_of_ctor(call):
    """Columns of pd.DataFrame(...) literal constructions; TOP if not decidable."""
    if not call.args and not call.keywords:
        return frozenset()
    cols = au.kwarg(call, "columns")
    if cols is not None and isinstance(cols, (ast.List, ast.Tuple)) and all(au.const_str(e) is not None for e in cols.elts) and not call.args:
        return frozenset(au.const_str(e) for e in cols.elts)
    if call.args and isinstance(call.args[0], ast.Dict) and all(au.const_str(k) is not None for k in call.args[0].keys):
        return frozenset(au.const_str(k) for k in call.args[0].keys)
    return TOP


class _Frames(Domain):
    """state: dict local name -> frozenset(columns) | TOP(None). Absent name = not a tracked frame."""

    def initial(self, fn):
        return {}

    def join(self, a, b):
        if a is b:
            return a
        out = {}
        for k in set(a) | set(b):
            if k in a and k in b:
                x, y = a[k], b[k]
                out[k] = y if x is TOP else (x if y is TOP else (x & y))
            else:
                out[k] = a.get(k, b.get(k))
        return out

    def _eval(self, e, s):
        """columns of an expression denoting a frame, or 'nf' (not a frame / unknown)."""
        if isinstance(e, ast.Name):
            return s.get(e.id, "nf")
        if isinstance(e, ast.Call):
            m = au.method_name(e)
            cn = au.call_name(e) or ""
            if cn.endswith("DataFrame") and (cn.startswith("pd.") or cn == "DataFrame"):
                return _frame_cols_of_ctor(e)
            if m == "copy" and isinstance(e.func, ast.Attribute):
                return self._eval(e.func.value, s)
            if m == "concat" and e.args and isinstance(e.args[0], (ast.List, ast.Tuple)):
                cols = "nf"
                for x in e.args[0].elts:
                    c = self._eval(x, s)
                    if c == "nf":
                        c = TOP
                    if cols == "nf":
                        cols = c
                    elif cols is TOP:
                        cols = c
                    elif c is not TOP:
                        # concatenation yields the union of columns; a guaranteed column needs it in some non-empty part:
                        # conservatively the intersection, except that an empty-by-construction frame contributes nothing
                        cols = cols & c if (cols and c) else (cols or c)
                return cols
            return "nf"
        return "nf"

    def stmt(self, s, node):
        if isinstance(node, ast.Assign):
            s = dict(s)
            for t in node.targets:
                if isinstance(t, ast.Name):
                    v = self._eval(node.value, s)
                    if v == "nf":
                        # result of a helper that receives the frame: assumed schema preserving (its own obligation)
                        if isinstance(node.value, ast.Call) and any(isinstance(a, ast.Name) and a.id == t.id and t.id in s for a in node.value.args):
                            continue
                        s.pop(t.id, None)
                    else:
                        s[t.id] = v
                elif isinstance(t, ast.Subscript) and isinstance(t.value, ast.Name) and t.value.id in s:
                    c = au.const_str(t.slice)
                    if c is not None and s[t.value.id] is not TOP:
                        s[t.value.id] = s[t.value.id] | {c}
        return s

    def bind_loop(self, s, node):
        return s


class _FramesWalker(Walker):
    def s_For(self, node, s):
        # `for col in ['a', 'b']: frame[col] = ...` executes for every literal: add all of them
        if isinstance(node.iter, (ast.List, ast.Tuple)) and node.iter.elts and all(au.const_str(e) is not None for e in node.iter.elts) \
                and isinstance(node.target, ast.Name):
            lits = [au.const_str(e) for e in node.iter.elts]
            s2 = dict(s)
            for st in node.body:
                if isinstance(st, ast.Assign):
                    for t in st.targets:
                        if isinstance(t, ast.Subscript) and isinstance(t.value, ast.Name) and t.value.id in s2 \
                                and isinstance(t.slice, ast.Name) and t.slice.id == node.target.id and s2[t.value.id] is not TOP:
                            s2[t.value.id] = s2[t.value.id] | set(lits)
            return super().s_For(node, s2)
        return super().s_For(node, s)


rule("C07.ae", "what is written into a column of a mapping is positional (an array, a list, a scalar) or a Series that carries the frame's own "
               "index: the index of a mapping enumerates variables and may repeat, so a freshly made Series (default 0..n-1 index) assigned to a "
               "column is aligned by *label* - row k receives the value of the row whose position equals its variable number", floor=0,
     props=["C07", "C01", "C14"])
rule("C07.af", "frames that describe variables are put together with their labels kept: pd.concat(..., ignore_index=True) on mapping frames "
               "replaces the variable numbers by row positions (the same as reset_index(drop=True), C07.e) - with several rows per variable the "
               "index no longer enumerates variables", floor=0, props=["C07", "C15", "C14"])


@analysis("frames", ["C07.f", "C07.g", "C07.i", "C07.w", "C07.ae", "C07.af"])
def run(ctx):
    _series_alignment(ctx)
    p = ctx.p
    # ================================================================= C07.f
    n_shrink = 0
    for fn in p.all_functions():
        dels = []
        for st in au.walk_stmts(fn.body):
            if isinstance(st, ast.Assign) and isinstance(st.value, ast.Call) and au.call_name(st.value) in ("np.delete", "numpy.delete") \
                    and len(st.value.args) >= 2 and au.terminal(st.value.args[0]) in VAR_CARRIERS \
                    and any(au.terminal(t) in VAR_CARRIERS for t in st.targets):
                dels.append(st)
        if not dels:
            continue
        n_shrink += 1
        dnames = set()
        for st in dels:
            dnames |= au.names_in(st.value.args[1])
        org = ctx.origins(fn)     # dependency (through counts and selectors too), not value origin
        # how is the mapping index (re)established in this function?
        index_exprs = []   # (stmt, [value exprs])
        for st in au.walk_stmts(fn.body):
            for n in au.walk_own(st):
                if isinstance(n, ast.Call) and au.method_name(n) == "set_index" and isinstance(n.func, ast.Attribute) \
                        and au.terminal(n.func.value) == "mapping" and n.args and au.const_str(n.args[0]) is not None:
                    col = au.const_str(n.args[0])
                    vals = []
                    for s2 in au.walk_stmts(fn.body):
                        if isinstance(s2, ast.Assign):
                            for t in s2.targets:
                                if isinstance(t, ast.Subscript):
                                    sl = t.slice
                                    c = au.const_str(sl) if not isinstance(sl, ast.Tuple) else (au.const_str(sl.elts[-1]) if sl.elts else None)
                                    if c == col:
                                        vals.append((s2, s2.value))
                    index_exprs.append((st, vals, "set_index(%r)" % col))
            if isinstance(st, ast.Assign):
                for t in st.targets:
                    if isinstance(t, ast.Attribute) and t.attr == "index" and au.terminal(t.value) == "mapping":
                        index_exprs.append((st, [(st, st.value)], "mapping.index = ..."))
        if not index_exprs:
            ctx.ob("C07.f", fn, "np.delete on %s" % "/".join(sorted({au.terminal(d.value.args[0]) for d in dels})), False,
                   "variables are deleted from the per-variable carriers but the mapping index is never re-established: the "
                   "labels still refer to the old numbering", node=dels[0])
            continue
        # C07.w: how are the rows selected whose label column is rewritten inside the merge loop?
        from .spaces import Typer, _describe
        ty = Typer(ctx, fn)
        for st, vals, how in index_exprs:
            for s2, v in vals:
                t2 = s2.targets[0]
                if not (isinstance(t2, ast.Subscript) and isinstance(t2.slice, ast.Tuple) and len(t2.slice.elts) == 2 and isinstance(t2.value, ast.Attribute)
                        and t2.value.attr == "loc" and any(isinstance(a, ast.For) for a in ctx.p.ancestors(s2))):
                    continue
                sel = t2.slice.elts[0]
                tp = ty.typ(sel, s2)
                ok = None if tp is None else (tp[0] == "idx" and tp[1] == "label")
                ctx.ob("C07.w", fn, au.short(s2, 80), ok,
                       "the label column is rewritten for the rows selected by %s (%s): only the rows of the current group are redirected to "
                       "the leading variable. A variable with several rows (one per node for a transport, one per minor step for a coarser "
                       "frequency) has rows in other groups too - those groups are skipped once the variable has been joined - and these rows "
                       "keep the label of a variable that is then deleted (index -1 / the previous asset's last variable)" % (
                           au.short(sel, 30), _describe(tp)) if tp is not None else "the selector %s could not be typed" % au.short(sel, 30), node=s2)
        for st, vals, how in index_exprs:
            dep = False
            for s2, v in vals:
                nodes = org.nodes(v, s2)
                if any(isinstance(x, ast.Name) and x.id in dnames for x in nodes):
                    dep = True
            ctx.ob("C07.f", fn, "labels after shrink via %s" % how, dep,
                   "l / u / c are shrunk with np.delete(.., %s) but the labels written to the mapping do not depend on the deleted "
                   "set: they still live in the old (larger) variable space, so indices exceed len(c) and point at wrong "
                   "variables" % "/".join(sorted(dnames)), node=st)
    ctx.require(n_shrink >= 1, "no function shrinks per-variable carriers with np.delete any more (periodic merge vanished?)")

    # ================================================================= C07.g
    init = p.cls("OptimProblem").methods.get("__init__")
    ctx.require(init is not None, "OptimProblem.__init__ vanished")
    for carrier in ("c", "l", "u", "b"):
        found = None
        for st in init.body:  # top level: every path
            cands = [st]
            if isinstance(st, ast.If) and not st.orelse:
                nt = au.none_test(st.test)
                # `if not b is None: assert ...` is an every-path check for an optional carrier
                if nt is not None and isinstance(nt[0], ast.Name) and nt[0].id == carrier and nt[1] is False:
                    cands = list(st.body)
            for c in cands:
                if isinstance(c, ast.Assert) and any(isinstance(x, ast.Call) and au.method_name(x) in ("isnan", "isnull", "isna", "isfinite") for x in au.walk_local(c.test)) \
                        and carrier in au.names_in(c.test):
                    found = c
        ctx.ob("C07.g", init, "NaN assertion on %s" % carrier, found is not None,
               "OptimProblem.__init__ no longer asserts on every path that %s is free of NaN" % carrier, node=(found or init.node))
    opt = p.cls("OptimProblem").methods.get("optimize")
    ctx.require(opt is not None, "OptimProblem.optimize vanished")
    found = None
    for st in opt.body:
        if isinstance(st, ast.If) and "interface" in au.names_in(st.test):
            break  # the assertion has to come before the interfaces are entered
        if isinstance(st, ast.Assert):
            paths = {au.path(x) for x in au.walk_local(st.test)}
            if "self.l" in paths and "self.u" in paths and any(isinstance(x, ast.Compare) for x in au.walk_local(st.test)):
                cmp_ = next(x for x in au.walk_local(st.test) if isinstance(x, ast.Compare))
                l, r, op_ = au.path(cmp_.left), au.path(cmp_.comparators[0]), type(cmp_.ops[0])
                if (l, r, op_) in (("self.l", "self.u", ast.LtE), ("self.u", "self.l", ast.GtE)):
                    found = st
    ctx.ob("C07.g", opt, "l <= u asserted before the solver", found is not None,
           "OptimProblem.optimize no longer asserts self.l <= self.u (all elements) before entering a solver interface",
           node=(found or opt.node))

    # ================================================================= C07.i
    n_ret = 0
    for ci in sorted(p.asset_classes(), key=lambda c: c.name):
        fn = ci.methods.get("setup_optim_problem")
        if fn is None:
            continue
        w = _FramesWalker(_Frames())
        w.run_function(fn)
        for ret, state in w.returns:
            if ret is None or ret.value is None:
                continue
            call = ret.value
            if not (isinstance(call, ast.Call) and au.method_name(call) == "OptimProblem"):
                continue
            n_ret += 1
            m = au.kwarg(call, "mapping")
            if m is None and len(call.args) >= 7:
                m = call.args[6]
            if m is None:
                ctx.ob("C07.i", fn, au.short(call, 70), False, "a problem is returned without a mapping", node=ret)
                continue
            cols = _Frames()._eval(m, state)
            if cols == "nf" or cols is TOP:
                ctx.ob("C07.i", fn, "return with mapping=%s" % au.short(m, 40), None, "cannot determine the columns of the returned frame", node=ret)
                continue
            missing = [c for c in SCHEMA_COLUMNS if c not in cols]
            ctx.ob("C07.i", fn, "return with mapping=%s" % au.short(m, 40), not missing,
                   "on this return path the mapping lacks column(s) %s: consumers that select by column (portfolio assembly, "
                   "ScaledAsset, reports) raise KeyError - e.g. for an asset whose window lies outside the horizon" % missing,
                   node=ret)
    ctx.require(n_ret >= 5, "fewer than 5 `return OptimProblem(...)` sites in asset set-ups")
    # the minor-grid helper: rebuilds the frame from nothing -> needs an early exit for the empty input
    for fn in p.all_functions():
        if fn.cls is None or fn.param("mapping") is None or fn.name == "__init__":
            continue
        rebuilt = [st for st in au.walk_stmts(fn.body) if isinstance(st, ast.Assign) and isinstance(st.value, ast.Call)
                   and (au.call_name(st.value) or "").endswith("DataFrame") and not st.value.args and not st.value.keywords]
        concat_in_loop = any(isinstance(l, ast.For) and any(isinstance(x, ast.Call) and au.method_name(x) == "concat"
                                                            for s2 in au.walk_stmts(l.body) for x in au.walk_own(s2))
                             for l in au.walk_stmts(fn.body))
        returns_frame = any(isinstance(st, ast.Return) and isinstance(st.value, ast.Name) for st in au.walk_stmts(fn.body))
        if not (rebuilt and concat_in_loop and returns_frame):
            continue
        guard = None
        for st in fn.body:
            if isinstance(st, ast.If) and any(isinstance(x, ast.Return) and x.value is not None for x in st.body):
                t = st.test
                if any(isinstance(x, ast.Call) and au.method_name(x) == "len" for x in au.walk_local(t)) or \
                        any(isinstance(x, ast.Attribute) and x.attr == "empty" for x in au.walk_local(t)):
                    guard = st
            if st in rebuilt and guard is None:
                break
        ctx.ob("C07.i", fn, "frame rebuilt from pd.DataFrame() by concatenation in a loop", guard is not None,
               "the helper rebuilds the mapping from an empty frame and returns it: when the input has no rows (asset outside the "
               "horizon) the result has no columns at all and the next column access raises", node=rebuilt[0])
