"""Window intersection (C16.i, C08.h), discarded results (C07.u), pinned values and selector of the fix window (C15.i, C15.j).

C16.i  A wrapper that clips the window of a wrapped asset intersects two windows: start = max(starts), end = min(ends).
C08.h  ... and the intersection is total over optional bounds: when the wrapped asset has no bound of its own (None) the
       wrapper's bound applies.  A clip that only handles "both given" leaves an unbounded inner asset active outside the
       wrapper's window.
C07.u  The result of a call that does not modify its receiver (pandas Index.insert / append / drop / union, np.append / hstack /
       delete ... ) is not discarded: an expression statement made of such a call has no effect at all.
C15.i  Inside the fix-window branch the bounds are set to the previous solution itself: l[sel] = u[sel] = <x of the window>[sel],
       same selector, no arithmetic in between.
C15.j  The selector of the fix window is "variables with a mapping row at a step of the window" - no other column of the mapping
       (type, asset, node) takes part: every kind of variable is pinned.
"""
from __future__ import annotations
import ast
from .. import astutil as au
from ..carriers import local_roles, role
from ..tables import rule
from . import analysis

rule("C16.i", "a wrapper clips the window of a wrapped asset by intersection: start = max(start, start), end = min(end, end)", floor=2,
     props=["C16", "C08", "C02"])
rule("C08.h", "the intersection of the wrapper's window with the window of a wrapped asset covers the case that the wrapped asset has no "
              "bound of its own (None): the wrapper's bound applies", floor=2, props=["C08", "C16"])
rule("C16.o", "the window of an asset's restricted grid is a function of the asset's own attributes: Asset.set_timegrid hands self.start / self.end / "
              "self.freq to set_restricted_grid. Every set-up begins by re-establishing the grid through self.set_timegrid(timegrid): a window that "
              "comes in as an argument (a wrapper's clipped life time) instead of being kept on the asset is gone by the time the asset is set up",
     floor=1, props=["C16", "C08", "C10"])
rule("C08.i", "an optional bound (start / end and other attributes kept from a constructor parameter that defaults to None) that is an operand "
              "of max() / min() or of an ordering comparison is covered by a None test of that very operand (a guard that tests another "
              "attribute - self.start for self.end - clips under the wrong condition or not at all)", floor=4, props=["C08", "C16"])
rule("C07.z", "mapping rows an asset creates carry steps of the asset's own window: a 'time_step' column is filled from restricted.I (or a "
              "selection of it), never from the index of the whole grid", floor=8, props=["C07", "C08"])
rule("C07.u", "the result of a call that does not modify its receiver (Index.insert / append / drop / union, np.append / hstack / delete, "
              "pd.concat ...) is not discarded", floor=0, props=["C07", "C14"])
rule("C15.i", "a variable of the fix window is pinned to its previous value itself: l[sel] = u[sel] = x_previous[sel] with one selector and "
              "no arithmetic", floor=2)
rule("C15.l", "the window given as fix_time_window['I'] may be a mask or a list of time steps: it is only ever used as a subscript of the grid "
              "index (timegrid.I[window] works for both); no mask-only conversion (flatnonzero / nonzero / where / astype(bool)) is applied "
              "to it", floor=1)
rule("C15.j", "the fix window selects variables by the steps of their mapping rows only - no other column (type, asset, node) narrows the "
              "selection", floor=1, props=["C15", "C17"])

NONMUTATING_FUNCS = {"append", "hstack", "vstack", "concatenate", "delete", "insert", "sort", "unique", "concat", "tile", "repeat", "clip", "round"}
INDEX_PRODUCERS = {"date_range", "DatetimeIndex", "to_datetime", "Index", "RangeIndex", "unique", "union", "intersection", "insert", "append", "drop"}
INDEX_METHODS = {"insert", "append", "drop", "union", "intersection", "difference", "delete", "sort_values", "tz_localize", "tz_convert", "shift"}


def _is_index(ctx, fn, e, st, depth=0):
    if depth > 4:
        return False
    if isinstance(e, ast.Attribute) and e.attr in ("index", "columns"):
        return True
    if isinstance(e, ast.Call):
        m = au.method_name(e)
        if m in ("date_range", "DatetimeIndex", "to_datetime", "Index", "RangeIndex"):
            return True
        if m in INDEX_METHODS and isinstance(e.func, ast.Attribute):
            return _is_index(ctx, fn, e.func.value, st, depth + 1)
        return False
    if isinstance(e, ast.Name):
        ds = [d for d in ctx.flow(fn).defs(e.id, st)]
        vals = [d for d in ds if d.kind == "assign" and d.value is not None]
        return bool(vals) and len(vals) == len(ds) and all(_is_index(ctx, fn, d.value, d.node, depth + 1) for d in vals)
    return False


def _not_none_facts(test, truth):
    """expressions (as text) that are known not to be None when `test` evaluates to `truth`."""
    if isinstance(test, ast.UnaryOp) and isinstance(test.op, ast.Not):
        return _not_none_facts(test.operand, not truth)
    if isinstance(test, ast.BoolOp):
        if (isinstance(test.op, ast.And) and truth) or (isinstance(test.op, ast.Or) and not truth):
            out = set()
            for v in test.values:
                out |= _not_none_facts(v, truth)
            return out
        return set()
    nt = au.none_test(test)
    if nt is not None:
        e, is_none = nt
        if truth != is_none:
            return {au.U(e)}
    return set()


def _known_not_none(p, node, text):
    child = node
    for a in p.ancestors(node):
        if isinstance(a, ast.If):
            if any(child is x for x in a.body) and text in _not_none_facts(a.test, True):
                return True
            if any(child is x for x in a.orelse) and text in _not_none_facts(a.test, False):
                return True
        if isinstance(a, ast.IfExp):
            if child is a.body and text in _not_none_facts(a.test, True):
                return True
            if child is a.orelse and text in _not_none_facts(a.test, False):
                return True
        if isinstance(a, (ast.FunctionDef, ast.AsyncFunctionDef)):
            # an earlier `if x is None: x = ... / return / raise` at the top level of the function
            for s0 in a.body:
                if s0.lineno >= getattr(node, "lineno", 0):
                    break
                if isinstance(s0, ast.If) and text in _not_none_facts(s0.test, False) and not s0.orelse and s0.body and (
                        isinstance(s0.body[-1], (ast.Return, ast.Raise, ast.Continue)) or any(
                            isinstance(y, ast.Assign) and any(au.U(t0) == text for t0 in y.targets) for y in s0.body)):
                    return True
            break
        child = a
    return False


rule("C08.l", "block-wise reduction (`ufunc.reduceat(values, starts)`): the last block runs to the END OF THE ARRAY, not to the end of the last "
              "interval - the reduced array is first cut to the window the blocks cover (data after an asset's window must not enter)", floor=1,
     props=["C08", "C02", "C13"])


@analysis("windows", ["C16.i", "C08.h", "C07.u", "C15.i", "C15.j", "C08.i", "C07.z", "C15.l", "C08.l", "C16.o"])
def run(ctx):
    p = ctx.p
    # ================================================================= C16.o the window of the restricted grid comes from the asset's attributes
    stg = p.fn_opt("Asset.set_timegrid")
    if stg is None:
        ctx.ob("C16.o", "Asset", "set_timegrid", None, "Asset.set_timegrid not found")
    else:
        calls = [(st, c) for st in au.walk_stmts(stg.body) for c in au.walk_own(st) if isinstance(c, ast.Call) and au.method_name(c) == "set_restricted_grid"]
        if not calls:
            ctx.ob("C16.o", stg, "set_restricted_grid", None, "no call of set_restricted_grid in Asset.set_timegrid")
        for st, c in calls:
            bad = []
            for pos, kw in ((0, "start"), (1, "end"), (2, "freq")):
                a = au.arg_or_kw(c, pos, kw)
                if a is None:
                    continue
                r = ctx.resolve(stg, a, st)
                if au.path(r) != "self." + kw and au.path(a) != "self." + kw:
                    # a local: does a parameter of set_timegrid (other than the grid) flow into it?
                    names = au.names_in(r) | au.names_in(a)
                    for nm in list(names):
                        for d in ctx.flow(stg).defs(nm, st):
                            if d.value is not None:
                                names |= au.names_in(d.value)
                    pars = {q.name for q in stg.params if q.name not in ("self", "timegrid")}
                    bad.append((kw, a, sorted(names & pars)))
            ctx.ob("C16.o", stg, au.short(c, 80), not bad if not bad or any(b[2] for b in bad) else None,
                   "the %s of the restricted grid is %s, not self.%s%s: set-ups re-establish the grid with self.set_timegrid(timegrid) as their first "
                   "step, so a window given here by a caller (a structured asset clipping the life time of an inner asset) lasts only until the inner "
                   "asset is set up - the inner assets stay active outside the wrapper's life time (value 8770 instead of 4867)" % (
                       bad[0][0], au.short(bad[0][1], 30), bad[0][0], (" (it depends on the parameter %s)" % ", ".join(bad[0][2])) if bad[0][2] else "") if bad else "",
                   node=c, ok_detail="self.start, self.end, self.freq")
    # ================================================================= C16.i / C08.h
    n_i = 0
    for fn in sorted(p.all_functions(), key=lambda f: f.qualname):
        if fn.parent is not None:
            continue
        for st in au.walk_stmts(fn.body):
            if not (isinstance(st, ast.Assign) and len(st.targets) == 1 and isinstance(st.targets[0], ast.Attribute) and st.targets[0].attr in ("start", "end")):
                continue
            t = st.targets[0]
            # the intersection itself: max / min over two bounds of the same kind - possibly the else-arm of `b if a is None else max(a, b)`
            v = next((c for c in au.walk_local(st.value) if isinstance(c, ast.Call) and isinstance(c.func, ast.Name) and c.func.id in ("max", "min")
                      and len(c.args) == 2 and all(isinstance(a, ast.Attribute) and a.attr == t.attr for a in c.args)), None)
            if v is None:
                continue
            none_arm = isinstance(st.value, ast.IfExp) and au.none_test(st.value.test) is not None and au.U(au.none_test(st.value.test)[0]) == au.U(t)
            n_i += 1
            want = "max" if t.attr == "start" else "min"
            ctx.ob("C16.i", fn, au.short(st, 70), v.func.id == want,
                   "the window of the wrapped asset is intersected with the wrapper's: its %s must be the %s of the two %ss; %s(...) "
                   "extends the wrapped asset's life to the wrapper's %s instead (a contract that expires mid-horizon keeps delivering "
                   "inside a structured asset)" % (t.attr, "later" if want == "max" else "earlier", t.attr, v.func.id, t.attr), node=st)
            # ---- C08.h: the None case of the wrapped asset's own bound
            own = next((a for a in v.args if au.U(a) == au.U(t)), None)
            other = next((a for a in v.args if a is not own), None)
            if own is None or other is None:
                continue
            covered = bool(none_arm)
            # somewhere in the function the target is given the other bound under `<own> is None`
            for s2 in au.walk_stmts(fn.body):
                if isinstance(s2, ast.Assign) and any(au.U(x) == au.U(t) for x in s2.targets) and s2 is not st:
                    if au.U(s2.value) == au.U(other) or (isinstance(s2.value, ast.IfExp) and au.U(other) in au.U(s2.value)):
                        covered = True
            if isinstance(p.parent(st), ast.If) or True:
                # the clip itself may be an IfExp:  a.start = self.start if a.start is None else max(..)
                pass
            guard = next((a for a in p.ancestors(st) if isinstance(a, ast.If)), None)
            ctx.ob("C08.h", fn, "%s when the wrapped asset has no %s" % (au.U(t), t.attr), covered,
                   "the clip `%s` runs only when both bounds are given (`%s`); when the wrapped asset has no %s of its own nothing "
                   "happens and it stays active before / after the wrapper's window: a structured asset with window [Jan 4, Jan 7) around "
                   "assets without dates delivers on all ten days of the horizon (value 1200 instead of 360)" % (
                       au.short(st, 50), au.short(guard.test, 60) if guard is not None else "", t.attr), node=st,
                   key="%s of the wrapped asset when it has none" % t.attr)
    if n_i == 0:
        ctx.ob("C16.i", "package", "window intersection of a wrapper", None, "no assignment x.start = max(..) / x.end = min(..) found (rewritten?)")
        ctx.ob("C08.h", "package", "window intersection of a wrapper", None, "no assignment x.start = max(..) / x.end = min(..) found (rewritten?)")

    # ================================================================= C08.i optional bounds are tested before they are compared
    optional_attrs = set()
    for ci in p.classes.values():
        init = ci.methods.get("__init__")
        if init is None:
            continue
        opt_params = {q.name for q in init.params if q.has_default and au.is_none(q.default)}
        for st in au.walk_stmts(init.body):
            if isinstance(st, ast.Assign) and isinstance(st.value, ast.Name) and st.value.id in opt_params:
                for t0 in st.targets:
                    if isinstance(t0, ast.Attribute) and au.base_name(t0) == "self" and t0.attr in ("start", "end"):
                        optional_attrs.add(t0.attr)
    n_o = 0
    for fn in sorted(p.all_functions(), key=lambda f: f.qualname):
        if fn.parent is not None or fn.cls is None or fn.name == "__init__" or fn.cls.name == "Timegrid":
            continue
        for n in au.walk_local(fn.node, include_self=False):
            operands = []
            if isinstance(n, ast.Call) and isinstance(n.func, ast.Name) and n.func.id in ("max", "min"):
                operands = list(n.args)
            elif isinstance(n, ast.Compare) and any(isinstance(o, (ast.Lt, ast.LtE, ast.Gt, ast.GtE)) for o in n.ops):
                operands = [n.left] + list(n.comparators)
            for e in operands:
                if not (isinstance(e, ast.Attribute) and e.attr in optional_attrs and isinstance(e.value, ast.Name)):
                    continue
                n_o += 1
                ok = _known_not_none(p, n, au.U(e))
                ctx.ob("C08.i", fn, "%s in %s" % (au.U(e), au.short(n, 50)), ok,
                       "%s may be None (it is kept from a constructor parameter that defaults to None) and is compared here, but no "
                       "enclosing test establishes that it is set - the guard around this statement tests something else: the clip then "
                       "happens under the wrong condition (a structured asset with an end but no start no longer clips the end of its inner "
                       "assets) or raises TypeError when the tested attribute is set and this one is not" % au.U(e), node=n)
    if n_o == 0:
        ctx.ob("C08.i", "package", "compared optional window bounds", None, "no max() / min() / ordering comparison over an optional start / end found")

    # ================================================================= C07.z steps of new mapping rows
    n_z = 0
    for fn in sorted(p.all_functions(), key=lambda f: f.qualname):
        if fn.parent is not None or fn.cls is None or not p.is_subclass(fn.cls, "Asset"):
            continue
        org = None
        for st in au.walk_stmts(fn.body):
            if not (isinstance(st, ast.Assign) and any(isinstance(t0, ast.Subscript) and au.const_str(t0.slice) == "time_step" for t0 in st.targets)):
                continue
            org = org or ctx.origins(fn, values_only=True)
            srcs = [x for x in org.nodes(st.value, st) if isinstance(x, ast.Attribute) and x.attr == "I" and "timegrid" in au.U(x)]
            if not srcs:
                continue
            n_z += 1
            whole = [x for x in srcs if "restricted" not in au.U(x)]
            ctx.ob("C07.z", fn, au.short(st, 70), not whole,
                   "the steps of these rows come from %s, the index of the whole grid, while the variables they describe exist for the steps of "
                   "the asset's window only (restricted.I): for an asset whose window is shorter than the horizon there are more rows than "
                   "variables - after the index is rebuilt the rows point to variables beyond the end of c / to other assets' variables and name "
                   "steps outside the window" % au.short(whole[0], 40) if whole else "", node=st)
    ctx.require(n_z >= 5, "fewer than 5 'time_step' columns filled from a grid index found", rules=["C07.z"])

    # ================================================================= C07.u discarded results
    for fn in sorted(p.all_functions(), key=lambda f: f.qualname):
        for st in au.walk_stmts(fn.body):
            if not (isinstance(st, ast.Expr) and isinstance(st.value, ast.Call)):
                continue
            c = st.value
            m = au.method_name(c)
            f = c.func
            bad = None
            if isinstance(f, ast.Attribute) and au.dotted(f.value) in ("np", "numpy", "pd", "pandas", "sp") and m in NONMUTATING_FUNCS:
                bad = "%s.%s returns a new object" % (au.dotted(f.value), m)
            elif isinstance(f, ast.Attribute) and m in INDEX_METHODS and au.kwarg(c, "inplace") is None and _is_index(ctx, fn, f.value, st):
                bad = "a pandas Index is immutable: .%s() returns a new Index" % m
            if bad:
                ctx.ob("C07.u", fn, au.short(st, 70), False,
                       "the statement `%s` has no effect (%s and the result is discarded): the step it was written for - e.g. opening "
                       "the sequence of interval boundaries with the grid start - silently does not happen" % (au.short(st, 60), bad), node=st)

    # ================================================================= C15.i / C15.j
    pf = p.fn_opt("Portfolio.setup_optim_problem")
    ctx.require(pf is not None, "Portfolio.setup_optim_problem vanished", rules=['C15.i', 'C15.j'])
    fix_if = [s2 for s2 in au.walk_stmts(pf.body) if isinstance(s2, ast.If) and "fix_time_window" in au.names_in(s2.test)]
    ctx.require(bool(fix_if), "fix_time_window branch vanished", rules=['C15.i', 'C15.j'])
    roles = local_roles(pf)
    org = ctx.origins(pf)
    pins = [s2 for s2 in au.walk_stmts(fix_if[0].body) if isinstance(s2, ast.Assign) and isinstance(s2.targets[0], ast.Subscript)
            and role(s2.targets[0].value, roles) in ("l", "u")]
    for s2 in pins:
        t = s2.targets[0]
        v = ctx.resolve(pf, s2.value, s2)
        ok = isinstance(v, ast.Subscript) and au.U(v.slice) == au.U(t.slice) and not isinstance(v.value, (ast.Call, ast.BinOp))
        from_x = ok and any(isinstance(x, ast.Subscript) and au.const_str(x.slice) == "x" and "fix" in au.U(x.value) for x in org.nodes(v.value, s2))
        ctx.ob("C15.i", pf, au.short(s2, 70), bool(ok and from_x),
               "the bound is set to `%s`, not to the previous value of the variable itself (`<previous x>[%s]`): a variable of the fixed "
               "window may then end up at another value than in the previous solution (e.g. clipped into capacities that the new price "
               "set revised), so the fixed part of the solution is not reproduced" % (au.short(s2.value, 50), au.short(t.slice, 20)), node=s2)
    if not pins:
        ctx.ob("C15.i", pf, "bounds pinned in the fix-window branch", None, "no l[...] / u[...] store found in the fix-window branch")
    # C15.l: how the window itself is used
    win_names = set()
    for s2 in au.walk_stmts(fix_if[0].body):
        if isinstance(s2, ast.Assign) and isinstance(s2.targets[0], ast.Name) and isinstance(s2.value, ast.Subscript) and au.const_str(s2.value.slice) == "I" \
                and "fix" in au.U(s2.value.value):
            win_names.add(s2.targets[0].id)
    mask_only = []
    uses = 0
    for s2 in au.walk_stmts(fix_if[0].body):
        for x in au.walk_own(s2):
            if isinstance(x, ast.Call) and au.method_name(x) in ("flatnonzero", "nonzero", "where", "argwhere", "astype", "logical_not", "invert") \
                    and any(isinstance(y, ast.Name) and y.id in win_names for a0 in list(x.args) + ([x.func.value] if isinstance(x.func, ast.Attribute) else []) for y in au.walk_local(a0)):
                mask_only.append(x)
            if isinstance(x, ast.Subscript) and isinstance(x.slice, ast.Name) and x.slice.id in win_names:
                uses += 1
    if win_names:
        ctx.ob("C15.l", pf, "the window is used as a subscript of the grid index only", not mask_only,
               "`%s` treats the window as a boolean mask; the documented other form, a list of time steps, is then read as truth values: the "
               "steps 0 .. k-1 are pinned instead of the listed ones (and step 0 itself never, 0 being false) - the real window stays free and "
               "variables outside it lose their bounds" % (au.short(mask_only[0], 50) if mask_only else ""), node=(mask_only[0] if mask_only else fix_if[0]))
    else:
        ctx.ob("C15.l", pf, "window of the fix branch", None, "fix_time_window['I'] is not bound to a local in the fix-window branch")
    # selector
    sel_defs = set()
    for s2 in pins:
        sl = s2.targets[0].slice
        if isinstance(sl, ast.Name):
            for d in ctx.flow(pf).defs(sl.id, s2):
                if d.kind == "assign" and d.value is not None:
                    sel_defs.add(d)
    def sel_cols(e, at, depth=0, seen=None):
        """(mapping columns, literal comparisons) the selector expression is built from - following locals that hold masks or
        column arrays (map_types = mapping['type'].values), not the frame itself"""
        seen = seen if seen is not None else set()
        cols, lits = set(), []
        for x in au.walk_local(e):
            if isinstance(x, ast.Subscript) and au.const_str(x.slice) is not None:
                cols.add(au.const_str(x.slice))
            if isinstance(x, ast.Compare) and any(au.const_str(c) is not None for c in x.comparators + [x.left]):
                lits.append(x)
            if isinstance(x, ast.Name) and isinstance(x.ctx, ast.Load) and depth < 4 and x.id not in seen:
                seen.add(x.id)
                for d0 in ctx.flow(pf).defs(x.id, at):
                    v0 = d0.value
                    if d0.kind != "assign" or v0 is None:
                        continue
                    # a frame (mapping = pd.concat(...), .copy()) is not part of the selector; masks / column arrays are
                    v1 = v0
                    while isinstance(v1, ast.Attribute) and v1.attr in ("values",):
                        v1 = v1.value
                    is_col = isinstance(v1, ast.Subscript) and au.const_str(v1.slice) is not None
                    is_mask = isinstance(v0, (ast.Compare, ast.BoolOp)) or (isinstance(v0, ast.BinOp) and isinstance(v0.op, (ast.BitAnd, ast.BitOr))) \
                        or (isinstance(v0, ast.Call) and au.method_name(v0) in ("isin", "unique", "flatnonzero", "where", "nonzero")) \
                        or (isinstance(v0, ast.Subscript) and au.const_str(v0.slice) is None)
                    if is_col or is_mask:
                        c2, l2 = sel_cols(v0, d0.node, depth + 1, seen)
                        cols |= c2
                        lits += l2
        return cols, lits

    for d in sorted(sel_defs, key=lambda d: d.node.lineno):
        cols, lits = sel_cols(d.value, d.node)
        extra = sorted(c for c in cols if c in ("type", "asset", "node", "var_name", "bool"))
        ctx.ob("C15.j", pf, au.short(d.node, 80), not extra and not lits,
               "the variables to pin are selected with %s in addition to the steps of the window: variables of other kinds inside the window "
               "(the scale of a scaled asset, inner variables of a structured asset, binaries) stay free and can be re-chosen - with the "
               "present fixed per scenario the 'expected value of fixing the present' then exceeds the stochastic optimum" % (
                   ", ".join(["column %r" % c for c in extra] + ["`%s`" % au.short(x, 30) for x in lits[:2]])), node=d.node)
    if not sel_defs:
        ctx.ob("C15.j", pf, "selector of the fix window", None, "the selector of the pinned bounds is not a local with a visible definition")

    # ================================================================= C08.l reduceat over an array that is longer than the blocks
    n_r = 0
    for fn in sorted(p.all_functions(), key=lambda f: f.qualname):
        for st in au.walk_stmts(fn.body):
            for x in au.walk_own(st):
                if not (isinstance(x, ast.Call) and au.method_name(x) == "reduceat" and x.args):
                    continue
                n_r += 1
                arr = ctx.resolve(fn, x.args[0], st)
                while isinstance(arr, ast.Call) and au.method_name(arr) in ("asarray", "array", "astype", "ascontiguousarray") and (arr.args or isinstance(arr.func, ast.Attribute)):
                    arr = ctx.resolve(fn, arr.args[0] if (arr.args and au.method_name(arr) != "astype") else arr.func.value, st)
                cut = isinstance(arr, ast.Subscript) and not (isinstance(arr.slice, ast.Slice) and arr.slice.upper is None and arr.slice.lower is None)
                if isinstance(arr, ast.Subscript) and isinstance(arr.slice, ast.Slice) and arr.slice.upper is None:
                    cut = False         # x[a:] still runs to the end
                ctx.ob("C08.l", fn, au.short(x, 80), cut,
                       "%s is reduced block-wise from the given start positions; the last block is summed to the end of the array. The array is the "
                       "series over the whole horizon, so the last interval of an asset that ends inside the horizon takes in every value after "
                       "its window (daily contract ending on 3 Jan on a grid to 5 Jan: its last price is the sum of 72 hourly prices over 24) - "
                       "prices outside the window and the length of the horizon change the result" % au.short(x.args[0], 40), node=x)
    ctx.ob("C08.l", "package", "block-wise reductions", True, ok_detail="%d reduceat call(s), all over arrays cut to the window" % n_r)
