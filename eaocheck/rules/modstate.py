"""State outside the objects (C10.m).

Property C10 says that a set-up is a function of the asset's parameters, the prices and the grid.  The pinned package has no state
outside its objects at all: no module-level assignment, no `global`, no class-level container.  A cache added for speed (a module-level
dict keyed by frequency / name / id, a class attribute shared by all instances, an attribute hung on a function) survives the call that
filled it, so what a later call returns depends on the calls before it - the classic stale-cache defect.  The rule reports

  * a `global` name that the function (re-)binds,
  * an element / attribute store, `del`, augmented assignment or mutator call on a name that is bound at module level and not shadowed in
    the function,
  * a store through the class object (`Cls.x = ...`, `Cls.x[k] = ...`, `type(self).x...`, `self.__class__.x...`, `cls.x...`),
  * a mutation of `self.x` where `x` is only ever bound in a class body (one object for all instances),
  * an attribute hung on a function or method of the package (`f.cache = {}` / `f.cache[k] = v`).

Reading module-level constants is fine.  Decorator-based memoisation is C10.j (gridcache), mutable defaults are C10.f (effects).
"""
from __future__ import annotations
import ast
from .. import astutil as au
from ..tables import rule
from . import analysis

rule("C10.m", "the package keeps no state outside its objects: no function re-binds a module-level name (global), mutates a module-level "
              "or class-level container, or hangs an attribute on a class / function object - such state survives the call that wrote it, "
              "so what a later set-up returns depends on the calls before it (a cache keyed too coarsely is stale for the next grid, "
              "price set or asset)", floor=5)

MUTATORS = {"append", "extend", "insert", "pop", "popitem", "clear", "update", "setdefault", "add", "remove", "discard", "sort", "reverse",
            "appendleft", "extendleft", "__setitem__", "__delitem__", "move_to_end", "fill", "resize", "put", "itemset", "setflags"}


def _bound_names(stmts, into):
    """names bound by assignments in a statement list (module / class body), following if / try / with / for at that level"""
    for st in stmts:
        if isinstance(st, ast.Assign):
            for t in st.targets:
                for x in ast.walk(t):
                    if isinstance(x, ast.Name):
                        into[x.id] = st
        elif isinstance(st, (ast.AnnAssign, ast.AugAssign)):
            if isinstance(st.target, ast.Name):
                into[st.target.id] = st
        elif isinstance(st, (ast.If, ast.For, ast.While, ast.With, ast.Try)):
            for fld in ("body", "orelse", "finalbody"):
                _bound_names(getattr(st, fld, []) or [], into)
            for h in getattr(st, "handlers", []) or []:
                _bound_names(h.body, into)


def _own_locals(fnode) -> set:
    out = set()
    a = fnode.args
    for q in list(a.posonlyargs) + list(a.args) + list(a.kwonlyargs):
        out.add(q.arg)
    if a.vararg:
        out.add(a.vararg.arg)
    if a.kwarg:
        out.add(a.kwarg.arg)
    glob = set()
    for x in au.walk_local(fnode, include_self=False):
        if isinstance(x, ast.Global):
            glob.update(x.names)
        elif isinstance(x, ast.Name) and isinstance(x.ctx, (ast.Store, ast.Del)):
            out.add(x.id)
        elif isinstance(x, (ast.FunctionDef, ast.AsyncFunctionDef, ast.ClassDef)) and x is not fnode:
            out.add(x.name)
        elif isinstance(x, ast.alias):
            out.add((x.asname or x.name).split(".")[0])
        elif isinstance(x, ast.ExceptHandler) and x.name:
            out.add(x.name)
    return out - glob


def _class_object(e, fn, p) -> str:
    """name of the package class whose *class object* the expression denotes, or ''"""
    if isinstance(e, ast.Name):
        if e.id == "cls" and fn.cls is not None and fn.param("cls") is not None:
            return fn.cls.name
        if e.id in p.classes and fn.param(e.id) is None:
            return e.id
    if isinstance(e, ast.Attribute) and e.attr == "__class__":
        return (fn.cls.name if fn.cls is not None and isinstance(e.value, ast.Name) and e.value.id == "self" else "a class")
    if isinstance(e, ast.Call) and isinstance(e.func, ast.Name) and e.func.id == "type" and len(e.args) == 1:
        return (fn.cls.name if fn.cls is not None and isinstance(e.args[0], ast.Name) and e.args[0].id == "self" else "a class")
    return ""


@analysis("modstate", ["C10.m"])
def run(ctx):
    p = ctx.p
    # ---- what exists outside the objects
    mod_names = {}
    for m in p.modules.values():
        d = {}
        _bound_names(m.tree.body, d)
        mod_names[m.name] = d
    cls_names = {}
    for ci in p.classes.values():
        d = {}
        _bound_names(ci.node.body, d)
        cls_names[ci.name] = d
    self_written = {}
    from .serialization import self_attr_writes
    for ci in p.classes.values():
        s = set()
        for c in p.mro(ci):
            for mth in c.methods.values():
                s |= {a for a, _, _ in self_attr_writes(mth)}
        self_written[ci.name] = s
    pkg_funcs = {}
    for f in p.all_functions():
        if f.parent is None and f.cls is None:
            pkg_funcs.setdefault(f.module.name, set()).add(f.name)

    n_fn = 0
    per_mod = {m: 0 for m in mod_names}
    for fn in sorted(p.all_functions(), key=lambda f: f.qualname):
        n_fn += 1
        locs = set()
        g = fn
        while g is not None:
            locs |= _own_locals(g.node)
            g = g.parent
        mnames = mod_names.get(fn.module.name, {})
        hits = []   # (node, what)

        def target_state(t):
            """what non-object state a store target / mutated receiver denotes: a description or ''"""
            base = t
            through = []
            while isinstance(base, (ast.Subscript, ast.Attribute)):
                through.append(base)
                # the class object somewhere on the way: Cls.x[...] / type(self).x
                if isinstance(base, ast.Attribute):
                    c = _class_object(base.value, fn, p)
                    if c:
                        return "class attribute %s.%s (one object for all instances)" % (c, base.attr)
                base = base.value
            if isinstance(base, ast.Name) and through:
                if base.id in mnames and base.id not in locs:
                    return "module-level name %s of %s" % (base.id, fn.module.name)
                if base.id in pkg_funcs.get(fn.module.name, ()) and base.id not in locs and isinstance(through[-1], ast.Attribute):
                    return "attribute %s hung on the function %s" % (through[-1].attr, base.id)
                if base.id == "self" and fn.cls is not None and isinstance(through[-1], ast.Attribute) and len(through) >= 2:
                    a = through[-1].attr
                    owners = [c.name for c in p.mro(fn.cls) if a in cls_names.get(c.name, {})]
                    if owners and a not in self_written.get(fn.cls.name, set()):
                        return "class-level %s.%s reached through self (never bound per instance)" % (owners[0], a)
            return ""

        for x in au.walk_local(fn.node, include_self=False):
            if isinstance(x, ast.Global):
                rebound = [nm for nm in x.names if any(isinstance(y, ast.Name) and y.id == nm and isinstance(y.ctx, (ast.Store, ast.Del))
                                                       for y in au.walk_local(fn.node, include_self=False))]
                for nm in rebound:
                    hits.append((x, "module-level name %s of %s (global, re-bound here)" % (nm, fn.module.name)))
            elif isinstance(x, (ast.Assign, ast.AugAssign, ast.AnnAssign, ast.Delete)):
                tgts = x.targets if isinstance(x, (ast.Assign, ast.Delete)) else [x.target]
                for t in tgts:
                    for tt in (t.elts if isinstance(t, (ast.Tuple, ast.List)) else [t]):
                        if isinstance(tt, (ast.Subscript, ast.Attribute)):
                            w = target_state(tt)
                            if w:
                                hits.append((x, w))
            elif isinstance(x, ast.Call) and isinstance(x.func, ast.Attribute) and x.func.attr in MUTATORS:
                recv = x.func.value
                w = ""
                if isinstance(recv, ast.Name):
                    if recv.id in mnames and recv.id not in locs:
                        w = "module-level name %s of %s" % (recv.id, fn.module.name)
                else:
                    # receiver is an element / attribute: M[k].append, Cls.x.update, self.x.append
                    fake = ast.Subscript(value=recv, slice=ast.Constant(value=0), ctx=ast.Store())
                    w = target_state(fake)
                if w:
                    hits.append((x, w))
        for node, w in hits:
            per_mod[fn.module.name] += 1
            ctx.ob("C10.m", fn, "writes %s" % w, False,
                   "%s: %s. State kept outside the objects outlives the call: the next set-up (another grid, another price set, another asset "
                   "with the same key) finds what this call left and returns a problem that does not follow from its own arguments"
                   % (au.short(node, 100), w), node=node)
    for m in sorted(mod_names):
        ctx.ob("C10.m", "module " + m, "no function writes state outside its objects", per_mod[m] == 0 or None,
               "see the violations above", ok_detail="%d module-level name(s) [%s], written by no function; class bodies bind %s"
               % (len(mod_names[m]), ", ".join(sorted(mod_names[m])) or "-",
                  ", ".join(sorted("%s.%s" % (c.name, a) for c in p.classes.values() if c.module.name == m for a in cls_names[c.name])) or "nothing"))
    ctx.require(n_fn >= 50, "fewer than 50 functions analysed")
