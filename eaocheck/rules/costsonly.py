"""Analysis 27 - the costs_only contract (C17.a, also reported as C16.e).

`setup_optim_problem(..., costs_only=True)` must return a cost vector with one entry per variable of the problem that the
same call returns with costs_only=False (Portfolio.create_cost_samples / make_slp / robust optimisation index it with the
full problem's selectors).  Decided, per implementation:

  honours    the flag is honoured: some path `if costs_only: return <vector>` exists (or the forwarded result is returned)
  guarded    where the flag is forwarded (op = super().setup_optim_problem(.., costs_only)), every use of `op` as a problem
             is on a path where costs_only is known to be False (trace partitioning on the atom `costs_only`)
  width      cost-vector widenings that happen only after the costs_only return are mirrored inside that return expression
  periodic   no periodic merge (which changes the number of variables) is reachable after the cost vector has left
"""
from __future__ import annotations
import ast
from .. import astutil as au
from ..flow import Domain, Walker, Partitioned
from ..tables import rule
from . import analysis
from ..carriers import local_roles, role

rule("C17.a", "costs_only contract: the flag is honoured, a forwarded result is used as a problem only where costs_only is False, "
              "widenings of the cost vector after the costs_only return are mirrored in it, and no periodic merge follows it",
     floor=30, props=["C17", "C16"])

rule("C17.p", "the cost vector returned under costs_only has the variables of the full problem also for wrappers: a wrapper hands costs_only on to an "
              "inner set-up only if no inner set-up returns the vector before a periodic merge (known: D19-periodic) - otherwise it builds the full "
              "inner problem and returns its c", floor=1, props=["C17", "C16"])

FLAG = "costs_only"
SETUP = "setup_optim_problem"


class _Unit(Domain):
    """state: 1 once an `if costs_only: return ...` has been passed on this path (a costs_only=True call is gone), else 0."""

    def initial(self, fn):
        return 0

    def join(self, a, b):
        return min(a, b)


class _W(Walker):
    def s_If(self, node, s):
        st = self.d.refine(s, node.test, True)
        sf = self.d.refine(s, node.test, False)
        a = self.block(node.body, st) if st is not None else None
        b = self.block(node.orelse, sf) if sf is not None else None
        t, pol = au.strip_not(node.test)
        if a is None and st is not None and isinstance(t, ast.Name) and t.id == FLAG and pol and not node.orelse and b is not None:
            b = tuple((pc, 1) for pc, _ in b)   # the flagged call has returned inside this if
        return self._j(a, b)


def _passes_flag(call: ast.Call) -> bool:
    v = au.kwarg(call, FLAG)
    if v is not None:
        return isinstance(v, ast.Name) and v.id == FLAG
    return any(isinstance(a, ast.Name) and a.id == FLAG for a in call.args)


def _flag_false(state) -> bool:
    """True when costs_only is known to be False on every partition reaching this point."""
    for pc, _ in state:
        d = {k: v for k, v, _ in pc}
        if d.get(FLAG) is not False:
            return False
    return True


def _hstack_parts(e):
    """(base, [appended operands]) for np.hstack((base, x, ...)) / np.hstack([base, x]) / np.concatenate / np.append."""
    if isinstance(e, ast.Call) and au.method_name(e) in ("hstack", "concatenate", "append") and e.args:
        a0 = e.args[0]
        if isinstance(a0, (ast.Tuple, ast.List)) and len(a0.elts) >= 2:
            return a0.elts[0], list(a0.elts[1:])
        if au.method_name(e) == "append" and len(e.args) >= 2:
            return e.args[0], [e.args[1]]
    return None, []


def _is_cost_carrier(e, roles=None) -> bool:
    return role(e, roles or {}) == "c"


@analysis("costsonly", ["C17.a", "C17.p"])
def run(ctx):
    p = ctx.p
    impls = []
    for ci in sorted(p.classes.values(), key=lambda c: c.name):
        fn = ci.methods.get(SETUP)
        if fn is not None and fn.param(FLAG) is not None:
            impls.append(fn)
    ctx.require(len(impls) >= 12, "fewer than 12 implementations of %s take a %s parameter" % (SETUP, FLAG))
    direct_bad = []
    for fn in impls:
        abstract = all(isinstance(s, (ast.Pass, ast.Expr)) for s in fn.body)
        if abstract:
            continue
        fn_roles = local_roles(fn)
        dom = Partitioned(_Unit())
        w = _W(dom)
        forwarded_names, forwarded_containers = set(), set()
        for st in au.walk_stmts(fn.body):
            if isinstance(st, ast.Assign) and isinstance(st.value, ast.Call) and au.method_name(st.value) == SETUP and _passes_flag(st.value):
                for t in st.targets:
                    if isinstance(t, ast.Name):
                        forwarded_names.add(t.id)
                    elif isinstance(t, ast.Subscript) and isinstance(t.value, ast.Name):
                        forwarded_containers.add(t.value.id)
        unguarded = []
        after_false = []   # statements executed where costs_only is known to be False (a costs_only=True call has returned)

        def on_stmt(node, state):
            if _flag_false(state):
                if all(v == 1 for _, v in state):
                    after_false.append(node)
                return
            for n in au.walk_own(node):
                if isinstance(n, ast.Attribute) and isinstance(n.ctx, ast.Load):
                    v = n.value
                    if isinstance(v, ast.Name) and v.id in forwarded_names:
                        unguarded.append(n)
                    elif isinstance(v, ast.Subscript) and isinstance(v.value, ast.Name) and v.value.id in forwarded_containers:
                        unguarded.append(n)
        w.on_stmt = on_stmt
        w.run_function(fn)

        # ---- honours
        flag_returns = []          # Return nodes executed only when costs_only is True
        for ret, state in w.returns:
            if ret is None:
                continue
            true_everywhere = all({k: v for k, v, _ in pc}.get(FLAG) is True for pc, _ in state)
            if true_everywhere:
                flag_returns.append(ret)
        honours = bool(flag_returns)
        ctx.ob("C17.a", fn, "honours %s" % FLAG, honours,
               "%s accepts %s but has no path `if %s: return <cost vector>`: with costs_only=True it returns (or crashes on) a full "
               "problem, so Portfolio.create_cost_samples / make_slp / robust optimisation fail for portfolios containing this asset"
               % (fn.qualname, FLAG, FLAG), node=fn.node)
        # ---- guarded use of a forwarded result
        if forwarded_names or forwarded_containers:
            seen = set()
            uniq = [n for n in unguarded if not (id(n) in seen or seen.add(id(n)))]
            ctx.ob("C17.a", fn, "forwarded result used as a problem only where %s is False" % FLAG, not uniq,
                   "the result of the inner set-up was requested with the caller's %s and is a bare cost vector when the flag is set, "
                   "but it is used as a problem (%s) on a path where the flag may be True" % (
                       FLAG, "; ".join("line %s: %s" % (n.lineno, au.short(n, 40)) for n in uniq[:5])),
                   node=(uniq[0] if uniq else fn.node))
        if not honours:
            continue
        # ---- width: widenings of the cost carrier after the (first) costs_only return vs. inside the return expression
        first_ret = min(flag_returns, key=lambda r: r.lineno)
        after, in_ret = [], []
        for ret in flag_returns:
            base, app = _hstack_parts(ret.value)
            if base is not None:
                in_ret.extend(au.U(x) for x in app)
        # statements that execute only after a costs_only=True call has returned (path condition: costs_only is False)
        seen_st = set()
        after_stmts = [s_ for s_ in after_false if not (id(s_) in seen_st or seen_st.add(id(s_)))]
        for st in after_stmts:
            if isinstance(st, ast.Assign) and any(_is_cost_carrier(t, fn_roles) for t in st.targets):
                base, app = _hstack_parts(st.value)
                if base is not None and _is_cost_carrier(base, fn_roles):
                    after.extend((au.U(x), st) for x in app)
        missing = [(x, st) for x, st in after if x not in in_ret]
        extra = [x for x in in_ret if x not in [a for a, _ in after]]
        ctx.ob("C17.a", fn, "cost-vector width after the %s return" % FLAG, not missing and not extra,
               "after `if %s: return ...` the cost vector of the full problem is widened by %s, which the vector returned under "
               "%s does not contain%s: the two have different lengths (e.g. MIP storage 144 vs 96)" % (
                   FLAG, ", ".join("%s (line %s)" % (x, st.lineno) for x, st in missing[:4]) or "nothing", FLAG,
                   ("; the returned vector appends %s which the full problem does not" % extra) if extra else ""),
               node=(missing[0][1] if missing else first_ret))
        # ---- periodic merge after the vector left
        merges = []
        for st in after_stmts:
            for n in au.walk_own(st):
                if isinstance(n, ast.Call):
                    if au.method_name(n) == "__make_periodic__":
                        merges.append(n)
                    if au.method_name(n) == "OptimProblem":
                        v = au.kwarg(n, "periodic_period_length")
                        if v is not None and not au.is_none(v):
                            merges.append(n)
        # one obligation per function (the merge sites are siblings of one decision)
        ctx.ob("C17.a", fn, "no periodic merge after the %s return" % FLAG, not merges,
               "with periodicity set the full problem joins periodic variables (fewer variables), but the vector returned under "
               "%s was produced before the merge and is never merged: lengths differ (24 vs 48)" % FLAG,
               node=(merges[0] if merges else first_ret))
        if merges:
            direct_bad.append(fn)


    # ---- C17.p: a wrapper that takes its costs_only vector from an inner set-up inherits what that set-up returns
    for fn in impls:
        if all(isinstance(s0, (ast.Pass, ast.Expr)) for s0 in fn.body):
            continue
        deleg = [c for c in p.calls_in(fn) if au.method_name(c) == SETUP and isinstance(c.func, ast.Attribute) and (au.path(c.func.value) or "").startswith("self.")
                 and _passes_flag(c)]
        for c in deleg:
            ctx.ob("C17.p", fn, "costs_only handed to %s" % au.short(c.func.value, 40), not direct_bad,
                   "%s takes its cost vector under %s from the inner set-up (%s). The inner set-ups of %s return that vector before the periodic "
                   "variables are merged, so with a periodic asset inside the vector is longer than the cost vector of the full problem (288 entries "
                   "against 240 variables): cost samples of an SLP / robust target no longer fit the problem. A wrapper that builds the full inner "
                   "problem and returns its c is not affected" % (fn.qualname, FLAG, au.short(c, 60), ", ".join(sorted(f.cls.name for f in direct_bad)[:6])),
                   node=c)
