"""Analysis 10 - split optimisation: re-basing, restore, cover, concatenation orders (C04.d = C14.b, C14.c, C14.f, C18.c).

C04.d  the mapping index shift accumulates the number of variables of the interval problems in the loop and order in which
       problems and mappings are collected; SplitOptimProblem concatenates c and x over the same list in the same order
C14.c  the full grid is re-set on portfolio and assets after the loop, on every path to the return
C14.f  interval boundaries are consecutive pairs of one sequence that is made to start at grid start and end at grid end
C18.c  nodal records and time steps are re-based through the same array of original steps; records and duals are
       concatenated in interval order
"""
from __future__ import annotations
import ast
from .. import astutil as au
from ..tables import rule
from . import analysis

rule("C04.d", "split re-basing: the index shift accumulates len(c) of the interval problems in the loop that collects problems "
              "and mappings; c and x are concatenated over the same list in order", floor=4, props=["C04", "C14", "C01", "C07"])
rule("C14.c", "after the interval loop the full grid is re-set on the portfolio and on every asset, on every path to the return", floor=2)
rule("C14.h", "a grid given to a wrapper (scaled / structured / linked asset) reaches what it wraps: the wrapper's set_timegrid passes it on, "
              "so that restoring the full grid after a split optimisation also restores the wrapped assets", floor=2, props=["C14", "C10"])
rule("C15.k", "split set-up with a fixed window: each interval is given the part of the previous solution (and of an index mask) that "
              "belongs to it, not the caller's full-length data unchanged (the interval set-up reads x[0:n_vars])", floor=1)
rule("C15.m", "split set-up: once the steps of an interval grid have been renumbered 0..T-1, nothing of the whole horizon (masks, step lists, "
              "records) is selected with the renumbered steps - only with the copy of the original steps taken before (here: the window "
              "handed to the interval)", floor=2)
rule("C14.j", "split set-up: the steps and nodal records of an interval are translated back with the copy of the original steps taken before "
              "the interval grid was renumbered 0..T-1, never with the renumbered steps", floor=2)
rule("C14.k", "split set-up: the mapping that is re-based (original steps, index shift, asset index shift) is a copy - the mapping of the "
              "interval problem itself, whose index tells optimize() which variables are boolean, stays as the interval set-up made it", floor=2)
rule("C14.p", "the split problem is made of the problems of *all* intervals, in order: the list appended to in the interval loop is handed to "
              "SplitOptimProblem as it is - not filtered or re-built afterwards (the running offset of the variable labels counted every interval)",
     floor=1, props=["C14", "C01", "C07", "C04"])
rule("C14.n", "split set-up: what is looked up in the previous interval may be missing - an asset that starts later has no rows there, a whole "
              "interval may have none: a per-asset value taken from the previous interval's mapping (map / reindex / merge / a maximum over a "
              "selection) is not cast to an integer type without a default (fillna): the cast raises on NaN and no split problem is produced at all",
     floor=0)
rule("C14.f", "interval boundaries are consecutive pairs of one sequence extended to start at grid start and end at grid end", floor=3)
rule("C18.c", "time steps and nodal records of an interval are re-based through the same array of original steps; records and "
              "duals are concatenated in interval order", floor=3, props=["C18", "C14"])


@analysis("split", ["C04.d", "C14.c", "C14.f", "C18.c", "C14.h", "C15.k", "C15.m", "C14.j", "C14.k", "C14.n", "C14.p"])
def run(ctx):
    p = ctx.p
    fn = p.cls("Portfolio").methods.get("setup_split_optim_problem")
    # ---- C14.n integer casts of look-ups that may find nothing
    if fn is not None:
        n_n = 0
        for st in au.walk_stmts(fn.body):
            for c in au.walk_own(st):
                if not (isinstance(c, ast.Call) and au.method_name(c) == "astype" and c.args and "int" in au.U(c.args[0]) and isinstance(c.func, ast.Attribute)):
                    continue
                recv = c.func.value
                chain = [x for x in au.walk_local(recv) if isinstance(x, ast.Call)]
                names = [au.method_name(x) for x in chain]
                lookup = [m for m in names if m in ("map", "reindex", "merge", "join", "max", "min", "get")]
                if not lookup:
                    continue
                n_n += 1
                filled = any(m in ("fillna", "nan_to_num", "where") for m in names)
                ctx.ob("C14.n", fn, au.short(c, 80), filled,
                       "%s is cast to an integer type, but the look-up finds nothing for an asset that had no rows in the previous interval (an asset that "
                       "starts on day 3 of a horizon split by day): NaN cannot be cast - IntCastingNaNError, the split set-up fails where the unsplit problem "
                       "is set up and solved" % au.short(recv, 60), node=c)
        if n_n == 0:
            ctx.ob("C14.n", fn, "integer casts of look-ups in the previous interval", True, ok_detail="none")
    ctx.require(fn is not None, "Portfolio.setup_split_optim_problem vanished")
    loops = [s for s in fn.body if isinstance(s, ast.For)]
    main = None
    for lp in loops:
        if any(isinstance(x, ast.Call) and au.method_name(x) == "setup_optim_problem" for x in au.walk_local(lp)):
            main = lp
    ctx.require(main is not None, "interval loop (calling setup_optim_problem) not found at top level of setup_split_optim_problem")
    body = list(au.walk_stmts(main.body))

    # ================================================================= C04.d
    shifts = [s for s in body if isinstance(s, ast.AugAssign) and isinstance(s.target, ast.Attribute) and s.target.attr == "index" and isinstance(s.op, ast.Add)]
    accs = [s for s in body if isinstance(s, ast.AugAssign) and isinstance(s.target, ast.Name) and isinstance(s.op, ast.Add) and
            any(isinstance(x, ast.Attribute) and x.attr in ("c", "l", "u") for x in au.walk_local(s.value))]
    appends = {au.base_name(s.value.func): s for s in main.body if isinstance(s, ast.Expr) and isinstance(s.value, ast.Call) and au.method_name(s.value) == "append"}
    if not shifts:
        ctx.ob("C04.d", fn, "index shift", False, "the mapping index of an interval is no longer shifted by the number of variables before it: "
               "every interval's rows point at the variables of the first interval", node=main)
    for s in shifts:
        shift_name = au.U(s.value)
        acc = [a for a in accs if au.U(a.target) == shift_name]
        ok = len(acc) == 1 and acc[0].lineno > s.lineno and acc[0] in main.body and s in main.body
        ctx.ob("C04.d", fn, au.short(s, 60), ok,
               "the shift %s must be the number of variables of all previous intervals: accumulated exactly once per interval, after it "
               "was applied, by the interval problem's own variable count (found %s)" % (shift_name, [au.short(a, 40) for a in acc]), node=s)
        if acc:
            # the accumulated count and the collected problem are the same object
            op_names = {au.base_name(x) for x in au.walk_local(acc[0].value) if isinstance(x, ast.Attribute) and x.attr in ("c", "l", "u")}
            coll = [au.U(a.value.args[0]) for a in appends.values() if a.value.args]
            ok2 = bool(op_names) and all(o in coll for o in op_names)
            ctx.ob("C04.d", fn, "counted problem is the collected problem", ok2,
                   "the variable count comes from %s but the list of problems collects %s" % (sorted(op_names), coll), node=acc[0])
    # both lists are appended in the loop body (after the same skip guard)
    ctx.ob("C04.d", fn, "problems and mappings are collected in the same loop", len(appends) >= 2,
           "interval problems and interval mappings must be appended in the same iteration (found appends to %s): otherwise their "
           "orders differ" % sorted(appends), node=main)
    sp = p.cls("SplitOptimProblem")
    init, opt = sp.methods.get("__init__"), sp.methods.get("optimize")
    ctx.require(init is not None and opt is not None, "SplitOptimProblem.__init__ / optimize vanished")
    c_iter = [n for n in au.walk_local(init.node) if isinstance(n, ast.ListComp) and any(isinstance(x, ast.Attribute) and x.attr == "c" for x in au.walk_local(n.elt))]
    x_loop = [s for s in au.walk_stmts(opt.body) if isinstance(s, ast.For)]
    c_src = au.U(c_iter[0].generators[0].iter) if c_iter else None
    x_src = au.U(x_loop[0].iter) if x_loop else None
    ok = c_src is not None and x_src is not None and x_src.replace("self.", "") == c_src.replace("self.", "")
    ctx.ob("C04.d", sp.name, "c and x are concatenated over the same list", ok,
           "the cost vector is stacked over %s but the solution over %s: reversed / sorted / filtered differently, c and x no longer "
           "line up" % (c_src, x_src), node=(opt.node))
    xs = [s for s in au.walk_stmts(opt.body) if isinstance(s, ast.Assign) and au.path(s.targets[0]) and au.path(s.targets[0]).endswith(".x")
          and isinstance(s.value, ast.Call) and au.method_name(s.value) == "hstack"]
    for s in xs:
        a0 = s.value.args[0]
        ok = isinstance(a0, (ast.Tuple, ast.List)) and len(a0.elts) == 2 and au.U(a0.elts[0]) == au.U(s.targets[0])
        ctx.ob("C04.d", opt, au.short(s, 60), ok, "interval solutions must be appended behind the accumulated solution (order of intervals)", node=s)

    # ================================================================= C14.c
    after = fn.body[fn.body.index(main) + 1:]
    ret_idx = next((i for i, s in enumerate(after) if isinstance(s, ast.Return)), len(after))
    tail = after[:ret_idx]
    grid_param = "timegrid"
    self_reset = any(isinstance(s, ast.Expr) and isinstance(s.value, ast.Call) and au.call_name(s.value) == "self.set_timegrid"
                     and au.U(au.arg_or_kw(s.value, 0, "timegrid")) == grid_param for s in tail)
    asset_reset = any(isinstance(s, ast.For) and "assets" in au.U(s.iter) and any(
        isinstance(x, ast.Call) and au.method_name(x) == "set_timegrid" and au.U(au.arg_or_kw(x, 0, "timegrid")) == grid_param for x in au.walk_local(s)) for s in tail)
    early = [s for s in au.walk_stmts(main.body) if isinstance(s, ast.Return)]
    ctx.ob("C14.c", fn, "portfolio grid restored", self_reset and not early,
           "after the interval loop the portfolio must be given the full grid again (self.set_timegrid(%s) before the return, no return "
           "inside the loop): otherwise it keeps the last interval's grid and reports index the wrong time points" % grid_param, node=main)
    ctx.ob("C14.c", fn, "asset grids restored", asset_reset and not early,
           "after the interval loop every asset must be given the full grid again: Asset.dcf / fill_level size their result by "
           "self.timegrid.T and would otherwise use the last interval's length", node=main)

    # ================================================================= C14.f
    seq = None
    for s in fn.body:
        if isinstance(s, ast.Assign) and isinstance(s.value, ast.Call) and au.method_name(s.value) == "date_range" and isinstance(s.targets[0], ast.Name):
            seq = s.targets[0].id
            st = au.kwarg(s.value, "start")
            en = au.kwarg(s.value, "end")
            ok = st is not None and en is not None and au.U(st).endswith(".start") and au.U(en).endswith(".end")
            ctx.ob("C14.f", fn, "boundaries from grid start to grid end", ok,
                   "the interval boundaries must span the grid (start=%s.start, end=%s.end)" % (grid_param, grid_param), node=s)
            break
    if seq is None:
        ctx.ob("C14.f", fn, "interval boundaries", None, "date_range of interval boundaries not found")
    else:
        app = any(isinstance(s, ast.Assign) and isinstance(s.value, ast.Call) and au.method_name(s.value) == "append" and au.base_name(s.value.func) == seq
                  and ".end" in au.U(s.value) for s in fn.body)
        ins = any(isinstance(s, ast.If) and any(isinstance(x, ast.Call) and au.method_name(x) == "insert" and au.const_num(x.args[0]) == 0 and ".start" in au.U(x)
                                                for x in au.walk_local(s)) for s in fn.body)
        ctx.ob("C14.f", fn, "last boundary is the grid end, first the grid start", app and ins,
               "the boundary sequence must be closed with the grid end (append) and opened with the grid start when the range does not "
               "begin there (insert(0, start)): otherwise the last / first partial interval is dropped", node=main)
        it = main.iter
        rng_ok = isinstance(it, ast.Call) and au.method_name(it) == "range" and au.U(it.args[-1]).replace(" ", "") == "len(%s)-1" % seq
        lv = au.target_names(main.target)[0] if au.target_names(main.target) else None
        # the interval grid is built from (seq[i], seq[i+1]) - directly or through locals
        pair_ok = False
        for x in [x for s in main.body for x in au.walk_own(s) if isinstance(x, ast.Call) and au.method_name(x) == "Timegrid"]:
            st_x = ctx.p.enclosing_stmt(x)
            ends = [au.arg_or_kw(x, 0, "start"), au.arg_or_kw(x, 1, "end")]
            if None in ends:
                continue
            ends = [ctx.resolve(fn, a, st_x) for a in ends]
            if all(isinstance(e, ast.Subscript) and au.base_name(e.value) == seq for e in ends):
                pair_ok = [au.U(e.slice).replace(" ", "") for e in ends] == [lv, "%s+1" % lv]
        ctx.ob("C14.f", fn, "consecutive pairs of the boundary sequence", rng_ok and pair_ok,
               "intervals must be (seq[i], seq[i+1]) for i in range(len(seq) - 1): gaps or overlaps between intervals otherwise", node=main)

    # ================================================================= C18.c
    rebase_arrays = set()
    org = ctx.origins(fn)

    def step_arrays(expr, st):
        """the array through which `expr` maps interval-local steps back: X in X[...] / [X[a] for a in ...] (through locals and
        .copy()); named 'X' if X is a saved <grid>.I, 'X (not a grid index)' otherwise."""
        e = ctx.resolve(fn, expr, st)
        while isinstance(e, ast.Call) and au.method_name(e) in ("copy", "list", "array", "asarray") and (isinstance(e.func, ast.Attribute) or e.args):
            inner = e.func.value if (isinstance(e.func, ast.Attribute) and au.method_name(e) == "copy") else (e.args[0] if e.args else None)
            if inner is None:
                break
            e = ctx.resolve(fn, inner, st)
        if isinstance(e, ast.ListComp):
            e = e.elt
        if isinstance(e, ast.Subscript) and isinstance(e.value, ast.Name):
            d = ctx.resolve(fn, e.value, st)
            return {e.value.id if (isinstance(d, ast.Attribute) and d.attr == "I") else "%s (not a saved grid index)" % e.value.id}
        return set()
    for s in body:
        if isinstance(s, ast.Assign) and any(isinstance(t, ast.Subscript) and au.const_str(t.slice) == "time_step" for t in s.targets):
            for a in step_arrays(s.value, s):
                rebase_arrays.add(("time_step", a))
    rec = [x for s in body for x in au.walk_own(s) if isinstance(x, ast.Call) and au.method_name(x) == "append" and x.args and isinstance(x.args[0], ast.Tuple)]
    for x in rec:
        for a in step_arrays(x.args[0].elts[0], ctx.p.enclosing_stmt(x)):
            rebase_arrays.add(("record", a))
    arrs = {a for _, a in rebase_arrays}
    ok = len(arrs) == 1 and {k for k, _ in rebase_arrays} == {"time_step", "record"}
    ctx.ob("C18.c", fn, "time steps and nodal records re-based through one array", ok,
           "time steps of the mapping and the steps of the nodal records must both be mapped back through the interval's original "
           "step array (found %s): prices would be reported at interval-local steps" % sorted(rebase_arrays), node=main)
    if arrs:
        a = next(iter(arrs))
        d = [s for s in main.body if isinstance(s, ast.Assign) and isinstance(s.targets[0], ast.Name) and s.targets[0].id == a]
        ok = bool(d) and au.U(d[0].value).endswith(".I")
        renum = [s for s in main.body if isinstance(s, ast.Assign) and au.U(s.targets[0]).endswith(".I")]
        ok = ok and (not renum or d[0].lineno < renum[0].lineno)
        ctx.ob("C18.c", fn, "original steps are saved before the interval grid is renumbered", ok,
               "%s must be the interval grid's original I, taken before I is replaced by 0..T-1" % a, node=(d[0] if d else main))
    # SplitOptimProblem: records concatenated in ops order; duals appended behind
    rec_loop = [s for s in au.walk_stmts(init.body) if isinstance(s, ast.For) and any(isinstance(x, ast.AugAssign) and "map_nodal_restr" in au.U(x.target) for x in s.body)]
    ok = bool(rec_loop) and (c_src is not None) and au.U(rec_loop[0].iter) == c_src
    ctx.ob("C18.c", sp.name, "records concatenated in interval order", ok,
           "nodal records must be concatenated over the same list and order as the cost vectors", node=(rec_loop[0] if rec_loop else init.node))
    du = [s for s in au.walk_stmts(opt.body) if isinstance(s, ast.Assign) and "duals" in au.U(s.targets[0]) and isinstance(s.value, ast.Call) and au.method_name(s.value) == "hstack"]
    for s in du:
        a0 = s.value.args[0]
        ok = isinstance(a0, (ast.Tuple, ast.List)) and len(a0.elts) == 2 and au.U(a0.elts[0]) == au.U(s.targets[0])
        ctx.ob("C18.c", opt, au.short(s, 70), ok, "interval duals must be appended behind the accumulated duals (interval order)", node=s)

    # ================================================================= C14.h wrappers pass the grid on
    n_w = 0
    for ci in sorted(p.asset_classes(), key=lambda c: c.name):
        wrapped = set()
        for m_ in ci.methods.values():
            for c in p.calls_in(m_):
                if au.method_name(c) == "setup_optim_problem" and isinstance(c.func, ast.Attribute) and isinstance(c.func.value, ast.Attribute) \
                        and au.base_name(c.func.value) == "self" and au.path(c.func.value).count(".") == 1:
                    wrapped.add(c.func.value.attr)
        if not wrapped:
            continue
        st_m = p.resolve_method(ci, "set_timegrid")
        for w_attr in sorted(wrapped):
            n_w += 1
            passes = st_m is not None and any(isinstance(c, ast.Call) and au.method_name(c) == "set_timegrid" and ("self.%s" % w_attr) in au.U(c.func)
                                              for c in au.walk_local(st_m.node)) or \
                (st_m is not None and any(isinstance(l, ast.For) and ("self.%s" % w_attr) in au.U(l.iter) and
                                          any(isinstance(c, ast.Call) and au.method_name(c) == "set_timegrid" for c in au.walk_local(l)) for l in au.walk_stmts(st_m.body)))
            ctx.ob("C14.h", ci.name, "set_timegrid reaches self.%s" % w_attr, bool(passes),
                   "%s wraps self.%s (it calls its set-up) but %s only stores the grid on the wrapper: after a split optimisation the portfolio "
                   "gives the full grid back to its own assets, the wrapped ones keep the grid of the last interval - a later set-up of the "
                   "wrapper without grid argument builds the inner problem on that interval (ScaledAsset: ValueError 'Length of price array "
                   "must be equal to length of time grid'; 72 steps outside, 24 inside)" % (
                       ci.name, w_attr, (st_m.qualname if st_m is not None else "set_timegrid")), node=ci.node)
    ctx.require(n_w >= 2, "fewer than 2 wrapper classes found", rules=['C14.h'])

    # ================================================================= C14.k the re-based mapping is a copy
    ffk = ctx.flow(fn)
    for s0 in body:
        tgt = None
        if isinstance(s0, ast.Assign) and len(s0.targets) == 1 and isinstance(s0.targets[0], ast.Subscript):
            tgt = s0.targets[0]
        elif isinstance(s0, ast.AugAssign) and isinstance(s0.target, (ast.Subscript, ast.Attribute)):
            tgt = s0.target
        if tgt is None:
            continue
        base = tgt
        while isinstance(base, (ast.Subscript, ast.Attribute)):
            base = base.value
        if not isinstance(base, ast.Name):
            continue
        defs = [d for d in ffk.defs(base.id, s0) if d.kind == "assign" and d.value is not None]
        # only frames that come from an interval problem's mapping (directly or through a copy)
        def from_mapping(v):
            return any(isinstance(x, ast.Attribute) and x.attr == "mapping" for x in au.walk_local(v))
        defs = [d for d in defs if from_mapping(d.value)]
        if not defs:
            continue
        alias = [d for d in defs if not any(isinstance(x, ast.Call) and au.method_name(x) in ("deepcopy", "copy") for x in au.walk_local(d.value))]
        ctx.ob("C14.k", fn, au.short(s0, 70), not alias,
               "%s is the mapping of the interval problem itself (%s), not a copy: re-basing it moves the index of the problem that is optimised "
               "for this interval - from the second interval on optimize() looks for the boolean variables at labels shifted by the number of "
               "variables before (a plant with minimum load runs below it, or optimize() raises)" % (
                   base.id, au.short(alias[0].node, 50) if alias else ""), node=s0, ok_detail="re-bases a copy")

    # ================================================================= C15.m original steps vs renumbered steps
    renum = [s0 for s0 in main.body if isinstance(s0, ast.Assign) and len(s0.targets) == 1 and isinstance(s0.targets[0], ast.Attribute)
             and s0.targets[0].attr == "I" and isinstance(s0.targets[0].value, ast.Name)]
    for rid in (() if renum else ("C15.m", "C14.j")):
        ctx.ob(rid, fn, "renumbering of the interval grid", None, "the interval loop no longer renumbers <grid>.I: the rule has nothing to decide")
    for rn in renum:
        g = rn.targets[0].value.id
        origs = {s0.targets[0].id for s0 in main.body if isinstance(s0, ast.Assign) and len(s0.targets) == 1 and isinstance(s0.targets[0], ast.Name)
                 and au.U(s0.value) == "%s.I" % g and s0.lineno < rn.lineno}
        n_use = 0
        for s0 in body:
            if s0.lineno <= rn.lineno:
                continue
            for x in au.walk_own(s0):
                sel = None
                if isinstance(x, ast.Subscript) and isinstance(x.ctx, ast.Load):
                    sel = x.slice
                    whole = x.value
                elif isinstance(x, ast.Call) and au.method_name(x) in ("isin", "in1d", "intersect1d", "searchsorted") and x.args:
                    sel = x.args[0]
                    whole = x.args[1] if len(x.args) > 1 else x
                if sel is None:
                    continue
                rid = "C15.m" if any(isinstance(a0, ast.If) and "fix_time_window" in au.names_in(a0.test) for a0 in p.ancestors(x)) else "C14.j"
                local = any(isinstance(y, ast.Attribute) and y.attr == "I" and isinstance(y.value, ast.Name) and y.value.id == g for y in au.walk_local(sel))
                orig = any(isinstance(y, ast.Name) and y.id in origs for y in au.walk_local(sel)) or \
                    (isinstance(x, ast.Subscript) and isinstance(x.value, ast.Name) and x.value.id in origs)
                if local:
                    n_use += 1
                    ctx.ob(rid, fn, au.short(x, 70), False,
                           "%s.I was renumbered to 0..T-1 at line %d; selecting from %s with it takes the *first* T entries in every interval, not the "
                           "entries of this interval's steps (a boolean mask over the grid as fix_time_window['I']: with the first 30 hours fixed, "
                           "days 2 and 3 are pinned completely) - the original steps are kept in %s" % (g, rn.lineno, au.short(whole, 30), sorted(origs) or "?"),
                           node=x)
                elif orig:
                    n_use += 1
                    ctx.ob(rid, fn, au.short(x, 70), True, node=x, ok_detail="selected with / from the original steps %s" % sorted(origs))
        if not origs:
            for rid in ("C15.m", "C14.j"):
                ctx.ob(rid, fn, "copy of the original steps", None, "no copy of %s.I is taken before the renumbering" % g, node=rn)

    # ================================================================= C15.k the window handed to an interval
    calls = [c for s0 in au.walk_stmts(main.body) for c in au.walk_own(s0) if isinstance(c, ast.Call) and au.method_name(c) == "setup_optim_problem"]
    for c in calls:
        a = au.kwarg(c, "fix_time_window")
        if a is None:
            continue
        bare = isinstance(a, ast.Name) and fn.param(a.id) is not None and \
            all(d.kind == "param" for d in ctx.flow(fn).defs(a.id, ctx.p.enclosing_stmt(c)))
        ctx.ob("C15.k", fn, "window passed to the interval set-up", not bare,
               "every interval is given the caller's fix_time_window unchanged; the interval set-up pins its variables to x[0:n_vars], i.e. "
               "every interval after the first to the values of the *first* interval's variables, and an index mask over the full grid "
               "does not fit the interval's steps: with a window reaching past the first interval the fixed part of the previous "
               "solution is not reproduced (deviation 1.0 in the demo of D47)", node=c, key="window passed to the interval set-up")

    # ================================================================= C14.p every interval problem reaches SplitOptimProblem
    sp_calls = [c for s0 in au.walk_stmts(fn.body) for c in au.walk_own(s0) if isinstance(c, ast.Call) and au.method_name(c) == "SplitOptimProblem"]
    if not sp_calls:
        ctx.ob("C14.p", fn, "list of interval problems", None, "no SplitOptimProblem(...) call found in the split set-up")
    for c in sp_calls:
        a = au.arg_or_kw(c, 0, "ops")
        if not isinstance(a, ast.Name):
            ctx.ob("C14.p", fn, "list of interval problems", None, "the problems are not handed over as a plain local (%s)" % au.short(a, 40), node=c)
            continue
        st_c = p.enclosing_stmt(c)
        rebinds = [d for d in ctx.flow(fn).defs(a.id, st_c) if d.kind in ("assign", "unpack", "aug", "for") and d.value is not None
                   and not (isinstance(d.value, (ast.List, ast.Tuple)) and not d.value.elts)
                   and not (isinstance(d.value, ast.Call) and isinstance(d.value.func, ast.Name) and d.value.func.id == "list" and not d.value.args)]
        ctx.ob("C14.p", fn, "every interval problem reaches SplitOptimProblem(%s, ...)" % a.id, not rebinds,
               "the list of interval problems is re-bound before it is handed over (%s): the labels of the mapping were shifted by the number of "
               "variables of *every* interval (running offset), so a problem that is left out - an interval in which only variables without "
               "mapping row exist, e.g. orders outside it - shifts the solution against the labels of all later intervals: the report reads other "
               "variables (node hub nets to 32 instead of 0)" % "; ".join("%s at %s" % (au.short(d.node, 50), p.where(d.node)) for d in rebinds[:2]),
               node=(rebinds[0].node if rebinds else c))
