"""Analyses 2 / 5 (parts) / 14 (counters) - nodal rows, the dispatch report and the dual bookkeeping
(C01.a C01.b C01.d C01.e C01.f C01.h C01.i, C07.h C07.j, C18.a C18.b).
"""
from __future__ import annotations
import ast
from .. import astutil as au
from ..tables import rule
from . import analysis
from .translation import Letters
from ..carriers import local_roles, role

rule("C07.ah", "exactly one nodal row per (node, step) that has dispatch: the rows that enter a node's balance are selected by their type ('d'), "
               "node and time step only - no conjunct on values (disp_factor != 0, bounds, prices), which would drop pairs whose rows all fail it",
     floor=1, props=["C07", "C01", "C18"])
rule("C01.a", "nodal rows: coefficients come from mapping['disp_factor'], columns from mapping.index, both through the same "
              "selector pair (type == 'd' & node == n; time_step == t); right-hand side zeros and letter count use one counter", floor=5,
     props=["C01", "C18"])     # C18: the nodal price is the dual of exactly this row - a rescaled row has a rescaled dual
rule("C01.b", "the default dispatch factor (column created when absent, NaN filled with 1) is established before the factor "
              "column is read - in every problem a portfolio sets up, so that the frames of the intervals of a split optimisation, which are "
              "concatenated, all carry the column (a column present in some intervals only leaves NaN factors in the others)", floor=2, props=["C01", "C14"])
rule("C01.d", "the dispatch report accumulates x[variable label] * disp_factor over rows selected by asset, type 'd' and node, "
              "with asset and node bound by the enclosing loops", floor=4)
rule("C01.e", "every node name an asset writes into a mapping comes from its own nodes (so the portfolio registry knows it), or is "
              "NaN / an internal rename paired with type 'i'", floor=12)
rule("C01.f", "a structured asset passes to the inner portfolio as skip set exactly the set whose complement it renames and marks "
              "internal (each node balanced exactly once)", floor=2, props=["C01", "C16"])
rule("C01.h", "the rows copied for node k of a multi-commodity asset are scaled by the factor with the same k", floor=1)
rule("C01.i", "a (node, step) pair gets no nodal row only because the node is in the skip set or no dispatch row matches", floor=1)
rule("C07.h", "one nodal row per (node, step): counter increment and (step, node) record happen exactly once per created row", floor=1,
     props=["C07", "C18"])
rule("C07.ac", "the columns an asset's restriction rows are embedded in are the asset's whole block of variables (its offset + 0 .. width - 1): "
               "not the labels that occur in its mapping rows - a variable without rows (an order outside the horizon) has a column too, and "
               "the order of appearance of labels is not the order of columns", floor=1, props=["C07", "C16"])
rule("C07.j", "asset rows are embedded into the asset's own columns: index set, matrix, right-hand side and letters are selected "
              "by the same loop variable", floor=3)
rule("C18.a", "every constraint appended for a row class is paired with the counter increment that records its position", floor=4)
rule("C16.p", "a structured asset re-types only the rows it hides: the 'type' column is written for the rows at internal nodes (type 'i'); every "
              "other row keeps the type its asset gave it - not every row at an external node is a dispatch row (the scale variable of a scaled "
              "asset is of type 'size')", floor=1)
rule("C18.f", "a dual is reported under the node (and step) of its own record: the label of a nodal price is built from the element of "
              "map_nodal_restr that is paired with the dual, not from another enumeration of the nodes", floor=1)
rule("C18.b", "(step, node) records are in lockstep with the N letters of the assembled problem: no asset returns rows under "
              "letter N, the record order (step, node) is the one the report uses, duals and records share one counter", floor=4)


def _param_binding(call, fn):
    """{param name: arg expr} for a call of a (nested) function."""
    b = {}
    ps = fn.params
    for i, a in enumerate(call.args):
        if i < len(ps):
            b[ps[i].name] = a
    for k in call.keywords:
        if k.arg:
            b[k.arg] = k.value
    return b


def _column_of(e, org=None, at=None):
    """'disp_factor' for mapping['disp_factor'].values ; '@index' for mapping.index.values ; None."""
    while isinstance(e, ast.Attribute) and e.attr in ("values",):
        e = e.value
    while isinstance(e, ast.Call) and au.method_name(e) in ("to_numpy", "copy", "astype", "asarray", "array"):
        e = e.func.value if isinstance(e.func, ast.Attribute) and au.dotted(e.func.value) not in ("np", "numpy") else (e.args[0] if e.args else e)
        while isinstance(e, ast.Attribute) and e.attr in ("values",):
            e = e.value
    if isinstance(e, ast.Subscript) and au.const_str(e.slice):
        return au.const_str(e.slice)
    if isinstance(e, ast.Attribute) and e.attr == "index":
        return "@index"
    return None


rule("C01.l", "a wrapper declares every node of the asset it wraps: the nodes it hands to Asset.__init__ are the wrapped asset's whole node "
              "list, not one element (the report lists dispatch per declared node; flows at undeclared nodes are in the nodal rows but not "
              "in the report)", floor=1, props=["C01", "C16"])


@analysis("nodal", ["C01.a", "C01.b", "C01.d", "C01.e", "C01.f", "C01.h", "C01.i", "C07.h", "C07.j", "C18.a", "C18.b", "C01.l", "C07.ac", "C18.f", "C16.p", "C07.ah"])
def run(ctx):
    p = ctx.p
    # ---- C01.l nodes a wrapper declares
    n_l = 0
    for ci in sorted(p.asset_classes(), key=lambda c: c.name):
        init = ci.methods.get("__init__")
        if init is None:
            continue
        for c in p.calls_in(init):
            if not (isinstance(c.func, ast.Attribute) and c.func.attr == "__init__"):
                continue
            nv = au.kwarg(c, "nodes")
            if nv is None:
                continue
            inner = [x for x in au.walk_local(nv) if isinstance(x, ast.Attribute) and x.attr in ("nodes", "node_names") and isinstance(x.value, ast.Name)
                     and init.param(x.value.id) is not None and x.value.id not in ("self", "nodes")]
            if not inner:
                continue
            n_l += 1
            elem = [x for x in au.walk_local(nv) if isinstance(x, ast.Subscript) and any(x.value is y for y in inner)]
            ctx.ob("C01.l", init, "nodes = %s" % au.short(nv, 50), not elem,
                   "%s declares only %s of the wrapped asset's nodes, but its optimisation problem is the wrapped asset's and has dispatch rows at "
                   "all of them: the portfolio balances those flows, the report - which lists dispatch per *declared* node of each asset - leaves "
                   "them out, so the reported dispatch at the other nodes does not net to zero (3.0 missing at node 'site' for a scaled "
                   "transport)" % (ci.name, au.short(elem[0], 30) if elem else ""), node=c)
    ctx.require(n_l >= 1, "no wrapper constructor forwarding the wrapped asset's nodes found", rules=["C01.l"])
    pf = p.cls("Portfolio").methods.get("setup_optim_problem")
    ctx.require(pf is not None, "Portfolio.setup_optim_problem vanished")
    ff = ctx.flow(pf)

    # ================================================================= locate the nodal row builder
    builder, call = None, None
    for nf in pf.nested.values():
        if any(isinstance(n, ast.Call) and au.method_name(n) == "append" for n in au.walk_local(nf.node)):
            builder = nf
    if builder is not None:
        for c in p.calls_in(pf):
            if isinstance(c.func, ast.Name) and c.func.id == builder.name:
                call = c
    if builder is None or call is None:
        ctx.ob("C01.a", pf, "nodal row construction", None, "the nested row builder (create_nodal_restr) was not found; other idiom in use")
    else:
        bind = _param_binding(call, builder)
        call_st = ff.stmt_of(call)
        for k, v in list(bind.items()):
            # arguments are locals such as map_dispf = mapping['disp_factor'].values : resolve one step
            if isinstance(v, ast.Name):
                ds = [d for d in ff.defs(v.id, call_st) if d.kind == "assign" and d.value is not None]
                if len(ds) == 1:
                    bind[k] = ds[0].value
        col_of_param = {k: _column_of(v) for k, v in bind.items()}
        # np.append(acc, VALUE) statements in the innermost block
        appends = {}
        for st in au.walk_stmts(builder.body):
            if isinstance(st, ast.Assign) and isinstance(st.targets[0], ast.Name) and isinstance(st.value, ast.Call) \
                    and au.call_name(st.value) in ("np.append", "np.hstack", "np.concatenate") and len(st.value.args) >= 2 \
                    and isinstance(st.value.args[0], ast.Name) and st.value.args[0].id == st.targets[0].id:
                appends[st.targets[0].id] = (st, st.value.args[1])
        bff = ctx.flow(builder)
        borg = ctx.origins(builder)

        def base_and_selectors(e, at):
            sels = []
            while isinstance(e, ast.Subscript):
                sels.append(au.U(e.slice))
                e = e.value
            if isinstance(e, ast.Name):
                alld = bff.defs(e.id, at)
                ds = [d for d in alld if d.kind == "assign" and d.value is not None]
                if len(ds) == 1 and len(alld) == 1:
                    b2, s2 = base_and_selectors(ds[0].value, ds[0].node)
                    if b2 is not None:
                        return b2, list(s2) + list(reversed(sels))
                return e.id, list(reversed(sels))
            return None, list(reversed(sels))

        # which accumulators end up as data / column indices of the sparse rows? -> from the csr/coo construction in pf
        roles = {}
        ret = [st for st in au.walk_stmts(builder.body) if isinstance(st, ast.Return) and isinstance(st.value, ast.Tuple)]
        ret_names = [au.U(x) for x in ret[0].value.elts] if ret else []
        unpack = [st for st in au.walk_stmts(pf.body) if isinstance(st, ast.Assign) and st.value is call]
        local_of = {}
        if unpack and isinstance(unpack[0].targets[0], ast.Tuple):
            for tgt, src in zip(unpack[0].targets[0].elts, ret_names):
                local_of[au.U(tgt)] = src
        for n in au.walk_local(pf.node):
            if isinstance(n, ast.Call) and au.method_name(n) in ("csr_matrix", "coo_matrix", "csc_matrix") and n.args and isinstance(n.args[0], ast.Tuple) \
                    and len(n.args[0].elts) == 2 and isinstance(n.args[0].elts[1], ast.Tuple):
                data, (rws, cls_) = n.args[0].elts[0], n.args[0].elts[1].elts
                roles["data"] = local_of.get(au.base_name(data))
                roles["cols"] = local_of.get(au.base_name(cls_))
                roles["rows"] = local_of.get(au.base_name(rws))
                roles["shape"] = au.kwarg(n, "shape")
        if not roles.get("data") or roles["data"] not in appends or roles.get("cols") not in appends:
            ctx.ob("C01.a", pf, "nodal row construction", None, "cannot relate the builder's accumulators to data / column indices of the sparse rows")
        else:
            dst, dval = appends[roles["data"]]
            cst, cval = appends[roles["cols"]]
            dbase, dsel = base_and_selectors(dval, dst)
            cbase, csel = base_and_selectors(cval, cst)
            ctx.ob("C01.a", builder, "coefficients come from the dispatch factor column", col_of_param.get(dbase) == "disp_factor",
                   "the coefficients of the nodal rows are taken from %s (bound to %s), not from mapping['disp_factor']: transport "
                   "efficiency, commodity factors and coarse-grid weights would not enter the balance" % (
                       dbase, au.short(bind.get(dbase), 40) if dbase in bind else "?"), node=dst)
            ctx.ob("C01.a", builder, "column indices come from the mapping index", col_of_param.get(cbase) == "@index",
                   "the column indices of the nodal rows are taken from %s (bound to %s), not from mapping.index (variable labels)"
                   % (cbase, au.short(bind.get(cbase), 40) if cbase in bind else "?"), node=cst)
            ctx.ob("C01.a", builder, "same selector for coefficients and columns", dsel == csel and len(dsel) >= 1,
                   "coefficients are selected with %s but column indices with %s: factors land on the wrong variables" % (dsel, csel), node=dst)
            # the selector pair: type == 'd' & node == n ; time == t
            sel_nodes = []
            for s in dsel:
                try:
                    sel_nodes.append(ast.parse(s, mode="eval").body)
                except SyntaxError:
                    pass
            conj = []   # (column, compared-with text)
            for sn in sel_nodes:
                for nm in [x for x in au.walk_local(sn) if isinstance(x, ast.Name)]:
                    for d in bff.all_defs(nm.id):
                        if d.kind == "assign" and d.value is not None:
                            for cpr in au.walk_local(d.value):
                                if isinstance(cpr, ast.Compare) and len(cpr.ops) == 1 and isinstance(cpr.ops[0], ast.Eq):
                                    for l, r in ((cpr.left, cpr.comparators[0]), (cpr.comparators[0], cpr.left)):   # either spelling
                                        lb = au.base_name(l)
                                        if lb in col_of_param:
                                            conj.append((col_of_param[lb], au.U(r)))
                                            break
            cols_tested = {c for c, _ in conj}
            ctx.ob("C01.a", builder, "selector conjoins type == 'd', node == n and time_step == t",
                   {"type", "node", "time_step"} <= cols_tested and ("type", "'d'") in conj,
                   "the selector of a nodal row tests %s: it must restrict to dispatch rows (type == 'd') of one node and one time "
                   "step - otherwise internal variables (binaries, scale) enter the balance or steps are mixed" % sorted(conj), node=dst)
            # ... and nothing else: a conjunct on the *values* (disp_factor != 0, a bound, a price) removes (node, step) pairs from the balance
            extra = []
            seen_cmp = set()
            for sn in sel_nodes:
                for nm in [x for x in au.walk_local(sn) if isinstance(x, ast.Name)]:
                    todo, done = [nm.id], set()
                    while todo:
                        cur = todo.pop()
                        if cur in done:
                            continue
                        done.add(cur)
                        for d in bff.all_defs(cur):
                            if d.kind == "assign" and d.value is not None:
                                for cpr in au.walk_local(d.value):
                                    if isinstance(cpr, ast.Compare) and id(cpr) not in seen_cmp:
                                        seen_cmp.add(id(cpr))
                                        for side in [cpr.left] + list(cpr.comparators):
                                            lb = au.base_name(side)
                                            if lb in col_of_param and col_of_param[lb] not in ("type", "node", "time_step"):
                                                extra.append((cpr, col_of_param[lb]))
                                    elif isinstance(cpr, ast.Name) and isinstance(cpr.ctx, ast.Load) and cpr.id not in done and cpr.id not in col_of_param:
                                        todo.append(cpr.id)
            ctx.ob("C07.ah", builder, "the rows of a node's balance are selected by type, node and step only", not extra,
                   "the selector of the nodal rows also tests %s: a (node, step) pair whose dispatch rows all fail that test (an order of capacity "
                   "0, a commodity factor 0) gets no nodal row and no record in map_nodal_restr although the mapping has dispatch there (24 pairs "
                   "with dispatch, 12 nodal rows)" % "; ".join("%s (column %s)" % (au.short(c, 50), col) for c, col in extra[:3]),
                   node=(extra[0][0] if extra else dst))
            # one counter for rows, right-hand side and letters
            cnt = roles.get("rows")
            counter_names = [local for local, src in local_of.items() if src not in appends and any(
                isinstance(st, ast.AugAssign) and au.U(st.target) == src for st in au.walk_stmts(builder.body))]
            uses = {"zeros": None, "letters": None, "shape": None}
            pf_roles = local_roles(pf)
            for st in au.walk_stmts(pf.body):
                if isinstance(st, ast.Assign):
                    tn = role(st.targets[0], pf_roles)
                    if tn == "b":
                        for c in au.walk_local(st.value):
                            if isinstance(c, ast.Call) and au.method_name(c) == "zeros" and c.args:
                                uses["zeros"] = au.U(c.args[0])
                    if tn == "cType":
                        for c in au.walk_local(st.value):
                            if isinstance(c, ast.BinOp) and isinstance(c.op, ast.Mult) and ("N" in (au.const_str(c.left) or "") or "N" in (au.const_str(c.right) or "")):
                                uses["letters"] = au.U(c.right if au.const_str(c.left) else c.left)
            if roles.get("shape") is not None and isinstance(roles["shape"], ast.Tuple):
                uses["shape"] = au.U(roles["shape"].elts[0])
            ok = len(counter_names) >= 1 and all(v in counter_names for v in uses.values() if v is not None) and None not in uses.values()
            ctx.ob("C01.a", pf, "right-hand side, letters and matrix height use the row counter", ok,
                   "zeros(%s), 'N' * %s and shape (%s, ..) must all be the number of nodal rows created (%s)" % (
                       uses["zeros"], uses["letters"], uses["shape"], counter_names), node=call)

        # ---------------------------------------------------------------- C07.h / C01.i inside the builder
        incs = [st for st in au.walk_stmts(builder.body) if isinstance(st, ast.AugAssign) and isinstance(st.op, ast.Add) and au.const_num(st.value) == 1]
        recs = [st for st in au.walk_stmts(builder.body) if isinstance(st, ast.Expr) and isinstance(st.value, ast.Call)
                and au.method_name(st.value) == "append" and st.value.args and isinstance(st.value.args[0], ast.Tuple)]
        same_block = False
        if len(incs) == 1 and len(recs) == 1:
            same_block = p.parent(incs[0]) is p.parent(recs[0])
        ctx.ob("C07.h", builder, "row counter and (step, node) record", len(incs) == 1 and len(recs) == 1 and same_block,
               "per created nodal row the counter must be incremented exactly once and exactly one (step, node) record appended, in "
               "the same block (found %d increment(s), %d record(s)%s): otherwise reported nodal prices are attributed to the wrong "
               "node / step" % (len(incs), len(recs), "" if same_block else ", in different blocks"), node=(incs[0] if incs else builder.node))
        # guards on the way to the row creation
        if incs:
            guards = []
            child = incs[0]
            for anc in p.ancestors(incs[0]):
                if isinstance(anc, ast.If):
                    guards.append(anc.test)
                if anc is builder.node:
                    break
            skip_ok = sel_ok = False
            extra = []
            for g in guards:
                names = au.names_in(g)
                txt = au.U(g)
                if "skip_nodes" in names and (" not in " in txt or "not " in txt):
                    skip_ok = True
                elif any(isinstance(x, ast.Call) and au.method_name(x) in ("sum", "any", "len") for x in au.walk_local(g)) or "> 0" in txt:
                    sel_ok = True
                else:
                    extra.append(txt)
            ctx.ob("C01.i", builder, "conditions under which a (node, step) pair gets no row", skip_ok and sel_ok and not extra,
                   "rows must be created unless the node is in the skip set (negated membership test) or the selector is empty; found "
                   "guards %s" % [au.U(g) for g in guards], node=incs[0], ok_detail="node not in skip set; selector non-empty")
        # record order (step, node) vs the report
        if recs:
            tup = recs[0].value.args[0]
            loops = {}
            for anc in p.ancestors(recs[0]):
                if isinstance(anc, ast.For):
                    for nm in au.target_names(anc.target):
                        loops[nm] = au.base_name(anc.iter) or au.U(anc.iter)
                if anc is builder.node:
                    break
            kinds = []
            for e in tup.elts:
                src = loops.get(au.U(e))
                col = col_of_param.get(src)
                bound = bind.get(src)
                if bound is not None and any(isinstance(x, ast.Attribute) and x.attr == "I" for x in au.walk_local(bound)):
                    kinds.append("step")
                elif bound is not None and ("nodes" in au.U(bound)):
                    kinds.append("node")
                else:
                    kinds.append("?")
            io_fn = p.fn_opt("io.extract_output")
            want = None
            if io_fn is not None:
                for lp in [s for s in au.walk_stmts(io_fn.body) if isinstance(s, ast.For)]:
                    if "map_nodal_restr" in au.U(lp.iter):
                        rec_var = au.target_names(lp.target)[-1]
                        used_time = used_node = None
                        for n in au.walk_local(lp):
                            if isinstance(n, ast.Subscript) and isinstance(n.value, ast.Name) and n.value.id == rec_var and au.const_num(n.slice) is not None:
                                par = p.parent(n)
                                if isinstance(par, ast.Subscript) and au.base_name(par.value) == "times":
                                    used_time = au.const_num(n.slice)
                                if isinstance(par, ast.BinOp) and isinstance(par.op, ast.Add):
                                    used_node = au.const_num(n.slice)
                        want = (used_time, used_node)
            if want and None not in want and "?" not in kinds:
                got = (kinds.index("step") if "step" in kinds else None, kinds.index("node") if "node" in kinds else None)
                ctx.ob("C18.b", builder, "record order %s" % au.U(tup), got == want,
                       "the record is built as %s (step at %s, node at %s) but the report reads the step from position %s and the node "
                       "from position %s" % (au.U(tup), got[0], got[1], want[0], want[1]), node=recs[0])
            else:
                ctx.ob("C18.b", builder, "record order %s" % au.U(tup), None, "cannot relate the record tuple to the report's use (%s, %s)" % (kinds, want))

    # ================================================================= C01.b default factor precedes use
    for fn in (pf, p.cls("OptimProblem").methods.get("__make_periodic__")):
        if fn is None:
            continue
        reads = [n for st in au.walk_stmts(fn.body) for n in au.walk_own(st)
                 if isinstance(n, ast.Subscript) and au.const_str(n.slice) == "disp_factor" and isinstance(n.ctx, ast.Load)
                 and not isinstance(p.enclosing_stmt(n), ast.If)]
        fills = [st for st in au.walk_stmts(fn.body) if isinstance(st, ast.Assign) and isinstance(st.targets[0], ast.Subscript)
                 and au.const_str(st.targets[0].slice) == "disp_factor" and any(isinstance(x, ast.Call) and au.method_name(x) == "fillna" for x in au.walk_local(st.value))]
        creates = [st for st in au.walk_stmts(fn.body) if isinstance(st, ast.If) and "disp_factor" in au.U(st.test) and " not in " in au.U(st.test)]
        use = [n for n in reads if not any(n in list(au.walk_local(f)) for f in fills)]
        first_use = min((n.lineno for n in use), default=None)
        ok = bool(fills) and bool(creates) and (first_use is None or (max(f.lineno for f in fills) < first_use and max(c.lineno for c in creates) < first_use)) \
            and all(st in fn.body for st in fills + creates)
        ctx.ob("C01.b", fn, "default dispatch factor before use", ok,
               "the disp_factor column must be created when absent and its NaN filled with 1 (top-level statements) before it is "
               "read: assets that do not write a factor would otherwise enter the balance with NaN / raise KeyError",
               node=(fills[0] if fills else fn.node))

    # ================================================================= C07.j embedding by the same key
    emb = None
    for lp in [s for s in au.walk_stmts(pf.body) if isinstance(s, ast.For)]:
        if any(isinstance(st, ast.Assign) and isinstance(st.targets[0], ast.Subscript) and isinstance(st.targets[0].slice, ast.Tuple)
               and any(isinstance(x, ast.Attribute) and x.attr == "A" for x in au.walk_local(st.value)) for st in au.walk_stmts(lp.body)):
            emb = lp
    if emb is None:
        ctx.ob("C07.j", pf, "embedding loop", None, "loop that embeds asset matrices not found")
    else:
        lv = au.target_names(emb.target)
        key = None
        for st in au.walk_stmts(emb.body):
            if isinstance(st, ast.Assign):
                for n in au.walk_local(st.value):
                    if isinstance(n, ast.Compare) and isinstance(n.left, ast.Subscript) and au.const_str(n.left.slice) == "asset":
                        key = au.U(n.comparators[0])
        # the column index set of the embedding  X[:, ind] = <asset problem>.A
        for st in au.walk_stmts(emb.body):
            if isinstance(st, ast.Assign) and isinstance(st.targets[0], ast.Subscript) and isinstance(st.targets[0].slice, ast.Tuple) \
                    and len(st.targets[0].slice.elts) == 2 and any(isinstance(x, ast.Attribute) and x.attr == "A" for x in au.walk_local(st.value)):
                ind = ctx.resolve(pf, st.targets[0].slice.elts[1], st)
                from_labels = any(isinstance(x, ast.Attribute) and x.attr == "index" for x in au.walk_local(ind)) or \
                    any(isinstance(x, ast.Call) and au.method_name(x) in ("unique", "drop_duplicates") for x in au.walk_local(ind))
                rng = [x for x in au.walk_local(ind) if isinstance(x, ast.Call) and au.method_name(x) in ("arange", "range")]
                offs = [x for x in au.walk_local(ind) if isinstance(x, ast.Subscript) and isinstance(x.value, ast.Name) and not isinstance(x.slice, ast.Slice)
                        and any(nm in lv for nm in au.names_in(x.slice))]
                if rng and offs and not from_labels:
                    key = key or au.U(offs[0].slice)
                    # the length of the range is the width of the embedded matrix
                    from .counts import Counter, VAR
                    wid = rng[0].args[-1] if rng[0].args else None
                    got = Counter(ctx, pf).count(wid, st) if wid is not None else None
                    ctx.ob("C07.ac", pf, au.short(ind, 70), True if got == VAR else None,
                           "the length of the column range (%s) could not be shown to be the number of variables of the embedded problem" % au.short(wid, 30),
                           node=st, ok_detail="offset of the asset + range over the width of its matrix")
                else:
                    ctx.ob("C07.ac", pf, au.short(ind, 70), False if from_labels else None,
                           "the columns are the labels that occur in the asset's mapping rows (%s): an asset with a variable that has no row - an order "
                           "outside the horizon inside a structured asset that also has restrictions - has a matrix that is wider than this index set "
                           "(ValueError: shape mismatch), and labels that do not appear in ascending order would permute the columns silently"
                           % au.short(ind, 60) if from_labels else "the column index set of the embedding was not recognised", node=st)
        for attr in ("A", "b", "cType"):
            srcs = set()
            for st in au.walk_stmts(emb.body):
                if isinstance(st, ast.Assign):
                    for n in au.walk_local(st.value):
                        if isinstance(n, ast.Attribute) and n.attr == attr and isinstance(n.value, ast.Subscript):
                            srcs.add(au.U(n.value.slice))
            ok = key is not None and srcs == {key} and au.base_name(ast.parse(key, mode="eval").body) in lv
            ctx.ob("C07.j", pf, "embedded %s is selected by %s" % (attr, key), ok,
                   "columns are selected by asset == %s but %s is taken from opt_probs[%s]: an asset's rows land in another asset's "
                   "columns" % (key, attr, sorted(srcs)), node=emb)

    # ================================================================= C01.d dispatch report
    io_fn = p.fn_opt("io.extract_output")
    ctx.require(io_fn is not None, "io.extract_output vanished")
    acc = None
    for st in au.walk_stmts(io_fn.body):
        if isinstance(st, ast.AugAssign) and isinstance(st.op, ast.Add) and au.base_name(st.target) and \
                any(isinstance(n, ast.Attribute) and n.attr == "disp_factor" or (isinstance(n, ast.Subscript) and au.const_str(n.slice) == "disp_factor")
                    for n in au.walk_local(st.value)) and "max(" not in au.U(st.value) and "min(" not in au.U(st.value):
            acc = acc or st
    # the first accumulation with a factor is the dispatch table (charge / discharge use max / min)
    if acc is None:
        ctx.ob("C01.d", io_fn, "dispatch accumulation", False,
               "no accumulation `+= x[i] * <row>.disp_factor` in the dispatch report: reported dispatch ignores transport efficiency, "
               "commodity factors and coarse-grid weights, so it does not balance at the nodes although the solution does", node=io_fn.node)
    else:
        v = acc.value
        has_x = any(isinstance(n, ast.Subscript) and au.terminal(n.value) == "x" for n in au.walk_local(v))
        is_prod = isinstance(v, ast.BinOp) and isinstance(v.op, ast.Mult)
        ctx.ob("C01.d", io_fn, "dispatch term %s" % au.short(v, 60), has_x and is_prod,
               "the reported dispatch must be x[variable] * disp_factor", node=acc)
        # the loop and its selector
        loop = next((a for a in p.ancestors(acc) if isinstance(a, ast.For)), None)
        enclosing = {}
        for a in p.ancestors(acc):
            if isinstance(a, ast.For) and a is not loop:
                for nm in au.target_names(a.target):
                    enclosing[nm] = a
        iff = ctx.flow(io_fn)
        org = ctx.origins(io_fn)
        sel_cmp = []
        if loop is not None:
            for n in org.nodes(loop.iter, loop):
                if isinstance(n, ast.Compare) and isinstance(n.left, ast.Subscript) and au.const_str(n.left.slice) in ("asset", "type", "node"):
                    sel_cmp.append((au.const_str(n.left.slice), n.comparators[0]))
        cols = {c for c, _ in sel_cmp}
        ctx.ob("C01.d", io_fn, "report rows selected by asset, type and node", {"asset", "type", "node"} <= cols,
               "the rows summed into a dispatch column must be those of one asset, of type 'd', at one node; selector tests %s" % sorted(cols),
               node=(loop or acc))
        td = [au.const_str(r) for c, r in sel_cmp if c == "type"]
        ctx.ob("C01.d", io_fn, "report rows are dispatch rows", td == ["d"] or set(td) == {"d"},
               "the dispatch report must select type == 'd' (the rows the nodal balance sums); found %s" % td, node=(loop or acc))
        bound_ok = True
        bad = []
        for c, r in sel_cmp:
            if c in ("asset", "node"):
                b = au.base_name(r)
                if b not in enclosing:
                    bound_ok = False
                    bad.append("%s == %s" % (c, au.U(r)))
        ctx.ob("C01.d", io_fn, "asset and node of the selector are bound by the enclosing loops", bound_ok,
               "selector term(s) %s use a name that is not the variable of an enclosing loop" % bad, node=(loop or acc))

    # ================================================================= C01.e node writers
    n_w = 0
    for ci in p.asset_classes():
        for fn in ci.methods.values():
            if fn.name == "__init__":
                continue
            org = None
            for st in au.walk_stmts(fn.body):
                vals = []
                if isinstance(st, ast.Assign):
                    t = st.targets[0]
                    col = None
                    if isinstance(t, ast.Subscript):
                        sl = t.slice
                        if au.const_str(sl) is not None:
                            col = au.const_str(sl)
                        elif isinstance(sl, ast.Tuple) and sl.elts:
                            last = sl.elts[-1]
                            col = au.const_str(last)
                            if col is None and isinstance(last, ast.Name):
                                # mapping.iloc[a:b, my_ind] with my_ind = mapping.columns.get_indexer(['node'])[0]
                                for d in ctx.flow(fn).defs(last.id, st):
                                    if d.value is not None and "get_indexer" in au.U(d.value):
                                        lits = [au.const_str(x) for x in au.walk_local(d.value) if au.const_str(x)]
                                        col = lits[0] if lits else None
                    if col == "node":
                        vals.append((st, st.value, au.base_name(t)))
                for n in au.walk_own(st):
                    if isinstance(n, ast.Dict):
                        for k, v in zip(n.keys, n.values):
                            if au.const_str(k) == "node":
                                vals.append((st, v, None))
                for st_, v, frame in vals:
                    n_w += 1
                    org = org or ctx.origins(fn, values_only=True)
                    nodes = org.nodes(v, st_)
                    own = any((isinstance(x, ast.Attribute) and x.attr in ("nodes", "node_names") and au.base_name(x) == "self") for x in nodes)
                    isnan = any(au.dotted(x) in ("np.nan", "numpy.nan", "np.NaN") for x in nodes if isinstance(x, ast.Attribute))
                    rename = any(au.const_str(x) and "_internal_" in au.const_str(x) for x in nodes)
                    if own:
                        ctx.ob("C01.e", fn, au.short(st_, 80), True, node=st_, ok_detail="from the asset's own nodes")
                    elif isnan or rename or any(isinstance(x, ast.Subscript) and au.const_str(x.slice) == "node" and au.base_name(x) == frame for x in nodes):
                        # initialisation idiom: the column is created (NaN / as str) and then filled from the asset's own nodes
                        later_own = frame is not None and any(
                            isinstance(s2, ast.Assign) and s2.lineno > st_.lineno and au.base_name(s2.targets[0]) == frame and
                            any(isinstance(x, ast.Attribute) and x.attr in ("nodes", "node_names") and au.base_name(x) == "self" for x in au.walk_local(s2.value))
                            and isinstance(s2.targets[0], ast.Subscript) for s2 in au.walk_stmts(fn.body))
                        if later_own and not rename:
                            ctx.ob("C01.e", fn, au.short(st_, 80), True, node=st_, ok_detail="column initialisation, filled from the asset's own nodes below", trivial=True)
                            continue
                        # must be paired with type 'i' for the same frame / selector in this function
                        paired = any(isinstance(s2, ast.Assign) and isinstance(s2.targets[0], ast.Subscript) and (
                            au.const_str(s2.targets[0].slice) == "type" or (isinstance(s2.targets[0].slice, ast.Tuple) and au.const_str(s2.targets[0].slice.elts[-1]) == "type"))
                            and au.const_str(s2.value) == "i" and (frame is None or au.base_name(s2.targets[0]) == frame) for s2 in au.walk_stmts(fn.body))
                        ctx.ob("C01.e", fn, au.short(st_, 80), paired,
                               "rows without a (portfolio-visible) node must be internal (type 'i'): a dispatch row at an unknown node is "
                               "never balanced", node=st_, ok_detail="no node / internal rename, rows are type 'i'")
                    else:
                        lit = au.const_str(v)
                        ctx.ob("C01.e", fn, au.short(st_, 80), False if lit is not None else None,
                               "the node written to the mapping (%s) does not come from the asset's own nodes: the portfolio builds its node "
                               "registry from asset.nodes, so dispatch at this node is never balanced" % au.short(v, 40), node=st_)
    ctx.require(n_w >= 10, "fewer than 10 writers of the node column found in asset classes")

    # ================================================================= C01.f structured partition
    sa = p.cls("StructuredAsset").methods.get("setup_optim_problem")
    ctx.require(sa is not None, "StructuredAsset.setup_optim_problem vanished")
    skip = None
    for c in p.calls_in(sa):
        v = au.kwarg(c, "skip_nodes")
        if v is not None:
            skip = v
    tests = []
    for st in au.walk_stmts(sa.body):
        if isinstance(st, ast.If):
            for c in au.walk_local(st.test):
                if isinstance(c, ast.Compare) and len(c.ops) == 1 and isinstance(c.ops[0], (ast.NotIn, ast.In)):
                    writes = [s2 for s2 in au.walk_stmts(st.body) if isinstance(s2, ast.Assign) and "'node'" in au.U(s2.targets[0])]
                    if writes:
                        tests.append((st, c, writes))
    ctx.ob("C01.f", sa, "skip set passed to the inner portfolio", skip is not None,
           "the inner portfolio is set up without skip_nodes: external nodes would be balanced inside the structured asset AND by the "
           "outer portfolio (twice)", node=sa.node, ok_detail=au.U(skip) if skip is not None else "")
    if skip is not None:
        # vectorised idiom: a selector `~<nodes>.isin(<skip>)` (possibly & notnull()) used to write the node / type columns
        ffs = ctx.flow(sa)
        vec = []
        for st in au.walk_stmts(sa.body):
            if not (isinstance(st, ast.Assign) and isinstance(st.targets[0], ast.Subscript)):
                continue
            tcol = au.const_str(st.targets[0].slice)
            loc_col = None
            if isinstance(st.targets[0].value, ast.Attribute) and st.targets[0].value.attr == "loc" and isinstance(st.targets[0].slice, ast.Tuple) and len(st.targets[0].slice.elts) == 2:
                loc_col = au.const_str(st.targets[0].slice.elts[1])
            col = tcol or loc_col
            if col not in ("node", "type"):
                continue
            isins = []
            for x in list(au.walk_local(st.value)) + list(au.walk_local(st.targets[0])):
                e = ctx.resolve(sa, x, st) if isinstance(x, ast.Name) else x
                for y in au.walk_local(e):
                    if isinstance(y, ast.Call) and au.method_name(y) == "isin" and y.args:
                        isins.append(y)
            if isins:
                vec.append((st, col, isins))
        if tests:
            ok = all(au.U(c.comparators[0]) == au.U(skip) and isinstance(c.ops[0], ast.NotIn) for _, c, _ in tests)
            shown = [au.U(c) for _, c, _ in tests]
        elif vec:
            ok = all(au.U(y.args[0]) == au.U(skip) for _, _, ys in vec for y in ys)
            shown = sorted({au.short(y, 40) for _, _, ys in vec for y in ys})
        else:
            ok, shown = None, []
        ctx.ob("C01.f", sa, "renamed / internal nodes are the complement of the skip set", ok,
               "nodes are renamed and marked internal under the test %s while the inner portfolio skips %s: a node must be balanced "
               "exactly once (inside if internal, outside if external)" % (shown, au.U(skip)) if ok is False else
               "neither `if n not in <skip set>:` nor a selector built with .isin(<skip set>) was found around the writes of the node column",
               node=(tests[0][0] if tests else (vec[0][0] if vec else sa.node)))
        # ---- C16.p: the type of a row is touched only where the row is internal
        type_writes = [st for st in au.walk_stmts(sa.body) if isinstance(st, ast.Assign) and isinstance(st.targets[0], ast.Subscript) and (
            au.const_str(st.targets[0].slice) == "type" or (isinstance(st.targets[0].slice, ast.Tuple) and len(st.targets[0].slice.elts) == 2
                                                           and au.const_str(st.targets[0].slice.elts[1]) == "type"))]
        if not type_writes:
            ctx.ob("C16.p", sa, "type of internal rows", None, "no write of the 'type' column found")
        for st in type_writes:
            whole = au.const_str(st.targets[0].slice) == "type"     # frame['type'] = ... : every row is written
            keeps = False
            if whole:
                v = st.value
                # np.where(internal, 'i', <old column>) / old.where(~internal, 'i') / old.mask(internal, 'i') keep the other rows
                if isinstance(v, ast.Call) and au.method_name(v) == "where" and len(v.args) == 3:
                    keeps = any(isinstance(y, ast.Subscript) and au.const_str(y.slice) == "type" for a in v.args[1:] for y in au.walk_local(ctx.resolve(sa, a, st)))
                elif isinstance(v, ast.Call) and au.method_name(v) in ("mask", "where") and isinstance(v.func, ast.Attribute):
                    keeps = any(isinstance(y, ast.Subscript) and au.const_str(y.slice) == "type" for y in au.walk_local(ctx.resolve(sa, v.func.value, st)))
            ctx.ob("C16.p", sa, au.short(st, 80), (not whole) or keeps,
                   "the 'type' column is rewritten for *every* row: rows at external nodes are not all dispatch rows - the scale variable of a scaled asset "
                   "inside the structure (type 'size', attached to the first node of its base asset) becomes a dispatch variable and enters the nodal "
                   "balance of that node as phantom inflow (value -582 instead of -672 of the flat portfolio)", node=st,
                   ok_detail="only rows selected as internal are re-typed")

    # ================================================================= C01.h factor <-> node
    mc = p.cls("MultiCommodityContract").methods.get("setup_optim_problem")
    if mc is not None:
        found = False
        for lp in [s for s in au.walk_stmts(mc.body) if isinstance(s, ast.For)]:
            if isinstance(lp.iter, ast.Call) and au.method_name(lp.iter) == "enumerate" and "self.nodes" in au.U(lp.iter) and isinstance(lp.target, ast.Tuple):
                i_name, n_name = [au.U(x) for x in lp.target.elts[:2]]
                subs = [n for n in au.walk_local(lp) if isinstance(n, ast.Subscript) and au.path(n.value) == "self.factors_commodities"]
                node_w = [s for s in au.walk_stmts(lp.body) if isinstance(s, ast.Assign) and isinstance(s.targets[0], ast.Subscript) and au.const_str(s.targets[0].slice) == "node"]
                found = True
                ok = bool(subs) and all(au.U(s.slice) == i_name for s in subs) and bool(node_w) and all(au.base_name(s.value) == n_name for s in node_w)
                ctx.ob("C01.h", mc, "factor index and node come from one enumerate(self.nodes)", ok,
                       "the rows written for node `%s` must be scaled with factors_commodities[%s]; found factor indices %s and node "
                       "values %s" % (n_name, i_name, [au.U(s.slice) for s in subs], [au.U(s.value) for s in node_w]), node=lp)
        if not found:
            ctx.ob("C01.h", mc, "commodity loop", None, "loop `for i, node in enumerate(self.nodes)` not found")

    # ================================================================= C18.a counters in optimize
    opt = p.cls("OptimProblem").methods.get("optimize")
    ctx.require(opt is not None, "OptimProblem.optimize vanished")
    cons_var = None
    init_len = None
    counter = None
    for st in au.walk_stmts(opt.body):
        if isinstance(st, ast.Assign) and isinstance(st.value, ast.List) and isinstance(st.targets[0], ast.Name) and \
                any(isinstance(e, ast.Compare) for e in st.value.elts) and cons_var is None:
            cons_var, init_len = st.targets[0].id, len(st.value.elts)
    if cons_var is None:
        ctx.ob("C18.a", opt, "constraint list", None, "initial constraint list not found")
    else:
        # counter = the name incremented inside the blocks that append to cons_var
        blocks = []
        for st in au.walk_stmts(opt.body):
            if isinstance(st, ast.If):
                apps = [s for s in st.body if isinstance(s, ast.Assign) and isinstance(s.targets[0], ast.Name) and s.targets[0].id == cons_var]
                incs = [s for s in st.body if isinstance(s, ast.AugAssign) and isinstance(s.op, ast.Add) and au.const_num(s.value) == 1]
                recs = [s for s in st.body if isinstance(s, ast.Assign) and isinstance(s.targets[0], ast.Subscript) and isinstance(s.value, ast.Name)]
                if apps and (incs or recs):
                    blocks.append((st, apps, incs, recs))
        for st, apps, incs, recs in blocks:
            n_added = 0
            for a in apps:
                for n in au.walk_local(a.value):
                    if isinstance(n, ast.List):
                        n_added += len(n.elts)
            cn = au.U(incs[0].target) if incs else None
            counter = counter or cn
            rec_ok = bool(recs) and all(au.U(r.value) == cn for r in recs) and (not incs or not recs or incs[0].lineno < recs[0].lineno)
            ok = len(incs) == 1 and n_added == 1 and rec_ok
            ctx.ob("C18.a", opt, "row class block `if %s`" % au.short(st.test, 30), ok,
                   "in a row-class block exactly one constraint must be appended and the counter incremented exactly once before it is "
                   "recorded for the letter (found %d appended, %d increment(s), record %s): otherwise duals are read from the wrong "
                   "constraint" % (n_added, len(incs), [au.U(r) for r in recs]), node=st)
        if counter is not None:
            init = [s for s in au.walk_stmts(opt.body) if isinstance(s, ast.Assign) and au.U(s.targets[0]) == counter and au.const_num(s.value) is not None]
            ok = bool(init) and au.const_num(init[0].value) == init_len - 1
            ctx.ob("C18.a", opt, "initial counter", ok,
                   "the constraint list starts with %s entries, so the position of the last one is %s; the counter starts at %s" % (
                       init_len, init_len - 1, au.const_num(init[0].value) if init else "?"), node=(init[0] if init else opt.node))

    # ================================================================= C18.b no asset returns rows under letter N
    L = Letters(ctx)
    n_checked = 0
    for ci in sorted(p.asset_classes(), key=lambda c: c.name):
        fn = ci.methods.get("setup_optim_problem")
        if fn is None or all(isinstance(s, (ast.Pass, ast.Expr)) for s in fn.body):
            continue
        n_checked += 1
        may_n, why = _returns_letter_n(ctx, L, fn, set())
        if may_n and why.startswith("through "):
            # inherited through super(): the finding belongs to the set-up that obtains the inner portfolio's problem
            ctx.ob("C18.b", fn, "rows returned under letter N", True, node=fn.node, ok_detail="inherits the problem of its parent's set-up (%s)" % why, trivial=True)
            continue
        ctx.ob("C18.b", fn, "rows returned under letter N", not may_n,
               "%s can return rows with letter 'N' (%s). The solver interface collects *every* row with that letter into duals['N'], but "
               "(step, node) records exist only for the rows the outer portfolio creates, and asset rows come first: the prices of "
               "external nodes are read from the duals of internal nodes (flat portfolio: B = 10; wrapped: B reported as 1..4)" % (fn.qualname, why),
               node=fn.node)
    ctx.require(n_checked >= 10, "fewer than 10 asset set-ups checked for letter N")
    # duals['N'][ii] with ii the enumerate counter of the records
    if io_fn is not None:
        # every read duals['N'][k]: k is the position in the *whole* list of records (enumerate(op.map_nodal_restr)) - not in a selection of it
        for lp in [s for s in au.walk_stmts(io_fn.body) if isinstance(s, ast.For)]:
            subs_n = [n for n in au.walk_local(lp) if isinstance(n, ast.Subscript) and isinstance(n.value, ast.Subscript) and au.const_str(n.value.slice) == "N"]
            if not subs_n or not (isinstance(lp.iter, ast.Call) and au.method_name(lp.iter) == "enumerate" and lp.iter.args):
                continue
            src = ctx.resolve(io_fn, lp.iter.args[0], lp)
            whole = isinstance(src, ast.Attribute) and src.attr == "map_nodal_restr"
            if not whole:
                derived = any(isinstance(y, ast.Attribute) and y.attr == "map_nodal_restr" for y in au.walk_local(src))
                ctx.ob("C18.b", io_fn, "duals['N'] indexed by the record counter", False if derived else None,
                       "the counter that indexes duals['N'] runs over %s - a *selection* of the records: position k in the selection is not row k of the nodal "
                       "restrictions. Reporting for a part of the portfolio (the assets of node B only) shows the duals of the first rows - node A's - "
                       "under node B (reported price 10 where the marginal value is 19)" % au.short(src, 60), node=lp)
        for lp in [s for s in au.walk_stmts(io_fn.body) if isinstance(s, ast.For)]:
            if "map_nodal_restr" in au.U(lp.iter) and isinstance(lp.iter, ast.Call) and au.method_name(lp.iter) == "enumerate":
                cnt = au.target_names(lp.target)[0]
                subs = [n for n in au.walk_local(lp) if isinstance(n, ast.Subscript) and isinstance(n.value, ast.Subscript) and au.const_str(n.value.slice) == "N"]
                ok = bool(subs) and all(au.U(s.slice) == cnt for s in subs)
                ctx.ob("C18.b", io_fn, "duals['N'] indexed by the record counter", ok,
                       "the k-th record must be paired with the k-th nodal dual; found index %s with counter %s" % ([au.U(s.slice) for s in subs], cnt), node=lp)


        # ---- C18.f: the node (and the step) under which a dual is reported come from the record that is paired with it
        labels = []
        for st in au.walk_stmts(io_fn.body):
            for x in au.walk_own(st):
                if isinstance(x, ast.BinOp) and isinstance(x.op, ast.Add) and any(
                        (au.const_str(y) or "").startswith("nodal price") for y in (x.left, x.right)):
                    labels.append((st, x))
        if not labels:
            ctx.ob("C18.f", io_fn, "label of a nodal price", None, "no label 'nodal price: ' + <node> found in the report")
        orgio = ctx.origins(io_fn, values_only=True)
        for st, x in labels:
            other = x.right if au.const_str(x.left) is not None else x.left
            nodes_ = orgio.nodes(other, st) + [other]
            from_record = any("map_nodal_restr" in au.U(y) for y in nodes_ if isinstance(y, (ast.Attribute, ast.Call, ast.Subscript, ast.Name))) or any(
                isinstance(a, ast.For) and "map_nodal_restr" in au.U(a.iter) and (set(au.target_names(a.target)) & au.names_in(other)) for a in p.ancestors(x))
            # comprehension variables: label built in [... for n in <iter>]
            comp = [a for a in p.ancestors(x) if isinstance(a, (ast.ListComp, ast.GeneratorExp))]
            for cmp_ in comp:
                for g in cmp_.generators:
                    if set(au.target_names(g.target)) & au.names_in(other):
                        from_record = "map_nodal_restr" in au.U(g.iter) or any("map_nodal_restr" in au.U(y) for y in orgio.nodes(g.iter, st))
            ctx.ob("C18.f", io_fn, au.short(x, 60), from_record,
                   "the node in the label %s does not come from the (step, node) record that is paired with the dual: the k-th dual belongs to the "
                   "k-th record, whatever order the portfolio lists its nodes in - nodes enumerated another way (portf.nodes, a factorisation by "
                   "first appearance) agree with the records only while every node has rows from the first step on: in a split optimisation with a "
                   "node that becomes active on day 2 the power prices are reported as gas prices" % au.short(x, 40), node=x,
                   ok_detail="node taken from the record")


def _returns_letter_n(ctx, L, fn, seen):
    """Can the problem returned by this set-up carry rows under letter 'N'?"""
    p = ctx.p
    if fn in seen:
        return False, ""
    seen.add(fn)
    # own producers
    own = False
    stripped = False
    for st in au.walk_stmts(fn.body):
        if isinstance(st, (ast.Assign, ast.AugAssign)) and st.value is not None:
            for t in au.stmt_targets(st):
                if au.terminal(t) == "cType" and isinstance(t, (ast.Name, ast.Attribute)):
                    if isinstance(st.value, ast.Call) and au.method_name(st.value) == "replace" and st.value.args and au.const_str(st.value.args[0]) == "N" \
                            and au.const_str(st.value.args[1]) not in (None, "N"):
                        stripped = True
                        continue
                    ls = L.of(st.value, fn, st)
                    if ls is None or "N" in ls:
                        own = own or (ls is not None)
    if own and not stripped:
        return True, "appends the letter itself"
    if stripped:
        return False, ""
    # problem obtained from another set-up
    for c in p.calls_in(fn):
        if au.method_name(c) != "setup_optim_problem":
            continue
        targets = []
        f = c.func
        if isinstance(f, ast.Attribute):
            v = f.value
            if isinstance(v, ast.Call) and isinstance(v.func, ast.Name) and v.func.id == "super":
                targets = p.resolve_call(c, fn)
            else:
                ch = au.attr_chain(v)
                if ch and ch[0] == "self" and len(ch) == 2:
                    # type of self.<attr> from the annotation of the constructor parameter it is stored from
                    tcls = _attr_class(p, fn.cls, ch[1])
                    if tcls is not None:
                        m = p.resolve_method(tcls, "setup_optim_problem")
                        targets = [m] if m else []
        for t in targets:
            if t.cls is not None and t.cls.name == "Portfolio":
                return True, "returns the problem of %s.setup_optim_problem, which appends 'N' rows" % t.cls.name
            r, why = _returns_letter_n(ctx, L, t, seen)
            if r:
                return True, "through %s: %s" % (t.qualname, why)
    return False, ""


def _attr_class(p, ci, attr):
    if ci is None:
        return None
    for c in p.mro(ci):
        init = c.methods.get("__init__")
        if init is None:
            continue
        for st in au.walk_stmts(init.body):
            if isinstance(st, ast.Assign) and any(au.path(t) == "self." + attr for t in st.targets) and isinstance(st.value, ast.Name):
                for a in init.node.args.args + init.node.args.kwonlyargs:
                    if a.arg == st.value.id and a.annotation is not None:
                        nm = au.terminal(a.annotation)
                        if nm in p.classes:
                            return p.classes[nm]
    return None
