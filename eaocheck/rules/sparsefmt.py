"""Analyses 25 / 26 and small leftovers: C13.d (merge aggregators), C13.f (sparse-format typestate), C15.d (nothing else is
pinned), C04.c (summary value and cash-flow table).

C13.f  A scipy sparse matrix is subscripted only in a format that supports it.  Formats are tracked through the producers
       the code uses (sp.vstack / hstack / tril -> coo, sp.eye / diags -> dia, lil_matrix / .tolil() -> lil, csr_matrix /
       csc_matrix -> csr / csc).  The entry state of `<problem>.A` in a method is the union of the formats any eaopack code
       assigns to an `A` attribute or passes as `A=` (closed world).  A read subscript needs lil / csr / csc, an item
       assignment lil (csr / csc work but are not used by eaopack).
"""
from __future__ import annotations
import ast
from .. import astutil as au
from ..flow import Domain, Walker
from ..carriers import local_roles, role
from ..tables import rule
from . import analysis

rule("C13.d", "periodic merge: costs and matrix columns of joined variables are summed (value preserving); only bounds may be averaged", floor=2)
rule("C13.g", "periodic merge: a group of variables is joined once, although the loop visits mapping rows and a variable can have several "
              "rows (transport: one per node) - accumulating updates are protected by a visited set", floor=1)
rule("C13.h", "periodic merge: a variable that has been merged away is not chosen as leading variable of a later group (and a leading "
              "variable is not merged away later): the loop consults the set of removed variables", floor=1, props=["C13", "C07"])
rule("C13.j", "periodic merge: the position of a step within its period is counted from the period boundary - for a grid that starts inside a "
              "period (calendar-anchored periodicity such as 'W') the counter of the first, partial period starts at the position of the first "
              "time point in that period, not at 0", floor=1)
rule("C13.f", "a scipy sparse matrix is subscripted only in a format that supports it (lil / csr / csc; item assignment: lil)", floor=20,
     props=["C13", "C07"])
rule("C15.d", "inside the fix-window branch only the bounds l and u are written", floor=1)
rule("C04.c", "the summary value is the optimiser's value and the cash-flow table has one column per asset, produced by that asset's dcf", floor=2)

TOP = "?"
PRODUCERS = {"lil_matrix": "lil", "csr_matrix": "csr", "csc_matrix": "csc", "coo_matrix": "coo", "dia_matrix": "dia",
             "vstack": "coo", "hstack": "coo", "tril": "coo", "triu": "coo", "kron": "coo", "block_diag": "coo",
             "eye": "dia", "identity": "dia", "diags": "dia"}
CONVERT = {"tolil": "lil", "tocsr": "csr", "tocsc": "csc", "tocoo": "coo", "todia": "dia"}
READ_OK = {"lil", "csr", "csc"}
WRITE_OK = {"lil", "csr", "csc"}


def _fmt_of(e, env, attr_summary):
    """set of formats of an expression, or {TOP}."""
    if isinstance(e, ast.Call):
        m = au.method_name(e)
        cn = au.call_name(e) or ""
        if m in PRODUCERS and (cn.startswith("sp.") or cn.startswith("scipy.") or cn == m):
            return {PRODUCERS[m]}
        if m in CONVERT and isinstance(e.func, ast.Attribute):
            return {CONVERT[m]}
        if m == "copy" and isinstance(e.func, ast.Attribute):
            return _fmt_of(e.func.value, env, attr_summary)
        return {TOP}
    if isinstance(e, ast.Subscript):
        base = _fmt_of(e.value, env, attr_summary)
        return base if base <= READ_OK else {TOP}
    if isinstance(e, (ast.Name, ast.Attribute)):
        k = au.path(e)
        if k in env:
            return set(env[k])
        if isinstance(e, ast.Attribute) and e.attr == "A" and au.base_name(e) == "self":
            return set(attr_summary)
        return {TOP}
    if isinstance(e, ast.UnaryOp):
        return {TOP}
    return {TOP}


class _Fmt(Domain):
    def __init__(self, attr_summary, is_problem_method):
        self.attr_summary = attr_summary
        self.is_pm = is_problem_method

    def initial(self, fn):
        return {}

    def join(self, a, b):
        if a is b:
            return a
        out = {}
        for k in set(a) | set(b):
            if k in a and k in b:
                out[k] = a[k] | b[k]
            else:
                # known on one path only: unknown on the other
                out[k] = (a.get(k) or b.get(k)) | frozenset([TOP]) if not (k == "self.A" and self.is_pm) else \
                    (a.get(k) or b.get(k)) | frozenset(self.attr_summary)
        return out

    def stmt(self, s, node):
        if isinstance(node, ast.Assign) and len(node.targets) == 1:
            t = node.targets[0]
            k = au.path(t) if isinstance(t, (ast.Name, ast.Attribute)) else None
            if k:
                f = _fmt_of(node.value, s, self.attr_summary if self.is_pm else {TOP})
                s = dict(s)
                s[k] = frozenset(f)
        return s


@analysis("sparsefmt", ["C13.d", "C13.f", "C13.g", "C13.h", "C13.j", "C15.d", "C04.c"])
def run(ctx):
    p = ctx.p
    # ================================================================= C13.f
    # closed-world summary of the formats an `A` attribute / A= argument can have
    summary = set()
    for fn in p.all_functions():
        for st in au.walk_stmts(fn.body):
            if isinstance(st, ast.Assign) and isinstance(st.targets[0], ast.Attribute) and st.targets[0].attr == "A":
                summary |= _fmt_of(st.value, {}, {TOP})
            for n in au.walk_own(st):
                if isinstance(n, ast.Call) and au.method_name(n) == "OptimProblem":
                    a = au.kwarg(n, "A")
                    if a is not None:
                        if isinstance(a, ast.Name):
                            # formats of the local at that point: all its definitions in the function
                            for d in ctx.flow(fn).all_defs(a.id):
                                if d.kind == "assign" and d.value is not None:
                                    summary |= _fmt_of(d.value, {}, {TOP})
                        else:
                            summary |= _fmt_of(a, {}, {TOP})
    summary.discard(TOP)
    ctx.require(summary, "no producer of a problem matrix found", rules=['C13.f'])
    n_sub = 0
    for fn in sorted(p.all_functions(), key=lambda f: f.qualname):
        if fn.parent is not None:
            continue
        is_pm = fn.cls is not None and fn.cls.name in ("OptimProblem", "SplitOptimProblem")
        dom = _Fmt(summary, is_pm)
        w = Walker(dom)
        hits = []

        def on_stmt(node, state, hits=hits, is_pm=is_pm):
            for n in au.walk_own(node):
                if not isinstance(n, ast.Subscript):
                    continue
                k = au.path(n.value) if isinstance(n.value, (ast.Name, ast.Attribute)) else None
                if k is None:
                    continue
                if k in state:
                    f = set(state[k])
                elif k == "self.A" and is_pm:
                    f = set(summary)
                else:
                    continue
                hits.append((n, k, f, isinstance(n.ctx, ast.Store)))
        w.on_stmt = on_stmt
        w.run_function(fn)
        seen = {}
        for n, k, f, store in hits:
            key = id(n)
            if key in seen:
                seen[key][2].update(f)
            else:
                seen[key] = [n, k, set(f), store]
        for n, k, f, store in seen.values():
            if f == {TOP}:
                continue
            n_sub += 1
            bad = {x for x in f if x != TOP and x not in (WRITE_OK if store else READ_OK)}
            ok = not bad if TOP not in f or bad else (None if TOP in f else True)
            if bad:
                ok = False
            ctx.ob("C13.f", fn, au.short(n, 70), ok,
                   "%s can be in format %s here, which does not support %s: on the path where no conversion happened (e.g. nothing to "
                   "merge, so tolil() never ran) this raises TypeError: '%s_matrix' object is not subscriptable" % (
                       k, sorted(bad), "item assignment" if store else "subscripting", sorted(bad)[0] if bad else "?"),
                   node=n, ok_detail="format %s" % sorted(f))
    ctx.require(n_sub >= 15, "fewer than 15 typed sparse subscripts found", rules=['C13.f'])

    # ================================================================= C13.d
    mp = p.cls("OptimProblem").methods.get("__make_periodic__")
    ctx.require(mp is not None, "OptimProblem.__make_periodic__ vanished", rules=['C13.d', 'C13.g'])
    n_d = 0
    for st in au.walk_stmts(mp.body):
        if isinstance(st, (ast.Assign, ast.AugAssign)):
            t = au.stmt_targets(st)[0]
            if isinstance(t, ast.Subscript) and au.path(t.value) in ("self.c", "self.A"):
                calls = [au.method_name(x) for x in au.walk_local(st.value) if isinstance(x, ast.Call) and au.method_name(x) in ("sum", "mean", "min", "max", "average", "median")]
                if not calls:
                    continue
                n_d += 1
                what = "costs" if au.path(t.value) == "self.c" else "matrix columns"
                ctx.ob("C13.d", mp, au.short(st, 80), set(calls) == {"sum"},
                       "the %s of joined variables are aggregated with %s: the leading variable stands for all of them, so their %s must be "
                       "*summed* - anything else changes the value of the periodic problem" % (what, sorted(set(calls)), what), node=st)
    ctx.require(n_d >= 2, "aggregation of costs / columns in the periodic merge not found", rules=['C13.d'])

    # ================================================================= C13.g
    aggs = []
    for st in au.walk_stmts(mp.body):
        if isinstance(st, (ast.Assign, ast.AugAssign)):
            t = au.stmt_targets(st)[0]
            if isinstance(t, ast.Subscript) and au.path(t.value) in ("self.c", "self.A", "self.l", "self.u"):
                reads_self = any(isinstance(x, ast.Subscript) and au.path(x.value) == au.path(t.value) for x in au.walk_local(st.value)) \
                    or isinstance(st, ast.AugAssign)
                if reads_self and any(isinstance(a, ast.For) for a in ctx.p.ancestors(st)):
                    aggs.append(st)
    if not aggs:
        ctx.ob("C13.g", mp, "accumulating updates of the merge", None, "no accumulating update of c / A found inside the merge loop")
    else:
        org = ctx.origins(mp)
        first = min(aggs, key=lambda s: s.lineno)
        # where do the labels come from?
        t = au.stmt_targets(first)[0]
        lab_nodes = org.nodes(t.slice, first)
        masks = [x for x in lab_nodes if isinstance(x, ast.Subscript) and isinstance(x.value, ast.Attribute) and x.value.attr == "index"
                 and "mapping" in au.U(x.value)]
        cols = {au.const_str(y.slice) for x in lab_nodes for y in au.walk_local(x) if isinstance(y, ast.Subscript) and au.const_str(y.slice)}
        dedup = any(isinstance(x, ast.Call) and au.method_name(x) in ("unique", "drop_duplicates", "duplicated") for m in masks for x in au.walk_local(m)) or \
            any(isinstance(x, ast.Call) and au.method_name(x) in ("unique", "drop_duplicates") and any(m is y for m in masks for y in ast.walk(x)) for x in lab_nodes)
        # visited guard: `if <label> in <S>: continue` before the update in an enclosing block of the innermost loop,
        # or the update nested under `if <label> not in <S>`, with S.add(..) / S.update(..) in the loop
        guard = None
        loops = [a for a in ctx.p.ancestors(first) if isinstance(a, ast.For)]
        inner = loops[0] if loops else None
        grown = {au.base_name(x.func) for x in au.walk_local(inner) if isinstance(x, ast.Call) and au.method_name(x) in ("add", "update", "append", "extend")
                 and isinstance(x.func, ast.Attribute)} if inner is not None else set()
        if inner is not None:
            for s2 in au.walk_stmts(inner.body):
                if not isinstance(s2, ast.If) or s2.lineno > first.lineno:
                    continue
                for c in au.walk_local(s2.test):
                    if isinstance(c, ast.Compare) and len(c.ops) == 1 and isinstance(c.ops[0], (ast.In, ast.NotIn)) and isinstance(c.comparators[0], ast.Name) \
                            and c.comparators[0].id in grown:
                        is_in = isinstance(c.ops[0], ast.In)
                        skips = any(isinstance(x, (ast.Continue, ast.Break)) for x in au.walk_stmts(s2.body))
                        contains = any(first is x for x in au.walk_stmts(s2.body))
                        if (is_in and skips and not contains) or (not is_in and contains):
                            guard = s2
        # the visited set has to survive the whole loop nest: created before the outermost loop that encloses the update
        scoped = None
        if guard is not None:
            sname = next(c.comparators[0].id for c in au.walk_local(guard.test) if isinstance(c, ast.Compare) and isinstance(c.comparators[0], ast.Name)
                         and c.comparators[0].id in grown)
            inits = [s2 for s2 in au.walk_stmts(mp.body) if isinstance(s2, ast.Assign) and any(isinstance(t0, ast.Name) and t0.id == sname for t0 in s2.targets)]
            inside = [s2 for s2 in inits if any(isinstance(a, ast.For) and any(a is l for l in loops) for a in ctx.p.ancestors(s2))]
            if inside:
                scoped = (sname, inside[0])
        if scoped is not None:
            ctx.ob("C13.g", mp, "each group of variables is joined once", False,
                   "the set `%s` of variables already joined is (re)created inside the loop nest (line %s): it does not survive the loop over "
                   "the nodes, so a variable with one mapping row per node (Transport) is joined once per node again - its cost becomes "
                   "2 S - c0 and its restriction columns double" % (scoped[0], scoped[1].lineno), node=scoped[1])
        elif guard is not None or dedup and "node" not in cols:
            ctx.ob("C13.g", mp, "each group of variables is joined once", True, node=first,
                   ok_detail=("visited set: %s" % au.short(guard.test, 50)) if guard is not None else "labels de-duplicated, rows not grouped by node")
        elif masks and "node" in cols:
            ctx.ob("C13.g", mp, "each group of variables is joined once", False,
                   "the merge loop groups mapping *rows* by %s and takes the variables of a group from the row labels; a variable with one row "
                   "per node (Transport, ExtendedTransport) is visited once per node, and the accumulating updates (%s ...) are applied "
                   "again: its cost becomes c0 + 2 c1 and its restriction columns double - a periodic transport with costs_const=1 over "
                   "two days has total cost 72 instead of 48" % (sorted(c for c in cols if c), au.short(first, 50)), node=first)
        else:
            ctx.ob("C13.g", mp, "each group of variables is joined once", None, "origin of the labels of the joined variables not recognised", node=first)

    # ================================================================= C13.h
    removed = set()
    for st in au.walk_stmts(mp.body):
        for x in au.walk_own(st):
            if isinstance(x, ast.Call) and au.call_name(x) in ("np.delete", "numpy.delete") and len(x.args) >= 2 and isinstance(x.args[1], ast.Name):
                removed.add(x.args[1].id)
    lead_defs = [st for st in au.walk_stmts(mp.body) if isinstance(st, ast.Assign) and isinstance(st.value, ast.Subscript)
                 and au.const_num(st.value.slice) == 0 and any(isinstance(a, ast.For) for a in ctx.p.ancestors(st))]
    if removed and lead_defs:
        consulted = any(isinstance(c, ast.Compare) and isinstance(c.ops[0], (ast.In, ast.NotIn)) and isinstance(c.comparators[0], ast.Name)
                        and c.comparators[0].id in removed for c in au.walk_local(mp.node)) or \
            any(isinstance(c, ast.Call) and au.method_name(c) in ("isin", "in1d", "setdiff1d", "difference") and (removed & au.names_in(c)) for c in au.walk_local(mp.node))
        ctx.ob("C13.h", mp, "leading variables are not among the removed ones", consulted,
               "the loop takes the first variable of each group as leading variable and adds the others to %s, but never looks into that set: "
               "when groups overlap - a variable of a coarser asset frequency that spans two periods belongs to two groups - a variable can be "
               "leading in one group and removed in another; its rows (and those redirected to it) end up with label -1, i.e. point to no "
               "variable (stand-alone) or to the previous asset's last variable (in a portfolio): SimpleContract(freq='2d', periodicity='W') "
               "on a daily grid has 3 variables and labels -1 .. 2" % "/".join(sorted(removed)), node=lead_defs[0],
               key="leading variables are not among the removed ones")
    else:
        ctx.ob("C13.h", mp, "leading variables are not among the removed ones", None, "leading variable / removed set not recognised")

    # ================================================================= C13.j
    resets = []
    for iff in [s0 for s0 in au.walk_stmts(mp.body) if isinstance(s0, ast.If) and any(isinstance(a, ast.For) for a in ctx.p.ancestors(s0))]:
        if not any(isinstance(c, ast.Compare) for c in au.walk_local(iff.test)):
            continue
        for s1 in iff.body:
            if isinstance(s1, ast.Assign) and isinstance(s1.targets[0], ast.Name) and au.const_num(s1.value) == 0:
                # the boundary sequence the reset belongs to
                seqs = {x.value.id for x in au.walk_local(iff.test) if isinstance(x, ast.Subscript) and isinstance(x.value, ast.Name)}
                resets.append((s1.targets[0].id, seqs, s1))
    if not resets:
        ctx.ob("C13.j", mp, "position counter of the period", None, "no counter that is reset at a period boundary found")
    for cname, seqs, st in resets:
        offs = [s2 for s2 in au.walk_stmts(mp.body) if isinstance(s2, ast.Assign) and any(isinstance(t0, ast.Name) and t0.id == cname for t0 in s2.targets)
                and au.const_num(s2.value) is None and (seqs & au.names_in(s2.value)) and not (cname in au.names_in(s2.value))]
        ctx.ob("C13.j", mp, "counter %s starts at the position of the first time point in its period" % cname, bool(offs),
               "%s counts the position of a step within its period and is only ever set to 0 (at a boundary) or incremented: for a grid "
               "that starts inside a period its first, partial period is counted from 0 as well, so step k of the grid is tied to step k of "
               "every later period instead of the step at the same calendar position - grid starting on a Friday with periodicity 'W': "
               "Friday is forced equal to the Sundays, Saturday to the Mondays" % cname, node=st,
               key="position counter starts at the position of the first time point in its period")

    # ================================================================= C15.d
    pf = p.fn_opt("Portfolio.setup_optim_problem")
    ctx.require(pf is not None, "Portfolio.setup_optim_problem vanished", rules=['C15.d'])
    fix_if = [s2 for s2 in au.walk_stmts(pf.body) if isinstance(s2, ast.If) and "fix_time_window" in au.names_in(s2.test)]
    ctx.require(bool(fix_if), "fix_time_window branch vanished", rules=['C15.d'])
    roles = local_roles(pf)
    other = []
    for s2 in au.walk_stmts(fix_if[0].body):
        for t in au.stmt_targets(s2):
            if isinstance(t, ast.Subscript):
                r = role(t.value, roles)
                if r in ("c", "b", "A", "cType", "mapping"):
                    other.append((s2, r))
            elif isinstance(t, (ast.Name, ast.Attribute)) and role(t, roles) in ("c", "b", "A", "cType", "mapping") and isinstance(s2, (ast.Assign, ast.AugAssign)):
                other.append((s2, role(t, roles)))
    ctx.ob("C15.d", pf, "only bounds are written in the fix-window branch", not other,
           "fixing a window must pin variables through l and u only; this branch also writes %s: the objective / restrictions of the "
           "rebuilt problem differ from the original, so the value changes although prices did not" % sorted({r for _, r in other}),
           node=(other[0][0] if other else fix_if[0]))

    # ================================================================= C04.c
    io_fn = p.fn_opt("io.extract_output")
    ctx.require(io_fn is not None, "io.extract_output vanished", rules=['C04.c'])
    val = [st for st in au.walk_stmts(io_fn.body) if isinstance(st, ast.Assign) and isinstance(st.targets[0], ast.Subscript)
           and au.const_str(st.targets[0].slice) == "value"]
    ok = bool(val) and all(isinstance(st.value, ast.Attribute) and st.value.attr == "value" and isinstance(st.value.value, ast.Name)
                           and io_fn.param(st.value.value.id) is not None for st in val)
    ctx.ob("C04.c", io_fn, "summary value", ok, "the reported portfolio value must be the optimiser's result value (res.value), found %s" % [
        au.short(st.value, 40) for st in val], node=(val[0] if val else io_fn.node))
    found = False
    for lp in [s for s in au.walk_stmts(io_fn.body) if isinstance(s, ast.For)]:
        for st in lp.body:
            if isinstance(st, ast.Assign) and isinstance(st.value, ast.Call) and au.method_name(st.value) == "dcf" and isinstance(st.targets[0], ast.Subscript):
                found = True
                lv = au.target_names(lp.target)
                recv = au.base_name(st.value.func)
                keyb = au.base_name(st.targets[0].slice)
                ok = recv in lv and keyb == recv and "assets" in au.U(lp.iter)
                ctx.ob("C04.c", io_fn, au.short(st, 70), ok,
                       "each asset of the portfolio must get exactly one cash-flow column, computed by its own dcf and keyed by its own name", node=st)
    if not found:
        ctx.ob("C04.c", io_fn, "cash-flow table", None, "loop filling the DCF table not found")
