"""Analyses 15 (label typestate) and 28 (SLP / robust agreement): C07.e = C17.e, C17.b, C17.c, C17.d, C17.f.

C07.e  label typestate of mapping frames.  reset_index(drop=True) renumbers *rows*; that is the right thing after new-variable
       rows with default labels were concatenated to a frame built here with one row per variable, and it destroys the
       labelling of a frame that may carry several rows per variable (any frame received from another set-up).  Conversely
       new-variable rows concatenated with default labels must be renumbered (reset or explicit offset).
C17.b  make_slp: l, u, c, the sample costs, the future columns of A, the columns zeroed in the present-only copy and the
       duplicated mapping rows use ONE future selector, and the zeroing exists
C17.c  the original future costs and every sample are divided by the same (nS + 1)
C17.d  b and cType are repeated nS + 1 times and A has 1 + nS row blocks
C17.f  the robust epigraph: sample constraints, the recomputed value and the plain objective use the same sign of c
"""
from __future__ import annotations
import ast
from .. import astutil as au
from ..tables import rule
from . import analysis
from .spaces import Typer

rule("C07.e", "reset_index(drop=True) is applied to a mapping only where the frame was built here with one row per variable; "
              "new-variable rows concatenated with default labels are renumbered", floor=5, props=["C07", "C17"])
rule("C17.b", "make_slp uses one future selector for l, u, c, sample costs, columns of A, the zeroed present copy and the mapping", floor=6)
rule("C17.h", "make_slp: a variable is a present (first-stage) variable only if *all* its mapping rows lie in the present - the "
              "classification looks at every row of a variable, not at one representative row", floor=1)
rule("C17.j", "robust target: the scenario set is the set of samples - every constraint that bounds the auxiliary minimum variable is "
              "built from the loop variable over the samples; the problem's own cost vector is not an extra scenario", floor=1)
rule("C17.c", "original future costs and every sample are divided by the same (nS + 1)", floor=2)
rule("C17.d", "b and cType are repeated nS + 1 times and A is the original plus nS stacked blocks", floor=3)
rule("C17.k", "make_slp: every restriction row is repeated for every sample - the present and future parts that make up a sample block are "
              "column splits of A only; rows are left out at most where a row has no entry on future variables (counted, not summed)", floor=2)
rule("C17.l", "make_slp: the scenarios are the user's samples, one to one - the number of samples and the list of cost samples that "
              "is appended are the whole list (or its image under create_cost_samples), never a selection (no de-duplication, filter, subset)", floor=1)
rule("C17.o", "make_slp: the future selector has one entry per *variable* of the problem: it subscripts l, u, c and the columns of A. A mask "
              "read off the de-duplicated mapping has one entry per variable that has a mapping row - an order outside the grid has none (C07.b): "
              "the selector is brought to the full variable range (reindex over range(m) / a mask of length m) before it is used", floor=1)
rule("C17.n", "make_slp: present and future partition the grid at one boundary - the sub-grid of the future starts at, and the sub-grid of the "
              "present ends at, the same expression (start_future); a boundary that is rounded or shifted on one side (ceil to the frequency: the "
              "epoch raster, not the grid's) makes steps of the future first-stage decisions", floor=1)
rule("C17.m", "robust target: the scenarios are the samples as given - the list that the scenario constraints are built from is the `samples` "
              "argument itself (or a plain array / list copy of it); it is not transposed, reshaped or re-ordered on the way (a transpose "
              "decided from the shape is wrong exactly when the number of samples equals the number of variables)", floor=1)
rule("C17.f", "robust target: sample constraints, recomputed value and plain objective use the same sign of c", floor=3, props=["C17", "C03"])

# confirmed exception (one line of reason)
RESET_EXCEPTIONS = {
    "CHPAsset.setup_optim_problem": "a coarse freq is rejected before (Freq of asset ... unequal), so the inherited frame has one row per "
                                    "variable; heat and binary rows appended by the helpers are new variables with colliding labels",
}


def _is_reset_drop(call) -> bool:
    if not (isinstance(call, ast.Call) and au.method_name(call) == "reset_index"):
        return False
    d = au.kwarg(call, "drop")
    return isinstance(d, ast.Constant) and d.value is True


def _fresh_frames(fn):
    """locals assigned pd.DataFrame() / pd.DataFrame(columns=...) in fn (built here, default RangeIndex)."""
    out = set()
    for st in au.walk_stmts(fn.body):
        if isinstance(st, ast.Assign) and isinstance(st.targets[0], ast.Name) and isinstance(st.value, ast.Call) \
                and (au.call_name(st.value) or "").endswith("DataFrame") and not st.value.args:
            out.add(st.targets[0].id)
    return out


@analysis("slp", ["C07.e", "C17.b", "C17.c", "C17.d", "C17.f", "C17.h", "C17.j", "C17.k", "C17.l", "C17.m", "C17.n", "C17.o"])
def run(ctx):
    p = ctx.p
    # ================================================================= C07.e
    for fn in sorted(p.all_functions(), key=lambda f: f.qualname):
        if fn.parent is not None:
            continue
        ty = None
        fresh = None
        for st in au.walk_stmts(fn.body):
            for n in au.walk_own(st):
                if _is_reset_drop(n) and isinstance(n.func, ast.Attribute):
                    ty = ty or Typer(ctx, fn)
                    recv = n.func.value
                    if not ty.is_mapping(recv, st):
                        continue
                    fresh = fresh if fresh is not None else _fresh_frames(fn)
                    built_here = isinstance(recv, ast.Name) and recv.id in fresh
                    exc = RESET_EXCEPTIONS.get(fn.qualname)
                    ok = built_here or exc is not None
                    # ... and the frame has not been given several rows per variable in between (extension to the minor grid)
                    multi = [s2 for s2 in au.walk_stmts(fn.body) if s2.lineno < st.lineno and isinstance(s2, ast.Assign) and isinstance(recv, ast.Name)
                             and any(isinstance(t0, ast.Name) and t0.id == recv.id for t0 in s2.targets) and isinstance(s2.value, ast.Call)
                             and "extend_mapping_to_minor_grid" in (au.method_name(s2.value) or "")]
                    if multi and ok:
                        ctx.ob("C07.e", fn, au.short(n, 80), False,
                               "%s was extended to the minor grid at line %s - one row per fine step, i.e. several rows per variable - before "
                               "reset_index(drop=True) renumbers its rows: the labels no longer enumerate variables (rows point to variable no. "
                               "146 of a problem with 9 variables)" % (au.short(recv, 40), multi[0].lineno), node=n)
                        continue
                    ctx.ob("C07.e", fn, au.short(n, 80), ok,
                           "%s may carry several rows per variable (it was not built in this function); reset_index(drop=True) replaces the "
                           "labels by row numbers, so the index no longer enumerates variables: with a Transport in the portfolio the SLP "
                           "mapping points past the end of c (IndexError in dcf)" % au.short(recv, 40), node=n,
                           ok_detail="frame built here with one row per variable" if built_here else ("exception: " + (exc or "")))
        # new-variable rows with default labels
        for st in au.walk_stmts(fn.body):
            if not (isinstance(st, ast.Assign) and isinstance(st.value, ast.Call) and au.method_name(st.value) == "concat" and st.value.args
                    and isinstance(st.value.args[0], (ast.List, ast.Tuple)) and len(st.value.args[0].elts) == 2):
                continue
            ty = ty or Typer(ctx, fn)
            fresh = fresh if fresh is not None else _fresh_frames(fn)
            m, f = st.value.args[0].elts
            if not (isinstance(f, ast.Name) and f.id in fresh and ty.is_mapping(m, st)):
                continue
            # only frames that describe NEW variables (they set 'bool' / 'var_name' themselves), not row copies
            is_newvars = any(isinstance(s2, ast.Assign) and isinstance(s2.targets[0], ast.Subscript) and au.base_name(s2.targets[0]) == f.id
                             and au.const_str(s2.targets[0].slice) == "bool" for s2 in au.walk_stmts(fn.body))
            if not is_newvars:
                continue
            offset = any((isinstance(s2, ast.AugAssign) and isinstance(s2.target, ast.Attribute) and s2.target.attr == "index" and au.base_name(s2.target) == f.id)
                         or (isinstance(s2, ast.Assign) and isinstance(s2.targets[0], ast.Attribute) and s2.targets[0].attr == "index" and au.base_name(s2.targets[0]) == f.id)
                         for s2 in au.walk_stmts(fn.body) if s2.lineno < st.lineno)
            reset_after = any(_is_reset_drop(x) for s2 in au.walk_stmts(fn.body) if s2.lineno > st.lineno for x in au.walk_own(s2))
            via_caller = False
            if not offset and not reset_after and fn.cls is not None and fn.name.startswith("_"):
                # private helper: every caller in the class hierarchy resets afterwards
                callers = []
                for g in p.all_functions():
                    if g.cls is None or g is fn:
                        continue
                    for s3 in au.walk_stmts(g.body):
                        for x in au.walk_own(s3):
                            if isinstance(x, ast.Call) and au.call_name(x) == "self." + fn.name:
                                callers.append((g, s3))
                via_caller = bool(callers) and all(any(_is_reset_drop(x) for s4 in au.walk_stmts(g.body) if s4.lineno > s3.lineno for x in au.walk_own(s4))
                                                   for g, s3 in callers)
            ok = offset or reset_after or via_caller
            ctx.ob("C07.e", fn, au.short(st, 80), ok,
                   "rows describing new variables are concatenated with their default labels 0..n-1 and never renumbered: they alias "
                   "the first n existing variables (bounds / costs of the binaries are attributed to dispatch variables)", node=st,
                   ok_detail="explicit offset" if offset else ("reset_index afterwards" if reset_after else "every caller resets afterwards"))

    # ================================================================= make_slp
    slp = p.fn_opt("stoch_lin_prog.make_slp")
    ctx.require(slp is not None, "stoch_lin_prog.make_slp vanished")
    prob = slp.params[0].name
    sel_uses = []   # (what, selector text, node)
    for st in au.walk_stmts(slp.body):
        for n in au.walk_own(st):
            if isinstance(n, ast.Subscript):
                base = n.value
                sl = n.slice
                if isinstance(base, ast.Attribute) and base.attr in ("l", "u", "c") and isinstance(sl, ast.Name):
                    sel_uses.append((base.attr, sl.id, n))
                elif isinstance(base, ast.Name) and isinstance(sl, ast.Name) and isinstance(p.parent(n), ast.BinOp) and isinstance(p.parent(n).op, ast.Div):
                    sel_uses.append(("sample cost", sl.id, n))
                elif isinstance(sl, ast.Tuple) and len(sl.elts) == 2 and isinstance(sl.elts[0], ast.Slice) and isinstance(sl.elts[1], ast.Name):
                    what = "zeroed columns" if isinstance(n.ctx, ast.Store) else "columns of A"
                    sel_uses.append((what, sl.elts[1].id, n))
                elif isinstance(base, ast.Attribute) and base.attr == "loc" and isinstance(sl, ast.Tuple) and isinstance(sl.elts[0], ast.Name):
                    sel_uses.append(("mapping rows", sl.elts[0].id, n))
    sels = {s for _, s, _ in sel_uses}
    ff = ctx.flow(slp)
    if not sel_uses:
        ctx.ob("C17.b", slp, "future selector", None, "no selector uses found (rewritten?)")
    else:
        # the reference selector: the one used for c
        ref = next((s for w, s, _ in sel_uses if w == "c"), None) or sel_uses[0][1]
        for what in sorted({w for w, _, _ in sel_uses}):
            uses = [(s, n) for w, s, n in sel_uses if w == what]
            bad = [(s, n) for s, n in uses if s != ref]
            ctx.ob("C17.b", slp, "%s use the future selector" % what, not bad,
                   "%s are selected with %s while the cost vector uses %s: present-stage variables would be duplicated / future ones "
                   "shared between scenarios" % (what, sorted({s for s, _ in bad}), ref), node=uses[0][1])
        needed = {"l", "u", "c", "sample cost", "columns of A", "zeroed columns"}
        missing = needed - {w for w, _, _ in sel_uses}
        ctx.ob("C17.b", slp, "every carrier is extended / decoupled", not missing,
               "no use of the future selector found for %s: e.g. without zeroing the future columns in the present-only copy the "
               "scenario blocks stay coupled to the original future variables" % sorted(missing), node=slp.node)
        # the selector has a single definition
        defs = ff.all_defs(ref)
        ctx.ob("C17.b", slp, "the future selector %s is defined once" % ref, len([d for d in defs if d.kind == "assign"]) == 1,
               "the selector is re-assigned between its uses", node=slp.node)

    # ---- C17.c divisor
    divs = []
    for st in au.walk_stmts(slp.body):
        for n in au.walk_own(st):
            if isinstance(n, ast.BinOp) and isinstance(n.op, ast.Div) and isinstance(n.left, ast.Subscript) and \
                    (au.terminal(n.left.value) == "c" or isinstance(n.left.value, ast.Name)):
                divs.append(n)
    n_samples = None
    sample_param = next((q.name for q in slp.params if q.name == "samples"), None)
    ctx.require(sample_param is not None, "make_slp has no parameter `samples`", rules=["C17.c", "C17.d", "C17.l"])

    FILTERS = ("unique", "set", "frozenset", "drop_duplicates", "fromkeys", "filter", "compress", "delete", "sample", "choice")

    def image(e, at, depth=0):
        """('same' | 'filtered' | 'unknown', offending node): is `e` the user's sample list or its one-to-one image
        (create_cost_samples over it), or a selection from it?"""
        if isinstance(e, ast.Name) and e.id == sample_param and not [d for d in ff.defs(e.id, at) if d.kind != "param"]:
            return "same", None
        if isinstance(e, ast.Call) and au.method_name(e) == "create_cost_samples":
            a = au.arg_or_kw(e, 0, "price_samples")
            return image(a, at, depth + 1) if a is not None else ("unknown", e)
        if isinstance(e, ast.Call) and au.method_name(e) in ("list", "tuple", "deepcopy", "copy") and e.args:
            return image(e.args[0], at, depth + 1)
        if isinstance(e, ast.Name) and depth < 6:
            ds = list(ff.defs(e.id, at))
            if not ds:
                return "unknown", e
            worst = ("same", None)
            for d in ds:
                if d.kind != "assign" or d.value is None or d.index not in (None, ()):
                    return "unknown", d.node
                k = image(d.value, d.node, depth + 1)
                if k[0] == "filtered":
                    return k
                if k[0] == "unknown":
                    worst = k
            return worst
        if isinstance(e, (ast.ListComp, ast.GeneratorExp)):
            src_ok = [image(g.iter, at, depth + 1)[0] for g in e.generators]
            sel = any(g.ifs for g in e.generators) or any(
                isinstance(g.iter, ast.Call) and au.method_name(g.iter) in ("sort", "unique", "nonzero", "where", "flatnonzero") for g in e.generators) \
                or (isinstance(e.elt, ast.Subscript) and sample_param is not None and any(
                    isinstance(x, ast.Name) and image(x, at, depth + 1)[0] in ("same", "filtered") for x in au.walk_local(e.elt.value)) and "same" not in src_ok)
            if sel:
                return "filtered", e
            return ("same", None) if src_ok and all(k == "same" for k in src_ok) and not isinstance(e.elt, ast.Subscript) else ("unknown", e)
        if isinstance(e, ast.Subscript):
            k = image(e.value, at, depth + 1)
            return ("filtered", e) if k[0] in ("same", "filtered") else ("unknown", e)
        if isinstance(e, ast.Call) and au.method_name(e) in FILTERS:
            return "filtered", e
        return "unknown", e

    ff = ctx.flow(slp)
    for st in au.walk_stmts(slp.body):
        if isinstance(st, ast.Assign) and isinstance(st.value, ast.Call) and au.method_name(st.value) == "len" and st.value.args and \
                isinstance(st.targets[0], ast.Name) and isinstance(st.value.args[0], ast.Name):
            k, bad = image(st.value.args[0], st)
            if au.U(st.value.args[0]) == sample_param or k in ("same", "filtered"):
                n_samples = st.targets[0].id
                ctx.ob("C17.l", slp, "number of samples %s" % au.short(st, 50), k == "same" if k != "unknown" else None,
                       "the number of scenarios is counted on a *selection* of the samples (%s): the SLP maximises the mean over the original "
                       "problem and the samples - every sample the user gives has weight 1 / (number of samples + 1). Dropping samples (e.g. "
                       "identical ones) changes the weights: the stochastic optimum is no longer below the mean of the per-scenario optima"
                       % au.short(bad, 70) if bad is not None else "", node=st, key="number of samples is counted on the user's list")
    for lp in [s0 for s0 in au.walk_stmts(slp.body) if isinstance(s0, ast.For)]:
        if not any(isinstance(x, ast.BinOp) and isinstance(x.op, ast.Div) and isinstance(x.left, ast.Subscript) for s2 in au.walk_stmts(lp.body) for x in au.walk_own(s2)):
            continue
        if isinstance(lp.iter, ast.Call) and au.method_name(lp.iter) in ("range", "enumerate"):
            continue
        k, bad = image(lp.iter, lp)
        ctx.ob("C17.l", slp, "cost samples appended in %s" % au.short(lp, 40).split(":")[0], k == "same" if k != "unknown" else None,
               "the loop that appends one block of future costs per scenario runs over a *selection* of the samples (%s): every sample the user "
               "gives is a scenario of weight 1 / (number of samples + 1); with identical samples removed the mean is taken over another "
               "distribution and the stochastic optimum can exceed the mean of the per-scenario optima" % au.short(bad, 70) if bad is not None else "",
               node=lp, key="one cost block per user sample")
    want = "%s + 1" % n_samples if n_samples else None
    if len(divs) < 2 or want is None:
        ctx.ob("C17.c", slp, "cost divisors", None, "divisions of the cost vectors not found")
    else:
        for d in divs:
            ok = au.U(d.right).strip("()") == want
            ctx.ob("C17.c", slp, au.short(d, 60), ok,
                   "costs are divided by %s; the mean over the original future plus %s samples needs (%s) for the original AND for every "
                   "sample, otherwise identical scenarios do not reproduce the deterministic optimum" % (au.U(d.right), n_samples, want), node=d)
    # ---- C17.d block counts
    if want is not None:
        for st in au.walk_stmts(slp.body):
            if isinstance(st, ast.Assign) and au.terminal(st.targets[0]) == "b" and isinstance(st.value, ast.Call) and au.method_name(st.value) == "tile":
                k = st.value.args[1] if len(st.value.args) > 1 else None
                ctx.ob("C17.d", slp, au.short(st, 60), k is not None and au.U(k).strip("()") == want,
                       "b must be repeated (%s) times (original + one block per sample)" % want, node=st)
            if isinstance(st, ast.Assign) and au.terminal(st.targets[0]) == "cType" and isinstance(st.value, ast.BinOp) and isinstance(st.value.op, ast.Mult):
                k = st.value.right if au.terminal(st.value.left) == "cType" else st.value.left
                ctx.ob("C17.d", slp, au.short(st, 60), au.U(k).strip("()") == want,
                       "cType must be repeated (%s) times, in lockstep with b and the row blocks of A" % want, node=st)
        for lp in [s for s in au.walk_stmts(slp.body) if isinstance(s, ast.For)]:
            if any(isinstance(s2, ast.Assign) and au.terminal(s2.targets[0]) == "A" and isinstance(s2.value, ast.Call) and au.method_name(s2.value) == "vstack"
                   for s2 in lp.body):
                it = lp.iter
                rng_ok = isinstance(it, ast.Call) and au.method_name(it) == "range" and au.U(it.args[-1]) == n_samples and \
                    (len(it.args) == 1 or au.const_num(it.args[0]) == 0)
                ctx.ob("C17.d", slp, "row blocks of A: %s" % au.short(lp, 50).split(":")[0], rng_ok,
                       "one block of rows must be stacked per sample (range(%s)), giving 1 + %s blocks like b and cType" % (n_samples, n_samples), node=lp)

    # ================================================================= C17.k all rows in every sample block
    ff_slp = ctx.flow(slp)
    org_slp = ctx.origins(slp)
    for lp in [s0 for s0 in au.walk_stmts(slp.body) if isinstance(s0, ast.For)]:
        stack = [s2 for s2 in lp.body if isinstance(s2, ast.Assign) and au.terminal(s2.targets[0]) == "A" and isinstance(s2.value, ast.Call) and au.method_name(s2.value) == "vstack"]
        if not stack:
            continue
        parts = set()
        for s2 in lp.body:
            for x in au.walk_own(s2):
                if isinstance(x, ast.Call) and au.method_name(x) == "hstack" and x.args and isinstance(x.args[0], (ast.Tuple, ast.List)):
                    parts |= {(e.id, s2) for e in x.args[0].elts if isinstance(e, ast.Name)}
        for nm, at in sorted(parts, key=lambda t: t[0]):
            seen, todo, bad = set(), list(ff_slp.defs(nm, at)), []
            while todo:
                d = todo.pop()
                if id(d) in seen:
                    continue
                seen.add(id(d))
                v = d.value
                ix = d.index[0] if isinstance(d.index, tuple) and d.index else d.index
                if d.kind == "unpack" and isinstance(v, (ast.Tuple, ast.List)) and isinstance(ix, int) and ix < len(v.elts):
                    v = v.elts[ix]
                if isinstance(v, ast.Subscript):
                    sl = v.slice
                    row = sl.elts[0] if isinstance(sl, ast.Tuple) and sl.elts else sl
                    full = isinstance(row, ast.Slice) and row.lower is None and row.upper is None and row.step is None
                    if not full:
                        how = org_slp.nodes(row, d.node)
                        counted = any(isinstance(y, ast.Call) and au.method_name(y) in ("getnnz", "count_nonzero", "nonzero", "abs", "absolute", "__abs__") for y in how + [row]
                                      for y in au.walk_local(y))
                        if not counted:
                            bad.append((d, row))
                    if isinstance(v.value, ast.Name):
                        todo += list(ff_slp.defs(v.value.id, d.node))
                elif isinstance(v, ast.Name):
                    todo += list(ff_slp.defs(v.id, d.node))
            ctx.ob("C17.k", slp, "rows of %s in the sample blocks" % nm, not bad,
                   "%s, a part of every sample block, is restricted to the rows %s (%s): a restriction left out of the sample blocks holds for the "
                   "original scenario only. A selector computed from a *sum* of coefficients drops every row whose future coefficients cancel "
                   "(a node with one contract and one outgoing transport, CHP ramp rows x_t - x_t-1): in the samples gas arrives without being "
                   "bought, the SLP optimum exceeds the mean of the per-scenario optima" % (
                       nm, au.short(bad[0][1], 30) if bad else "", ff_slp and p.where(bad[0][0].node) if bad else ""),
                   node=(bad[0][0].node if bad else at), ok_detail="column split only")

    # ================================================================= C17.f robust epigraph sign
    opt = p.cls("OptimProblem").methods.get("optimize")
    ctx.require(opt is not None, "OptimProblem.optimize vanished")
    signs = {}
    for st in au.walk_stmts(opt.body):
        if isinstance(st, ast.Assign) and isinstance(st.targets[0], ast.Name) and st.targets[0].id == "objective" and \
                any(au.path(x) == "self.c" for x in au.walk_local(st.value)):
            signs["objective"] = (au.sign_of(st.value), st)
        if isinstance(st, ast.Assign) and au.path(st.targets[0]) == "results.value" and any(au.path(x) == "self.c" for x in au.walk_local(st.value)):
            signs["recomputed value"] = (au.sign_of(st.value), st)
        for n in au.walk_own(st):
            if isinstance(n, ast.Compare) and len(n.ops) == 1 and isinstance(n.ops[0], (ast.GtE, ast.LtE)):
                has_mm = lambda e: any(isinstance(x, ast.BinOp) and isinstance(x.op, ast.MatMult) for x in au.walk_local(e))
                lside, rside = n.left, n.comparators[0]
                if has_mm(lside) == has_mm(rside):
                    continue
                expr, on_left = (lside, True) if has_mm(lside) else (rside, False)
                if any(au.base_name(x) == "self" for x in au.walk_local(expr) if isinstance(x, ast.Attribute)):
                    continue
                s = au.sign_of(expr)
                # normalise to  expr >= other  (expr <= other and other >= expr flip the sign)
                if isinstance(n.ops[0], ast.LtE) == on_left:
                    s = -s
                signs["sample constraint"] = (s, n)
    if len(signs) < 3:
        ctx.ob("C17.f", opt, "robust target", None, "objective / sample constraint / recomputed value not all found: %s" % sorted(signs))
    else:
        ref = signs["objective"][0]
        for k, (s, n) in sorted(signs.items()):
            ctx.ob("C17.f", opt, "%s: sign of c" % k, s == ref and s < 0,
                   "value is -c'x everywhere: the %s uses the opposite sign, so the robust solution maximises the wrong quantity / "
                   "reports a value of the wrong sign" % k, node=n)

    # ================================================================= C17.h classification over all rows of a variable
    ms = p.fn_opt("stoch_lin_prog.make_slp")
    if ms is None:
        ctx.ob("C17.h", "stoch_lin_prog", "present / future classification", None, "make_slp not found")
    else:
        from .spaces import Typer as _Typer
        ty = _Typer(ctx, ms)
        found = False
        for st in au.walk_stmts(ms.body):
            if not isinstance(st, ast.Assign):
                continue
            isin_c = [x for x in au.walk_local(st.value) if isinstance(x, ast.Call) and au.method_name(x) == "isin" and isinstance(x.func, ast.Attribute)]
            if not isin_c:
                continue
            col = isin_c[0].func.value
            if not (isinstance(col, ast.Subscript) and au.const_str(col.slice) == "time_step"):
                continue
            found = True
            one_row = ty.is_dedup(col.value, st)
            aggregated = any(isinstance(x, ast.Call) and au.method_name(x) in ("groupby", "any", "all", "max", "min") for x in au.walk_local(st.value))
            ctx.ob("C17.h", ms, au.short(st, 80), (not one_row) or aggregated,
                   "whether a variable belongs to the future is read from a frame reduced to one (the first) row per variable: a variable with "
                   "rows on both sides of start_future (an asset with a coarser frequency whose step straddles the boundary) counts as present "
                   "although part of its cost comes from future prices - that cost is never replaced by the samples' and the report still divides "
                   "its future dispatch by the number of samples. Two scenarios [1236, 36] with the same present price: SLP optimum 1236 > mean 636",
                   node=st, key="present / future classification on one row per variable")
        if not found:
            ctx.ob("C17.h", ms, "present / future classification", None, "the test time_step.isin(future steps) was not found")

    # ================================================================= C17.j scenario set of the robust target
    opt_fn = p.fn_opt("OptimProblem.optimize")
    if opt_fn is None:
        ctx.ob("C17.j", "OptimProblem", "robust target", None, "OptimProblem.optimize not found")
    else:
        # the auxiliary variable: a local created by <cvx>.Variable(1) that the objective of the robust branch is set to
        aux = set()
        for st in au.walk_stmts(opt_fn.body):
            if isinstance(st, ast.Assign) and isinstance(st.targets[0], ast.Name) and isinstance(st.value, ast.Call) and au.method_name(st.value) == "Variable" \
                    and st.value.args and au.const_num(st.value.args[0]) == 1:
                aux.add(st.targets[0].id)
        cons = []
        for st in au.walk_stmts(opt_fn.body):
            for x in au.walk_own(st):
                if isinstance(x, ast.Compare) and len(x.ops) == 1 and isinstance(x.ops[0], (ast.GtE, ast.LtE)) and \
                        any(isinstance(y, ast.Name) and y.id in aux for y in au.walk_local(x)) and any(isinstance(y, ast.BinOp) and isinstance(y.op, ast.MatMult) for y in au.walk_local(x)):
                    cons.append((x, st))
        if not cons:
            ctx.ob("C17.j", opt_fn, "constraints on the auxiliary minimum", None, "no constraint `-c.T @ x >= <aux>` found")
        for x, st in cons:
            loops = [a for a in p.ancestors(x) if isinstance(a, ast.For) and "samples" in au.U(a.iter)]
            lv = set(au.target_names(loops[0].target)) if loops else set()
            from_sample = bool(lv & au.names_in(x))
            own = any(au.path(y) == "self.c" for y in au.walk_local(x))
            ctx.ob("C17.j", opt_fn, au.short(x, 70), from_sample and not own,
                   "this constraint bounds the minimum with %s instead of a sample: the robust problem then hedges against a scenario that is not in "
                   "the scenario set. When that vector is the binding worst case the worst-case value over the *given* scenarios falls below "
                   "that of a single-scenario solution (144.67 vs 8074.28)" % ("the problem's own cost vector self.c" if own else "a vector that is not the loop variable over the samples"),
                   node=x)


    # ================================================================= C17.m the samples as given
    if opt_fn is not None:
        ffo = ctx.flow(opt_fn)
        loops_s = [a for a in au.walk_stmts(opt_fn.body) if isinstance(a, ast.For) and isinstance(a.iter, ast.Name)
                   and any(isinstance(y, ast.BinOp) and isinstance(y.op, ast.MatMult) for b0 in au.walk_stmts(a.body) for y in au.walk_own(b0))]
        if not loops_s:
            ctx.ob("C17.m", opt_fn, "loop over the samples", None, "no loop that builds one constraint per sample found")
        SHAPERS = ("transpose", "reshape", "swapaxes", "moveaxis", "sort", "unique", "flip", "roll", "ravel", "flatten")
        for lp in loops_s:
            bad = unknown = None
            for d in ffo.defs(lp.iter.id, lp):
                if d.kind == "param":
                    continue
                v = d.value
                if d.kind != "assign" or v is None:
                    unknown = d
                    continue
                shaped = [x for x in au.walk_local(v) if (isinstance(x, ast.Attribute) and x.attr == "T") or
                          (isinstance(x, ast.Call) and au.method_name(x) in SHAPERS) or isinstance(x, ast.Subscript)]
                if shaped:
                    bad = (d, shaped[0])
                elif not (isinstance(v, ast.Call) and au.method_name(v) in ("asarray", "array", "list", "tuple", "copy", "deepcopy")):
                    unknown = d
            ctx.ob("C17.m", opt_fn, "samples in `%s`" % au.short(lp, 40).split(":")[0], False if bad else (None if unknown else True),
                   ("the scenarios the constraints are built from are %s (%s), not the samples as given: a list of cost vectors is an array of shape "
                    "(samples, variables) - a transpose decided from the shape turns the *variables* into scenarios whenever there are as many "
                    "samples as variables (6 scenarios, 6 variables: the 'robust' solution has a worst case of -1086 where a single-scenario "
                    "solution reaches -783)" % (au.short(bad[1], 40), p.where(bad[0].node))) if bad else
                   "the loop variable over the samples is re-defined in a way this rule does not interpret", node=lp)


    # ================================================================= C17.n one boundary between present and future
    rg = [(st, c) for st in au.walk_stmts(slp.body) for c in au.walk_own(st) if isinstance(c, ast.Call) and au.method_name(c) == "set_restricted_grid"]
    starts = [(st, au.kwarg(c, "start") if au.kwarg(c, "start") is not None else (c.args[0] if c.args else None)) for st, c in rg]
    starts = [(st, v) for st, v in starts if v is not None and not au.is_none(v)]
    ends = [(st, au.kwarg(c, "end") if au.kwarg(c, "end") is not None else (c.args[1] if len(c.args) > 1 else None)) for st, c in rg]
    ends = [(st, v) for st, v in ends if v is not None and not au.is_none(v)]
    if not starts or not ends:
        ctx.ob("C17.n", slp, "boundary between present and future", None, "the two sub-grids (start = ..., end = ...) were not both found")
    else:
        s_txt = {au.U(ctx.resolve(slp, v, st)) for st, v in starts}
        e_txt = {au.U(ctx.resolve(slp, v, st)) for st, v in ends}
        ctx.ob("C17.n", slp, "boundary between present and future", s_txt == e_txt and len(s_txt) == 1,
               "the future starts at %s but the present ends at %s: the steps between the two belong to both or to neither - with the present "
               "ending at ceil(start_future, freq) on a grid whose points are not multiples of the frequency (gas days from 06:00) the first future "
               "step is decided once for all scenarios, and the SLP value (192) falls below the expected value of fixing the present to a "
               "single-scenario solution (224)" % (sorted(s_txt), sorted(e_txt)), node=ends[0][0])


    # ================================================================= C17.o the selector covers all variables
    if sel_uses:
        ref_sel = next((s0 for w, s0, _ in sel_uses if w == "c"), None) or sel_uses[0][1]
        defs_o = [d for d in ff.all_defs(ref_sel) if d.kind == "assign" and d.value is not None]
        full = any(isinstance(x, ast.Call) and au.method_name(x) in ("reindex", "zeros", "full", "ones", "arange", "isin", "in1d") and (
            au.method_name(x) in ("reindex", "zeros", "full", "ones") or au.method_name(x) == "arange") for d in defs_o for x in au.walk_local(d.value)) and any(
            isinstance(x, ast.Call) and au.method_name(x) in ("reindex", "zeros", "full", "ones") for d in defs_o for x in au.walk_local(d.value))
        from_map = any(isinstance(x, ast.Subscript) and au.const_str(x.slice) == "time_step" for d in defs_o for x in au.walk_local(d.value))
        ctx.ob("C17.o", slp, "the future selector %s covers every variable" % ref_sel, full if from_map or full else None,
               "%s is read off the mapping (one entry per variable that has a row) and then subscripts l, u, c and the columns of A, which have one entry "
               "per variable: a portfolio with a variable without row - an order of an order book outside the grid - makes make_slp raise IndexError "
               "(boolean index did not match: 6 vs 5), although the deterministic problem is solved" % ref_sel, node=(defs_o[0].node if defs_o else slp.node),
               ok_detail="brought to the full variable range", key="the future selector covers every variable")
