"""Analysis 21 - nullness of the optional grid parameter (C10.d, reported under C10 and C15).

`timegrid=None` is documented ("in which case it must have been set previously").  On that path only `self.timegrid`
may be used; dereferencing the raw parameter raises AttributeError on None.  Path-sensitive by trace partitioning.
"""
from __future__ import annotations
import ast
from .. import astutil as au
from ..flow import Domain, Walker, Partitioned
from ..tables import rule
from . import analysis

rule("C10.d", "an optional grid parameter (default None) is never dereferenced, nor passed to a callee that dereferences "
              "it, on a path where it may still be None", floor=8, props=["C10", "C15"])

PARAM = "timegrid"
MAYBE, NONNULL, NULL = "maybe-None", "non-None", "None"


class Null(Domain):
    """state: nullness of the parameter in {maybe, nonnull, null}."""

    def __init__(self, name):
        self.name = name

    def initial(self, fn):
        return MAYBE

    def join(self, a, b):
        return a if a == b else MAYBE

    def _is_param(self, x):
        return isinstance(x, ast.Name) and x.id == self.name

    def stmt(self, s, node):
        for t in au.stmt_targets(node):
            if self.name in au.target_names(t):
                v = getattr(node, "value", None)
                if isinstance(node, ast.Assign) and v is not None:
                    if au.is_none(v):
                        return NULL
                    if self._is_param(v):
                        return s
                    if isinstance(v, ast.BoolOp) and isinstance(v.op, ast.Or) and self._is_param(v.values[0]):
                        return NONNULL  # timegrid = timegrid or self.timegrid
                    if isinstance(v, ast.IfExp):
                        return NONNULL if not any(au.is_none(x) for x in (v.body, v.orelse)) else MAYBE
                    return NONNULL      # any other value (self.timegrid, a constructor call ...)
                return MAYBE
        if isinstance(node, ast.Assert):
            r = self.refine(s, node.test, True)
            return r if r is not None else s
        return s

    def refine(self, s, test, truth):
        t, pol = au.strip_not(test)
        truth = truth if pol else (not truth)
        if isinstance(t, ast.BoolOp):
            if (isinstance(t.op, ast.And) and truth) or (isinstance(t.op, ast.Or) and not truth):
                for v in t.values:
                    s = self.refine(s, v, truth)
                    if s is None:
                        return None
            return s
        nt = au.none_test(t)
        if nt is not None and self._is_param(nt[0]):
            isnone = nt[1] if truth else (not nt[1])
            if isnone:
                return None if s == NONNULL else NULL
            return None if s == NULL else NONNULL
        if self._is_param(t):  # `if timegrid:`
            return (None if s == NULL else NONNULL) if truth else s
        return s


def _param_derefs(fn, name):
    """Attribute loads on the bare parameter name: timegrid.<attr>."""
    for n in au.walk_local(fn.node, include_self=False):
        if isinstance(n, ast.Attribute) and isinstance(n.value, ast.Name) and n.value.id == name and isinstance(n.ctx, ast.Load):
            yield n


def requires_nonnull(ctx, fn, pname, _stack=()) -> bool:
    """Summary: does fn dereference its parameter `pname` on some path where it may be None (so callers must pass non-None)?"""
    key = ("nonnull-summary", fn, pname)
    if key in ctx._memo:
        return ctx._memo[key]
    if fn in _stack or len(_stack) > 5:
        return False
    ctx._memo[key] = False
    res = bool(_unsafe_sites(ctx, fn, pname, _stack + (fn,), assume_default_none=False))
    ctx._memo[key] = res
    return res


def _unsafe_sites(ctx, fn, pname, _stack, assume_default_none=True):
    dom = Partitioned(Null(pname))
    w = Walker(dom)
    sites = []

    def worst(state):
        sts = Partitioned.states(state)
        return MAYBE if any(x in (MAYBE, NULL) for x in sts) else NONNULL

    def visit_expr(expr, state, stmt):
        if worst(state) == NONNULL:
            return
        for n in au.walk_local(expr):
            if isinstance(n, ast.Attribute) and isinstance(n.value, ast.Name) and n.value.id == pname and isinstance(n.ctx, ast.Load):
                sites.append((n, "dereferenced (%s)" % au.short(n, 60)))
            elif isinstance(n, ast.Call):
                # parameter handed to a callee that dereferences it unguarded
                for t in ctx.p.resolve_call(n, fn):
                    tparams = t.params
                    off = 1 if (t.cls is not None and t.parent is None and tparams and tparams[0].name in ("self", "cls")) else 0
                    bound = []
                    for i, a in enumerate(n.args):
                        if isinstance(a, ast.Name) and a.id == pname and i + off < len(tparams):
                            bound.append(tparams[i + off])
                    for k in n.keywords:
                        if isinstance(k.value, ast.Name) and k.value.id == pname and k.arg:
                            q = t.param(k.arg)
                            if q:
                                bound.append(q)
                    for q in bound:
                        # a callee whose own parameter defaults to None documents that it accepts None: if it then
                        # dereferences it, that is the callee's finding, not the forwarding caller's
                        if q.has_default and au.is_none(q.default):
                            continue
                        if requires_nonnull(ctx, t, q.name, _stack):
                            sites.append((n, "passed to %s, which dereferences its parameter %s unguarded" % (t.qualname, q.name)))

    def on_stmt(node, state):
        # header expressions of compound statements and whole simple statements
        if isinstance(node, (ast.If, ast.While)):
            # the test itself may dereference: evaluate conjunct by conjunct (short-circuit refinement)
            st = state
            t, _ = au.strip_not(node.test)
            vals = t.values if isinstance(t, ast.BoolOp) else [node.test]
            for v in vals:
                visit_expr(v, st, node)
                if isinstance(t, ast.BoolOp):
                    nxt = dom.refine(st, v, isinstance(t.op, ast.And))
                    st = nxt if nxt is not None else st
        elif isinstance(node, (ast.For, ast.AsyncFor)):
            visit_expr(node.iter, state, node)
        elif isinstance(node, (ast.With, ast.AsyncWith)):
            for it in node.items:
                visit_expr(it.context_expr, state, node)
        elif isinstance(node, (ast.Try, ast.FunctionDef, ast.AsyncFunctionDef, ast.ClassDef)):
            pass
        elif isinstance(node, ast.Assert):
            pass
        else:
            visit_expr(node, state, node)

    w.on_stmt = on_stmt
    w.run_function(fn)
    # de-duplicate by node
    seen, out = set(), []
    for n, why in sites:
        if id(n) not in seen:
            seen.add(id(n))
            out.append((n, why))
    return out


@analysis("nullness", ["C10.d"])
def run(ctx):
    p = ctx.p
    n_fn = 0
    for fn in p.all_functions():
        q = fn.param(PARAM)
        if q is None or not q.has_default or not au.is_none(q.default):
            continue
        n_fn += 1
        sites = _unsafe_sites(ctx, fn, PARAM, (fn,))
        if not sites:
            ctx.ob("C10.d", fn, "optional parameter %s" % PARAM, True, "every dereference is dominated by a None test or a re-binding")
            continue
        # one finding per function (root cause: the parameter is not normalised), the sites go into the detail
        detail = "; ".join("line %s: %s" % (getattr(n, "lineno", "?"), why) for n, why in sites[:8])
        ctx.ob("C10.d", fn, "optional parameter %s" % PARAM, False,
               "%s=None is documented ('must have been set previously') but the raw parameter is used while it may be None: %s"
               % (PARAM, detail), node=sites[0][0])
    ctx.require(n_fn >= 8, "fewer than 8 functions take an optional %s parameter" % PARAM)
