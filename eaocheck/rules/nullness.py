"""Analysis 21 - nullness of the optional grid parameter (C10.d, reported under C10 and C15).

`timegrid=None` is documented ("in which case it must have been set previously").  On that path only `self.timegrid`
may be used; dereferencing the raw parameter raises AttributeError on None.  Path-sensitive by trace partitioning.
"""
from __future__ import annotations
import ast
from .. import astutil as au
from ..flow import Domain, Walker, Partitioned
from ..tables import rule
from . import analysis

rule("C10.d", "an optional grid parameter (default None) is never dereferenced, nor passed to a callee that dereferences "
              "it, on a path where it may still be None", floor=8, props=["C10", "C15"])

rule("C10.k", "timegrid=None means 'the grid this object was given before': where that case is possible, another object is handed the effective "
              "grid (self.timegrid / the normalised name), never the raw parameter - which would tell it to use whatever grid *it* was last set up "
              "with (an asset of a portfolio that was meanwhile set up alone on another grid)", floor=2)

PARAM = "timegrid"
MAYBE, NONNULL, NULL = "maybe-None", "non-None", "None"


class Null(Domain):
    """state: nullness of the parameter in {maybe, nonnull, null}."""

    def __init__(self, name):
        self.name = name

    def initial(self, fn):
        return MAYBE

    def join(self, a, b):
        return a if a == b else MAYBE

    def _is_param(self, x):
        return isinstance(x, ast.Name) and x.id == self.name

    def stmt(self, s, node):
        for t in au.stmt_targets(node):
            if self.name in au.target_names(t):
                v = getattr(node, "value", None)
                if isinstance(node, ast.Assign) and v is not None:
                    if au.is_none(v):
                        return NULL
                    if self._is_param(v):
                        return s
                    if isinstance(v, ast.BoolOp) and isinstance(v.op, ast.Or) and self._is_param(v.values[0]):
                        return NONNULL  # timegrid = timegrid or self.timegrid
                    if isinstance(v, ast.IfExp):
                        return NONNULL if not any(au.is_none(x) for x in (v.body, v.orelse)) else MAYBE
                    return NONNULL      # any other value (self.timegrid, a constructor call ...)
                return MAYBE
        if isinstance(node, ast.Assert):
            r = self.refine(s, node.test, True)
            return r if r is not None else s
        return s

    def refine(self, s, test, truth):
        t, pol = au.strip_not(test)
        truth = truth if pol else (not truth)
        if isinstance(t, ast.BoolOp):
            if (isinstance(t.op, ast.And) and truth) or (isinstance(t.op, ast.Or) and not truth):
                for v in t.values:
                    s = self.refine(s, v, truth)
                    if s is None:
                        return None
            return s
        nt = au.none_test(t)
        if nt is not None and self._is_param(nt[0]):
            isnone = nt[1] if truth else (not nt[1])
            if isnone:
                return None if s == NONNULL else NULL
            return None if s == NULL else NONNULL
        if self._is_param(t):  # `if timegrid:`
            return (None if s == NULL else NONNULL) if truth else s
        return s


def _param_derefs(fn, name):
    """Attribute loads on the bare parameter name: timegrid.<attr>."""
    for n in au.walk_local(fn.node, include_self=False):
        if isinstance(n, ast.Attribute) and isinstance(n.value, ast.Name) and n.value.id == name and isinstance(n.ctx, ast.Load):
            yield n


def requires_nonnull(ctx, fn, pname, _stack=()) -> bool:
    """Summary: does fn dereference its parameter `pname` on some path where it may be None (so callers must pass non-None)?"""
    key = ("nonnull-summary", fn, pname)
    if key in ctx._memo:
        return ctx._memo[key]
    if fn in _stack or len(_stack) > 5:
        return False
    ctx._memo[key] = False
    res = bool(_unsafe_sites(ctx, fn, pname, _stack + (fn,), assume_default_none=False))
    ctx._memo[key] = res
    return res


def _unsafe_sites(ctx, fn, pname, _stack, assume_default_none=True):
    dom = Partitioned(Null(pname))
    w = Walker(dom)
    sites = []

    def worst(state):
        sts = Partitioned.states(state)
        return MAYBE if any(x in (MAYBE, NULL) for x in sts) else NONNULL

    def visit_expr(expr, state, stmt):
        if worst(state) == NONNULL:
            return
        for n in au.walk_local(expr):
            if isinstance(n, ast.Attribute) and isinstance(n.value, ast.Name) and n.value.id == pname and isinstance(n.ctx, ast.Load):
                sites.append((n, "dereferenced (%s)" % au.short(n, 60)))
            elif isinstance(n, ast.Call):
                # parameter handed to a callee that dereferences it unguarded
                for t in ctx.p.resolve_call(n, fn):
                    tparams = t.params
                    off = 1 if (t.cls is not None and t.parent is None and tparams and tparams[0].name in ("self", "cls")) else 0
                    bound = []
                    for i, a in enumerate(n.args):
                        if isinstance(a, ast.Name) and a.id == pname and i + off < len(tparams):
                            bound.append(tparams[i + off])
                    for k in n.keywords:
                        if isinstance(k.value, ast.Name) and k.value.id == pname and k.arg:
                            q = t.param(k.arg)
                            if q:
                                bound.append(q)
                    for q in bound:
                        # a callee whose own parameter defaults to None documents that it accepts None: if it then
                        # dereferences it, that is the callee's finding, not the forwarding caller's
                        if q.has_default and au.is_none(q.default):
                            continue
                        if requires_nonnull(ctx, t, q.name, _stack):
                            sites.append((n, "passed to %s, which dereferences its parameter %s unguarded" % (t.qualname, q.name)))

    def on_stmt(node, state):
        # header expressions of compound statements and whole simple statements
        if isinstance(node, (ast.If, ast.While)):
            # the test itself may dereference: evaluate conjunct by conjunct (short-circuit refinement)
            st = state
            t, _ = au.strip_not(node.test)
            vals = t.values if isinstance(t, ast.BoolOp) else [node.test]
            for v in vals:
                visit_expr(v, st, node)
                if isinstance(t, ast.BoolOp):
                    nxt = dom.refine(st, v, isinstance(t.op, ast.And))
                    st = nxt if nxt is not None else st
        elif isinstance(node, (ast.For, ast.AsyncFor)):
            visit_expr(node.iter, state, node)
        elif isinstance(node, (ast.With, ast.AsyncWith)):
            for it in node.items:
                visit_expr(it.context_expr, state, node)
        elif isinstance(node, (ast.Try, ast.FunctionDef, ast.AsyncFunctionDef, ast.ClassDef)):
            pass
        elif isinstance(node, ast.Assert):
            pass
        else:
            visit_expr(node, state, node)

    w.on_stmt = on_stmt
    w.run_function(fn)
    # de-duplicate by node
    seen, out = set(), []
    for n, why in sites:
        if id(n) not in seen:
            seen.add(id(n))
            out.append((n, why))
    return out


def _forwarded_maybe_none(ctx, fn, pname):
    """calls on *other* objects that receive the parameter for an optional grid while it may be None"""
    dom = Partitioned(Null(pname))
    w = Walker(dom)
    out = []

    def on_stmt(node, state):
        sts = Partitioned.states(state)
        maybe = any(x in (MAYBE, NULL) for x in sts)
        roots = list(au.walk_own(node))
        for n in roots:
            if not isinstance(n, ast.Call) or not isinstance(n.func, ast.Attribute):
                continue
            if au.base_name(n.func) in ("self", None) or (isinstance(n.func.value, ast.Call) and isinstance(n.func.value.func, ast.Name) and n.func.value.func.id == "super"):
                continue
            # the receiver is an asset of the object: the variable of a loop over <...>.assets
            recv = n.func.value
            loops = [a for a in ctx.p.ancestors(n) if isinstance(a, ast.For) and isinstance(a.target, ast.Name) and isinstance(recv, ast.Name)
                     and a.target.id == recv.id and any(isinstance(x, ast.Attribute) and x.attr == "assets" for x in au.walk_local(a.iter))]
            if not loops:
                continue
            targets = [t for t in ctx.p.resolve_call(n, fn) if t.param(pname) is not None]
            if not targets:
                continue
            val = au.kwarg(n, pname)
            if val is None:
                t0 = targets[0]
                names = [q.name for q in t0.params]
                off = 1 if (t0.cls is not None and names and names[0] in ("self", "cls")) else 0
                pos = names.index(pname) - off
                val = n.args[pos] if len(n.args) > pos and not any(isinstance(a, ast.Starred) for a in n.args) else None
            if val is None:
                continue       # not handed on at all: C10.i
            raw = isinstance(val, ast.Name) and val.id == pname
            out.append((n, maybe and raw, targets[0]))
    w.on_stmt = on_stmt
    w.run_function(fn)
    seen, res = set(), []
    for n, maybe, t in out:
        if id(n) in seen:
            # a call visited on several partitions: unsafe if any of them may be None
            res = [(a, b or (maybe and a is n), c) for a, b, c in res]
            continue
        seen.add(id(n))
        res.append((n, maybe, t))
    return res


@analysis("nullness", ["C10.d", "C10.k"])
def run(ctx):
    p = ctx.p
    n_k = 0
    for fn in sorted(p.all_functions(), key=lambda f: f.qualname):
        q = fn.param(PARAM)
        if q is None or not q.has_default or not au.is_none(q.default) or fn.parent is not None:
            continue
        for n, maybe, t in _forwarded_maybe_none(ctx, fn, PARAM):
            n_k += 1
            ctx.ob("C10.k", fn, au.short(n, 80), not maybe,
                   "%s may be None here (the documented 'as set previously' case) and is handed to %s, whose own timegrid=None means 'the grid *that* "
                   "object was last given': the portfolio still holds grid A, but an asset that was meanwhile set up alone on grid B is built on B - "
                   "c has 168 entries instead of 216, or the price lengths no longer fit" % (PARAM, t.qualname), node=n,
                   ok_detail="the name is non-None on every path to the call")
    if n_k == 0:
        ctx.ob("C10.k", "package", "grid handed to the assets of a portfolio", None, "no call on the assets of a loop over <...>.assets takes a grid")
    n_fn = 0
    for fn in p.all_functions():
        q = fn.param(PARAM)
        if q is None or not q.has_default or not au.is_none(q.default):
            continue
        n_fn += 1
        sites = _unsafe_sites(ctx, fn, PARAM, (fn,))
        if not sites:
            ctx.ob("C10.d", fn, "optional parameter %s" % PARAM, True, "every dereference is dominated by a None test or a re-binding")
            continue
        # one finding per function (root cause: the parameter is not normalised), the sites go into the detail
        detail = "; ".join("line %s: %s" % (getattr(n, "lineno", "?"), why) for n, why in sites[:8])
        ctx.ob("C10.d", fn, "optional parameter %s" % PARAM, False,
               "%s=None is documented ('must have been set previously') but the raw parameter is used while it may be None: %s"
               % (PARAM, detail), node=sites[0][0])
    ctx.require(n_fn >= 8, "fewer than 8 functions take an optional %s parameter" % PARAM)
