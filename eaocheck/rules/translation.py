"""Analysis 3 - translation of (A, b, cType, l, u, c, bool) into solver constraints (C03.a-e, C01.c).

The solver itself is trusted; what is decided is that nothing is lost or twisted on the way to it:
  a  alphabet coverage: letters any eaopack code can put into a cType  subset of  letters each interface handles
  b  relation agreement: per letter the documented relation, matrix and right-hand side subset by the same row mask
  c  bounds x<=u, x>=l reach the solver; objective sign and direction agree (-c'x maximised)
  d  boolean flags: taken from mapping['bool'] by variable label, de-duplicated by index; cleared only on request
  e  status discipline: a Results object is built only under status 'optimal'
"""
from __future__ import annotations
import ast
from .. import astutil as au
from ..tables import rule, ROW_LETTERS
from . import analysis
from .serialization import if_chain
from ..carriers import local_roles, role

rule("C03.a", "every row letter that eaopack code can append to a cType is handled by every solver interface (an unhandled "
              "letter silently drops rows in the cvxpy translation)", floor=20)
rule("C03.b", "per row letter the constraint uses the documented relation (U <=, L >=, S ==, N ==) and matrix and "
              "right-hand side are subset by the same row mask", floor=8)
rule("C01.c", "nodal rows (letter N) are translated as equalities by every interface", floor=2)
rule("C03.c", "variable bounds reach the solver in the right direction; objective sign and optimisation direction agree", floor=4)
rule("C03.l", "the vector that collects solver results is real-valued by construction: it is created as float (np.zeros(n) / np.array([]) + "
              "hstack) - not with empty_like / zeros_like / full_like of problem data, which inherits the data's dtype (integer costs: every "
              "solution written into it is truncated, the returned point violates its rows and is not optimal)", floor=1, props=["C03", "C14"])
rule("C18.g", "the duals reported for a row type are the dual values of that type's own constraint object; they are not cut out of the dual vector "
              "of a joint block by counting letters of cType (the order of the rows in the block is the matrix order, not the order of the cut)", floor=1)
rule("C18.e", "sign of the reported nodal price: the report negates the dual of the nodal rows written as `A_N x == b_N` in a maximisation of "
              "-c'x. The four signs belong together - orientation of the equality (cvxpy's dual belongs to lhs - rhs), sign of c in the objective, "
              "direction of optimisation, sign in the report: their product is what it is on the confirmed tree; a single flip reports the negative "
              "of the marginal value", floor=1)
rule("C03.k", "rows of a mapping that come from assets without boolean variables carry NaN in the 'bool' column (frames are concatenated): "
              "the flags are read by comparison with True (or after fillna(False)) - never through a bare cast astype(bool) / bool(), for which NaN "
              "is True: continuous variables would be declared boolean (restricted to {0, 1}) and success reported for a point that is not optimal",
     floor=1, props=["C03", "C15", "C17"])
rule("C18.d", "the duals that are reported belong to the objective -c'x as stated: the objective given to the solver is not re-scaled - or every "
              "dual value is scaled back with the same factor (the value is; a dual of a problem whose objective was divided by k is the "
              "marginal value divided by k)", floor=1)
rule("C14.m", "a problem without variables (no asset is active: an interval of a split optimisation before the first asset starts, a portfolio "
              "whose assets all lie outside the horizon) is answered by optimize() itself - an early return guarded by the number of variables "
              "precedes the creation of the solver variable (cvxpy rejects a variable of shape (0,): the split problem would raise where the "
              "unsplit one is solved)", floor=1, props=["C14", "C08"])
rule("C03.j", "inside optimize() the boolean flags have one source: the working copy of the mapping in which make_soft_problem clears them - "
              "nothing selects 'the boolean variables' from the problem's own mapping (a relaxed solve would be post-processed like a MIP: the "
              "returned vector is no longer the solver's, value, bounds, rows and the reported nodal balance no longer fit)", floor=1,
     props=["C03", "C01", "C04"])
rule("C03.d", "boolean variables are selected from mapping['bool'] by variable label (de-duplicated by index) and cleared only "
              "by make_soft_problem", floor=2, props=["C03", "C08", "C20"])
rule("C03.i", "optimize() does not turn a solver *error* into the report 'not successful': no try / except around the solve call lets "
              "execution continue to the status evaluation (an exception is no statement about feasibility)", floor=1)
rule("C03.e", "a Results object is constructed only under solver status 'optimal'; every other status yields a string", floor=2)

ALPHABET = set(ROW_LETTERS)


# ------------------------------------------------------------------------------------------------ letter producers
class Letters:
    """Evaluate the set of row letters an expression can contain; None = unknown (Top)."""

    def __init__(self, ctx):
        self.ctx = ctx
        self.p = ctx.p
        self._callers = None

    def callers(self, fn):
        if self._callers is None:
            self._callers = {}
            for f in self.p.all_functions():
                for c in self.p.calls_in(f):
                    for t in self.p.resolve_call(c, f):
                        self._callers.setdefault(t, []).append((f, c))
        return self._callers.get(fn, [])

    def of(self, e, fn, at, depth=0, seen=None):
        seen = seen if seen is not None else set()
        if depth > 12:
            return None
        s = au.const_str(e)
        if s is not None:
            return set(s)
        if isinstance(e, ast.Constant):
            return set()
        if isinstance(e, ast.BinOp) and isinstance(e.op, ast.Mult):
            l = self.of(e.left, fn, at, depth + 1, seen) if self._maybe_str(e.left, fn, at) else None
            r = self.of(e.right, fn, at, depth + 1, seen) if self._maybe_str(e.right, fn, at) else None
            if l is not None and r is None:
                return l
            if r is not None and l is None:
                return r
            if l is not None and r is not None:
                return l | r
            return None
        if isinstance(e, ast.BinOp) and isinstance(e.op, ast.Add):
            l = self.of(e.left, fn, at, depth + 1, seen)
            r = self.of(e.right, fn, at, depth + 1, seen)
            return None if (l is None or r is None) else (l | r)
        if isinstance(e, ast.IfExp):
            l = self.of(e.body, fn, at, depth + 1, seen)
            r = self.of(e.orelse, fn, at, depth + 1, seen)
            return None if (l is None or r is None) else (l | r)
        if isinstance(e, ast.Attribute) and e.attr == "cType":
            return set()  # another problem's letters: produced (and counted) where that problem was built
        if isinstance(e, ast.Call):
            m = au.method_name(e)
            if m == "replace" and isinstance(e.func, ast.Attribute) and len(e.args) >= 2 \
                    and au.const_str(e.args[0]) is not None and au.const_str(e.args[1]) is not None:
                base = self.of(e.func.value, fn, at, depth + 1, seen)
                if base is None:
                    base = set(ALPHABET) if au.terminal(e.func.value) == "cType" else None
                if base is None:
                    return None
                if au.terminal(e.func.value) == "cType":
                    base = set(ALPHABET)   # whatever the inner problem carried
                return (base - set(au.const_str(e.args[0]))) | set(au.const_str(e.args[1]))
            if m == "join" and isinstance(e.func, ast.Attribute):
                return None
            return None
        if isinstance(e, ast.Name):
            ff = self.ctx.flow(fn)
            defs = ff.defs(e.id, at)
            if not defs:
                return None
            out = set()
            for d in defs:
                if d in seen:
                    continue
                seen.add(d)
                r = self._of_def(d, fn, depth, seen)
                if r is None:
                    return None
                out |= r
            return out
        return None

    def _maybe_str(self, e, fn, at) -> bool:
        if isinstance(e, ast.Constant):
            return isinstance(e.value, str)
        return True

    def _of_def(self, d, fn, depth, seen):
        if d.kind == "assign":
            return self.of(d.value, fn, d.node, depth + 1, seen)
        if d.kind == "aug":
            cur = self.of(d.value, fn, d.node, depth + 1, seen)
            if cur is None:
                return None
            for pd_ in d.prev:
                if pd_ in seen:
                    continue
                seen.add(pd_)
                r = self._of_def(pd_, fn, depth + 1, seen)
                if r is None:
                    return None
                cur |= r
            return cur
        if d.kind == "param":
            calls = self.callers(fn)
            if not calls:
                return None
            out = set()
            for cf, c in calls:
                arg = self._bound_arg(c, fn, d.name)
                if arg is None:
                    q = fn.param(d.name)
                    if q is not None and q.has_default:
                        arg = q.default
                        r = self.of(arg, fn, fn.node.body[0], depth + 1, seen)
                    else:
                        return None
                else:
                    r = self.of(arg, cf, c, depth + 1, seen)
                if r is None:
                    return None
                out |= r
            return out
        if d.kind == "unpack" and isinstance(d.value, ast.Call) and d.index is not None and len(d.index) == 1:
            out = set()
            targets = self.p.resolve_call(d.value, fn)
            if not targets:
                return None
            for t in targets:
                for st in au.walk_stmts(t.body):
                    if isinstance(st, ast.Return) and isinstance(st.value, ast.Tuple) and d.index[0] < len(st.value.elts):
                        r = self.of(st.value.elts[d.index[0]], t, st, depth + 1, seen)
                        if r is None:
                            return None
                        out |= r
                    elif isinstance(st, ast.Return):
                        return None
            return out
        return None

    def _bound_arg(self, call, fn, pname):
        for k in call.keywords:
            if k.arg == pname:
                return k.value
        params = fn.params
        off = 1 if (fn.cls is not None and fn.parent is None and params and params[0].name in ("self", "cls")) else 0
        if isinstance(call.func, ast.Name) and fn.name == "__init__":
            off = 1
        for i, a in enumerate(call.args):
            if isinstance(a, ast.Starred):
                return None
            if i + off < len(params) and params[i + off].name == pname:
                return a
        return None


def _producer_sites(ctx):
    """(fn, node, value expr) for every place a string flows into a cType carrier."""
    p = ctx.p
    for fn in p.all_functions():
        roles = local_roles(fn)
        for st in au.walk_stmts(fn.body):
            if isinstance(st, (ast.Assign, ast.AugAssign, ast.AnnAssign)) and st.value is not None:
                for t in au.stmt_targets(st):
                    if role(t, roles) == "cType" and isinstance(t, (ast.Name, ast.Attribute)):
                        yield fn, st, st.value
        for c in p.calls_in(fn):
            v = au.kwarg(c, "cType")
            if v is not None:
                yield fn, c, v
            else:
                for t in p.resolve_call(c, fn):
                    if t.name == "__init__" and t.cls is not None and t.cls.name in ("OptimProblem",) and len(c.args) >= 6:
                        yield fn, c, c.args[5]


# ------------------------------------------------------------------------------------------------ helpers for the interfaces
def _interface_branches(fn):
    """{interface literal: body} of the if-chain that dispatches on the `interface` parameter."""
    out = {}
    for st in fn.body:
        if isinstance(st, ast.If):
            for test, body in if_chain(st):
                if test is None:
                    continue
                for n in au.walk_local(test):
                    if isinstance(n, ast.Compare) and len(n.ops) == 1 and isinstance(n.ops[0], ast.Eq):
                        sides = [n.left, n.comparators[0]]
                        if any(isinstance(s, ast.Name) and s.id == "interface" for s in sides):
                            for s in sides:
                                if au.const_str(s):
                                    out[au.const_str(s)] = body
    return out


def _single_letters(leaves):
    return {eval(l[6:]) for l in leaves if l.startswith("const:") and len(l) == 9 and l[6] in "'\"" and eval(l[6:]) in ALPHABET}


def _mirror(op):
    return {ast.LtE: ast.GtE, ast.GtE: ast.LtE, ast.Lt: ast.Gt, ast.Gt: ast.Lt, ast.Eq: ast.Eq, ast.NotEq: ast.NotEq}.get(type(op), type(op))


REL_NAME = {ast.LtE: "<=", ast.GtE: ">=", ast.Eq: "==", ast.Lt: "<", ast.Gt: ">", ast.NotEq: "!="}


def _has_matmul(e):
    return any(isinstance(n, ast.BinOp) and isinstance(n.op, ast.MatMult) for n in au.walk_local(e))


def _stmts_in(body):
    return list(au.walk_stmts(body))


@analysis("translation", ["C03.a", "C03.b", "C01.c", "C03.c", "C03.d", "C03.e", "C03.i", "C03.j", "C14.m", "C18.d", "C03.k", "C18.e", "C03.l", "C18.g"])
def run(ctx):
    p = ctx.p
    opt = p.cls("OptimProblem").methods.get("optimize")
    ctx.require(opt is not None, "OptimProblem.optimize vanished")
    ff = ctx.flow(opt)
    org = ctx.origins(opt)
    branches = _interface_branches(opt)
    ctx.require(branches, "OptimProblem.optimize no longer dispatches on `interface`")

    # ================================================================== handled letters per interface
    handled = {}
    for name, body in branches.items():
        hs = set()
        for st in _stmts_in(body):
            for n in au.walk_own(st):
                if isinstance(n, ast.Compare) and len(n.ops) == 1 and isinstance(n.ops[0], ast.Eq):
                    sides = [n.left, n.comparators[0]]
                    ctype_side = None
                    for s in sides:
                        # element of self.cType: subscript of it, or a comprehension / loop variable iterating it
                        if isinstance(s, ast.Subscript) and au.terminal(s.value) == "cType":
                            ctype_side = s
                        elif isinstance(s, ast.Name):
                            for anc in p.ancestors(n):
                                if isinstance(anc, (ast.ListComp, ast.GeneratorExp, ast.SetComp)):
                                    for g in anc.generators:
                                        if s.id in au.target_names(g.target) and au.terminal(g.iter) == "cType":
                                            ctype_side = s
                                if isinstance(anc, ast.For) and s.id in au.target_names(anc.target) and au.terminal(anc.iter) == "cType":
                                    ctype_side = s
                    if ctype_side is None:
                        continue
                    other = sides[1] if sides[0] is ctype_side else sides[0]
                    lit = au.const_str(other)
                    if lit is None and isinstance(other, ast.Name):
                        vals = {au.const_str(d.value) for d in ff.defs(other.id, st) if d.kind == "assign"}
                        if vals and None not in vals:
                            hs |= vals
                            continue
                    if lit is not None:
                        hs.add(lit)
        handled[name] = hs

    # ================================================================== C03.a produced letters
    L = Letters(ctx)
    n_sites = 0
    produced = set()
    for fn, node, val in _producer_sites(ctx):
        n_sites += 1
        letters = L.of(val, fn, node)
        if letters is None:
            ctx.ob("C03.a", fn, au.short(node, 100), None, "cannot enumerate the letters of this expression", node=node)
            continue
        produced |= letters
        bad = {}
        for iname, hs in handled.items():
            if hs and (letters - hs):
                bad[iname] = sorted(letters - hs)
        ctx.ob("C03.a", fn, au.short(node, 100), not bad,
               "row letter(s) %s can reach OptimProblem.optimize but are not translated by interface(s) %s: such rows are "
               "silently dropped (cvxpy branch has no else) or rejected" % (sorted({x for v in bad.values() for x in v}), sorted(bad)),
               node=node, trivial=not letters)
    for iname, hs in sorted(handled.items()):
        ctx.ob("C03.a", opt, "interface %s handles %s" % (iname, "".join(sorted(hs))), bool(hs) and ALPHABET <= hs,
               "interface %s does not translate letter(s) %s of the documented alphabet U L S N" % (iname, sorted(ALPHABET - hs)))

    # ================================================================== C03.b relations
    for iname, body in sorted(branches.items()):
        stmts = _stmts_in(body)
        seen_letters = set()
        # -- cvxpy style: comparisons with a matrix product
        for st in stmts:
            for n in au.walk_own(st):
                if isinstance(n, ast.Compare) and len(n.ops) == 1 and (_has_matmul(n.left) != _has_matmul(n.comparators[0])):
                    left, right, op = n.left, n.comparators[0], type(n.ops[0])
                    if _has_matmul(right):
                        left, right, op = right, left, _mirror(n.ops[0])
                    # the matrix operand of the product
                    mm = next(x for x in au.walk_local(left) if isinstance(x, ast.BinOp) and isinstance(x.op, ast.MatMult))
                    lm = _single_letters(org.leaves(mm.left, st))
                    lv = _single_letters(org.leaves(right, st))
                    if not lm and not lv:
                        continue  # not a row-class constraint (e.g. the robust sample constraints)
                    cons = au.short(n, 80)
                    if lm != lv:
                        ctx.ob("C03.b", opt, "%s: %s" % (iname, cons), False,
                               "matrix rows are selected by letter(s) %s but the right-hand side by %s: the row mask of A and "
                               "of b differ (or the right-hand side of these rows is not taken from b at all)" % (sorted(lm), sorted(lv)), node=n)
                        seen_letters |= lm
                        if "N" in lm:   # for C01 only the relation matters: nodal rows built by the portfolio have b = 0
                            ctx.ob("C01.c", opt, "%s: letter N" % iname, REL_NAME.get(op, "?") == "==",
                                   "nodal rows must be equalities, found %s" % REL_NAME.get(op, "?"), node=n)
                        continue
                    if len(lm) != 1:
                        ctx.ob("C03.b", opt, "%s: %s" % (iname, cons), None, "cannot attribute the constraint to a single letter %s" % sorted(lm), node=n)
                        continue
                    letter = next(iter(lm))
                    seen_letters.add(letter)
                    want = ROW_LETTERS[letter]
                    got = REL_NAME.get(op, "?")
                    ok = (got == want)
                    ctx.ob("C03.b", opt, "%s: letter %s" % (iname, letter), ok,
                           "rows of type %s must be translated as  A x %s b  but the constraint is  A x %s b" % (letter, want, got), node=n)
                    if letter == "N":
                        ctx.ob("C01.c", opt, "%s: letter N" % iname, ok, "nodal rows must be equalities (A x == 0), found %s" % got, node=n)
        # -- ortools style: RowConstraint(lb, ub) per letter
        done_tests = set()
        for st in stmts:
            if isinstance(st, ast.If):
                for test, b in if_chain(st):
                    if test is None or id(test) in done_tests:
                        continue
                    done_tests.add(id(test))
                    letters = set()
                    for n in au.walk_local(test):
                        if isinstance(n, ast.Compare) and len(n.ops) == 1 and isinstance(n.ops[0], ast.Eq):
                            for s, o in ((n.left, n.comparators[0]), (n.comparators[0], n.left)):
                                if isinstance(s, ast.Subscript) and au.terminal(s.value) == "cType" and au.const_str(o) in ALPHABET:
                                    letters.add(au.const_str(o))
                    if not letters:
                        continue
                    rc = [n for s2 in au.walk_stmts(b) for n in au.walk_own(s2) if isinstance(n, ast.Call) and au.method_name(n) == "RowConstraint"]
                    if not rc:
                        continue
                    call = rc[0]
                    if len(call.args) < 2:
                        continue

                    def kind(e):
                        neg = False
                        if isinstance(e, ast.UnaryOp) and isinstance(e.op, ast.USub):
                            neg, e = True, e.operand
                        if any(isinstance(x, ast.Subscript) and au.terminal(x.value) == "b" for x in au.walk_local(e)):
                            return "-b" if neg else "b"
                        lv = org.leaves(e, st)
                        if any("infinity" in l for l in lv) or (isinstance(e, ast.Name) and "inf" in e.id.lower()):
                            return "-inf" if neg else "+inf"
                        return "?"
                    lo, hi = kind(call.args[0]), kind(call.args[1])
                    for letter in sorted(letters):
                        seen_letters.add(letter)
                        want = {"U": ("-inf", "b"), "L": ("b", "+inf"), "S": ("b", "b"), "N": ("b", "b")}[letter]
                        ok = (lo, hi) == want
                        if "?" in (lo, hi):
                            ok = None
                        ctx.ob("C03.b", opt, "%s: letter %s" % (iname, letter), ok,
                               "rows of type %s need bounds (%s, %s) but RowConstraint is built with (%s, %s)" % (letter, want[0], want[1], lo, hi),
                               node=call)
                        if letter == "N":
                            ctx.ob("C01.c", opt, "%s: letter N" % iname, ok, "nodal rows must be equalities, found bounds (%s, %s)" % (lo, hi), node=call)
        for letter in sorted(handled.get(iname, set()) - seen_letters):
            ctx.ob("C03.b", opt, "%s: letter %s" % (iname, letter), False,
                   "rows of type %s are selected but no constraint is built from them" % letter)

    # ================================================================== C03.c bounds and objective
    for iname, body in sorted(branches.items()):
        stmts = _stmts_in(body)
        var_names = set()
        for st in stmts:
            if isinstance(st, ast.Assign) and isinstance(st.value, ast.Call) and au.method_name(st.value) == "Variable":
                if au.kwarg(st.value, "boolean") is not None or (st.value.args and "c" in {au.terminal(x) for x in au.walk_local(st.value.args[0])}):
                    var_names |= set(au.target_names(st.targets[0]))
        if var_names:
            found = {"u": None, "l": None}
            for st in stmts:
                for n in au.walk_own(st):
                    if isinstance(n, ast.Compare) and len(n.ops) == 1:
                        a, b, op = n.left, n.comparators[0], type(n.ops[0])
                        if isinstance(b, ast.Name) and b.id in var_names:
                            a, b, op = b, a, _mirror(n.ops[0])
                        if isinstance(a, ast.Name) and a.id in var_names and au.path(b) in ("self.u", "self.l"):
                            found[au.path(b)[-1]] = (REL_NAME.get(op), n)
            for which, want in (("u", "<="), ("l", ">=")):
                got = found[which]
                ctx.ob("C03.c", opt, "%s: bound x %s self.%s" % (iname, want, which), bool(got) and got[0] == want,
                       "the variable bound x %s self.%s is %s" % (want, which, "missing from the constraint list" if not got else "stated as x %s self.%s" % (got[0], which)),
                       node=(got[1] if got else body[0]))
            # objective
            prob = [n for st in stmts for n in au.walk_own(st) if isinstance(n, ast.Call) and au.method_name(n) == "Problem"]
            for pc in prob:
                if not pc.args or not isinstance(pc.args[0], ast.Call):
                    ctx.ob("C03.c", opt, "%s: objective" % iname, None, "unrecognised Problem(...) construction", node=pc)
                    continue
                direction = au.method_name(pc.args[0])
                obj = pc.args[0].args[0] if pc.args[0].args else None
                pst = ff.stmt_of(pc)
                signs = []
                if isinstance(obj, ast.Name):
                    for d in ff.defs(obj.id, pst):
                        if d.kind == "assign" and d.value is not None and "c" in {au.terminal(x) for x in au.walk_local(d.value) if isinstance(x, ast.Attribute)}:
                            signs.append(("-" if au.sign_of(d.value) < 0 else "+", d.value))
                for sg, e in signs:
                    ok = (direction, sg) in (("Maximize", "-"), ("Minimize", "+"))
                    ctx.ob("C03.c", opt, "%s: objective sign" % iname, ok,
                           "value = -c'x has to be maximised; found %s(%s)" % (direction, au.short(e, 50)), node=e)
                if not signs:
                    ctx.ob("C03.c", opt, "%s: objective sign" % iname, None, "objective expression over self.c not found", node=pc)
        else:
            # ortools style
            coef = [n for st in stmts for n in au.walk_own(st)
                    if isinstance(n, ast.Call) and au.method_name(n) == "SetCoefficient" and len(n.args) == 2
                    and any(au.path(x) == "self.c" for x in au.walk_local(n.args[1]))]
            mx = any(isinstance(n, ast.Call) and au.method_name(n) == "SetMaximization" for st in stmts for n in au.walk_own(st))
            mn = any(isinstance(n, ast.Call) and au.method_name(n) == "SetMinimization" for st in stmts for n in au.walk_own(st))
            for c in coef:
                neg = au.sign_of(c.args[1]) < 0
                ok = (mx and neg and not mn) or (mn and not neg and not mx)
                ctx.ob("C03.c", opt, "%s: objective sign" % iname, ok,
                       "value = -c'x has to be maximised; found coefficient %s with %s" % (au.short(c.args[1], 40), "SetMaximization" if mx else ("SetMinimization" if mn else "no direction")), node=c)
            numvar = [n for st in stmts for n in au.walk_own(st) if isinstance(n, ast.Call) and au.method_name(n) in ("NumVar", "IntVar") and len(n.args) >= 2]
            for c in numvar:
                lo = any(au.path(x) == "self.l" for x in au.walk_local(c.args[0]))
                hi = any(au.path(x) == "self.u" for x in au.walk_local(c.args[1]))
                ctx.ob("C03.c", opt, "%s: %s bounds" % (iname, au.method_name(c)), lo and hi,
                       "variables must be created with (self.l[j], self.u[j]); found (%s, %s)" % (au.short(c.args[0], 30), au.short(c.args[1], 30)), node=c)

    # ================================================================== C03.d boolean selection
    for st in _stmts_in(opt.body):
        for n in au.walk_own(st):
            if isinstance(n, ast.Call) and au.method_name(n) == "Variable" and au.kwarg(n, "boolean") is None and au.kwarg(n, "integer") is not None:
                b_ = au.kwarg(n, "integer")
                from_flags = any(isinstance(x, ast.Subscript) and au.const_str(x.slice) == "bool" for x in org.nodes(b_, st))
                ctx.ob("C03.d", opt, "boolean= of the solver variable", False if from_flags else None,
                       "the variables flagged in mapping['bool'] are declared `integer=` and no longer `boolean=`: an integer variable may take any whole "
                       "number within its bounds - a flagged variable with bounds [0, 2.5] comes back as 2 (value 60.8 where the best boolean solution "
                       "is 56.8), with bounds [2, 3] a 'solution' is reported although no boolean point exists", node=n)
            if isinstance(n, ast.Call) and au.method_name(n) == "Variable" and au.kwarg(n, "boolean") is not None:
                b = au.kwarg(n, "boolean")
                nodes = org.nodes(b, st)
                has_col = any(isinstance(x, ast.Subscript) and au.const_str(x.slice) == "bool" for x in nodes)
                has_index = any(isinstance(x, ast.Attribute) and x.attr == "index" for x in nodes)
                dups = [x for x in nodes if isinstance(x, ast.Call) and au.method_name(x) in ("duplicated", "drop_duplicates")]
                by_index = all(isinstance(x.func, ast.Attribute) and au.terminal(x.func.value) == "index" for x in dups)
                # ... and nothing but the flags decides: the list may depend on the mapping only, not on bounds, costs or restrictions
                deps = sorted({x.attr for x in nodes if isinstance(x, ast.Attribute) and isinstance(x.value, ast.Name) and x.value.id == "self"
                               and x.attr in ("l", "u", "c", "A", "b", "cType")})
                ok = has_col and has_index and by_index and not deps
                why = []
                if deps:
                    why.append("the list of boolean variables also depends on self.%s: a flagged variable that is left out is continuous for the solver - "
                               "fixed by its bounds to a fractional value (a window fixed to the result of a relaxed solve: 0.5) the problem has no "
                               "feasible point, yet success is reported with the variable at 0.5" % ", self.".join(deps))
                if not has_col:
                    why.append("the list does not derive from mapping['bool']")
                if not has_index:
                    why.append("the list is not made of variable labels (mapping.index)")
                if not by_index:
                    why.append("rows are de-duplicated by content, not by index: two different variables with identical rows collapse")
                ctx.ob("C03.d", opt, "boolean= of the solver variable", ok, "; ".join(why), node=n)
        if isinstance(st, ast.Assign) and isinstance(st.value, ast.Constant) and st.value.value is False:
            for t in st.targets:
                if isinstance(t, ast.Subscript) and au.const_str(t.slice) == "bool":
                    guarded = False
                    child = st
                    for anc in p.ancestors(st):
                        if isinstance(anc, ast.If):
                            in_body = any(child is x for x in anc.body)
                            names = au.names_in(anc.test)
                            if "make_soft_problem" in names and in_body:
                                guarded = True
                            for cmp_ in au.walk_local(anc.test):
                                if isinstance(cmp_, ast.Compare) and au.const_str(cmp_.left) == "bool":
                                    neg = isinstance(cmp_.ops[0], ast.NotIn)
                                    if (neg and in_body) or (not neg and not in_body):
                                        guarded = True
                        if anc is opt.node:
                            break
                        child = anc
                    ctx.ob("C03.d", opt, "clearing of boolean flags: %s" % au.short(st, 60), guarded,
                           "the boolean flags are cleared on a path that is not guarded by make_soft_problem (or by the column "
                           "being absent): a MIP would silently be solved as an LP", node=st)

    # ---- C03.d (cont.) one source of truth for the flags inside optimize: the working copy that make_soft_problem clears
    work = set()
    for st in _stmts_in(opt.body):
        if isinstance(st, ast.Assign) and isinstance(st.value, ast.Constant) and st.value.value is False:
            for t in st.targets:
                if isinstance(t, ast.Subscript) and au.const_str(t.slice) == "bool" and isinstance(t.value, ast.Name):
                    work.add(t.value.id)
    if work:
        n_reads = 0
        for st in _stmts_in(opt.body):
            for n in au.walk_own(st):
                if isinstance(n, ast.Subscript) and au.const_str(n.slice) == "bool" and isinstance(n.ctx, ast.Load):
                    base = n.value
                    while isinstance(base, ast.Subscript) or (isinstance(base, ast.Attribute) and base.attr in ("loc", "iloc")):
                        base = base.value
                    pth = au.path(base)
                    if pth is None:
                        continue
                    n_reads += 1
                    own = pth == "self.mapping" or (isinstance(base, ast.Name) and base.id not in work and any(
                        d.value is not None and au.path(d.value) == "self.mapping" for d in ff.defs(base.id, st) if d.kind == "assign"))
                    ctx.ob("C03.j", opt, "flags read from %s" % au.short(n, 50), not own,
                           "optimize() works on a copy of the mapping (%s) in which make_soft_problem clears the flags; here the flags are read from the "
                           "problem's own mapping, where they are still set: whatever is done with the variables selected this way (rounding the "
                           "result, declaring integers) also hits a *relaxed* solve - fractional values of a relaxed MIP are rounded after the solve, "
                           "the returned vector violates bounds and rows, its value is not -c'x and the reported nodal balance is off (fuel for "
                           "on = 0.15 is delivered, the report says 0)" % ", ".join(sorted(work)), node=n,
                           key="flags are read from the working copy: %s" % au.short(base, 30))

    # ================================================================== C03.l result vectors are float
    n_l = 0
    for cname in ("OptimProblem", "SplitOptimProblem"):
        ci = p.classes.get(cname)
        of = ci.methods.get("optimize") if ci is not None else None
        if of is None:
            continue
        for st in au.walk_stmts(of.body):
            for c in au.walk_own(st):
                if isinstance(c, ast.Call) and isinstance(c.func, ast.Name) and c.func.id == "Results":
                    xa = au.arg_or_kw(c, 1, "x")
                    if xa is None:
                        continue
                    n_l += 1
                    xr = ctx.resolve(of, xa, st)
                    like = [y for y in au.walk_local(xr) if isinstance(y, ast.Call) and (au.method_name(y) or "").endswith("_like")
                            and au.kwarg(y, "dtype") is None]
                    ctx.ob("C03.l", of, "x of %s" % au.short(c, 50), not like,
                           "the result vector is created with %s: it takes the dtype of the problem data - with integer cost coefficients every "
                           "solution written into it is truncated (1.9999999 -> 1, 0.5 -> 0): the returned point violates equality rows, value != "
                           "-c'x, and it is not optimal (4.0 where 8.75 is attainable)" % (au.short(like[0], 40) if like else ""), node=c,
                           ok_detail="no dtype inherited from problem data")
    if n_l == 0:
        ctx.ob("C03.l", "optimization", "result vectors", None, "no Results(...) construction found")

    # ================================================================== C03.k NaN is not a flag
    n_k = 0
    for fn2 in sorted(p.all_functions(), key=lambda f: f.qualname):
        for st in au.walk_stmts(fn2.body):
            for n in au.walk_own(st):
                if not (isinstance(n, ast.Subscript) and au.const_str(n.slice) == "bool" and isinstance(n.ctx, ast.Load)):
                    continue
                # the chain of method calls / attribute reads applied to the column
                cur, chain = n, []
                while True:
                    par = p.parent(cur)
                    if isinstance(par, ast.Attribute) and par.value is cur:
                        chain.append(par.attr)
                        cur = par
                    elif isinstance(par, ast.Call) and par.func is cur:
                        chain[-1] = (chain[-1], par)
                        cur = par
                    else:
                        break
                par = p.parent(cur)
                n_k += 1
                cast = None
                filled = False
                for c in chain:
                    nm, call = (c if isinstance(c, tuple) else (c, None))
                    if nm in ("fillna",):
                        filled = True
                    if nm == "astype" and call is not None and call.args and au.U(call.args[0]) in ("bool", "'bool'", "np.bool_") and not filled:
                        cast = call
                if isinstance(par, ast.Call) and isinstance(par.func, ast.Name) and par.func.id == "bool":
                    cast = par
                ctx.ob("C03.k", fn2, au.short(cur, 70), cast is None,
                       "the 'bool' column is cast with %s: rows of assets that have no boolean variables carry NaN there (the column is of type object "
                       "after frames were concatenated), and NaN casts to True - every variable of those assets is treated as boolean (declared "
                       "integer for the solver, or rounded / pinned as one): success is reported for a point that is not optimal for the assembled "
                       "problem (value -11 where 252 is feasible)" % (au.short(cast, 30) if cast is not None else ""), node=n,
                       ok_detail="compared / used as a mask without a bare cast")
    ctx.require(n_k >= 1, "no read of a 'bool' column found", rules=["C03.k"])

    # ================================================================== C18.d duals of a re-scaled objective
    objs = [st for st in _stmts_in(opt.body) if isinstance(st, ast.Assign) and isinstance(st.targets[0], ast.Name)
            and any(isinstance(x, ast.BinOp) and isinstance(x.op, ast.MatMult) for x in au.walk_local(st.value))
            and any(au.path(x) == "self.c" for x in au.walk_local(st.value))
            and not any(isinstance(x, ast.Compare) for x in au.walk_local(st.value))]
    dual_reads = [(st, x) for st in _stmts_in(opt.body) for x in au.walk_own(st) if isinstance(x, ast.Attribute) and x.attr == "dual_value"]
    if not objs or not dual_reads:
        ctx.ob("C18.d", opt, "objective / duals", None, "objective over self.c or the reads of dual_value not found")
    for st in objs:
        factors = set()
        for x in au.walk_local(st.value):
            if isinstance(x, ast.BinOp) and isinstance(x.op, (ast.Div, ast.Mult)) and any(au.path(y) == "self.c" for y in au.walk_local(x)):
                other = x.right if any(au.path(y) == "self.c" for y in au.walk_local(x.left)) else x.left
                if isinstance(other, ast.BinOp) and isinstance(other.op, ast.MatMult):
                    continue
                if any(isinstance(y, ast.BinOp) and isinstance(y.op, ast.MatMult) for y in au.walk_local(other)):
                    continue
                if au.const_num(other) in (1, -1, 1.0, -1.0):
                    continue
                if isinstance(other, ast.Name) and other.id in ("x",):
                    continue
                factors.add(au.U(other))
        if not factors:
            ctx.ob("C18.d", opt, "objective %s" % au.short(st, 60), True, ok_detail="not re-scaled", node=st)
            continue
        back = [x for _, x in dual_reads if any(f in au.U(p.parent(x)) or f in au.U(p.enclosing_stmt(x).value if isinstance(p.enclosing_stmt(x), ast.Assign) else x)
                                                 for f in factors)]
        ctx.ob("C18.d", opt, "objective %s" % au.short(st, 60), len(back) == len(dual_reads),
               "the objective is scaled by %s before the solve, the duals are read off as they come (%s): the reported nodal prices are the marginal "
               "values divided by that factor - with a penalty price of 2e7 in the portfolio every nodal price is too small by a factor of 20, an "
               "injection raises the optimum by far more than price x d" % (", ".join(sorted(factors)), au.short(p.enclosing_stmt(dual_reads[0][1]), 60)),
               node=st)

    # ================================================================== C18.g duals per constraint object, not cut out of a joint vector
    cuts = []
    for x in au.walk_local(opt.node, include_self=False):
        if isinstance(x, ast.Subscript) and isinstance(x.slice, ast.Slice):
            inside = [y for b_ in (x.slice.lower, x.slice.upper) if b_ is not None for y in ast.walk(b_)]
            if any(isinstance(y, ast.Call) and au.method_name(y) == "count" and "cType" in au.U(y.func) for y in inside):
                cuts.append(x)
    n_dv = len([x for x in au.walk_local(opt.node, include_self=False) if isinstance(x, ast.Attribute) and x.attr == "dual_value"])
    ctx.ob("C18.g", opt, "duals are read per constraint object", not cuts and n_dv >= 1,
           ("%s cuts the duals of one row type out of a joint vector by counting letters of cType: the rows of a joint block are in matrix order "
            "(inner 'S' rows of a structured asset come before the 'N' rows), a cut in any other order hands the nodal prices the duals of "
            "other rows (price 10 reported where the marginal value is 25)" % au.short(cuts[0], 60)) if cuts else "no .dual_value read found in optimize()",
           node=(cuts[0] if cuts else opt.node))

    # ================================================================== C18.e sign chain of the nodal price
    s_con = s_obj = s_dir = s_rep = s_con_n = None
    for st in _stmts_in(opt.body):
        for n in au.walk_own(st):
            if isinstance(n, ast.Compare) and len(n.ops) == 1 and isinstance(n.ops[0], ast.Eq):
                lmm = any(isinstance(x, ast.BinOp) and isinstance(x.op, ast.MatMult) for x in au.walk_local(n.left))
                rmm = any(isinstance(x, ast.BinOp) and isinstance(x.op, ast.MatMult) for x in au.walk_local(n.comparators[0]))
                if lmm != rmm:
                    # the block of the nodal letter: the nearest preceding `<name> = "<letter>"`; without that idiom all equality blocks have to agree
                    letters = [(a.lineno, au.const_str(a.value)) for a in _stmts_in(opt.body) if isinstance(a, ast.Assign) and au.const_str(a.value) in ROW_LETTERS
                               and a.lineno <= n.lineno]
                    letter = max(letters)[1] if letters else None
                    sc = 1 if lmm else -1
                    if letter == "N":
                        s_con_n = sc
                    elif letter is None:
                        s_con = sc if s_con in (None, sc) else 0
            if isinstance(n, ast.Call) and au.method_name(n) in ("Maximize", "Minimize"):
                s_dir = 1 if au.method_name(n) == "Maximize" else -1
    for st in objs:
        s_obj = au.sign_of(st.value)
    io_fn2 = p.fn_opt("io.extract_output")
    if io_fn2 is not None:
        for st in au.walk_stmts(io_fn2.body):
            if isinstance(st, ast.Assign) and any(isinstance(x, ast.Subscript) and au.const_str(x.slice) == "N" and au.terminal(x.value) == "duals" for x in au.walk_local(st.value)):
                s_rep = au.sign_of(st.value)
    s_con = s_con_n if s_con_n is not None else s_con
    if None in (s_con, s_obj, s_dir, s_rep) or s_con == 0:
        ctx.ob("C18.e", opt, "sign chain of the nodal price", None,
               "not all of: orientation of the equality rows, objective over self.c, direction, report of duals['N'] were found (%s)" % ((s_con, s_obj, s_dir, s_rep),))
    else:
        ctx.ob("C18.e", opt, "sign chain of the nodal price", s_con * s_obj * s_dir * s_rep == 1,
               "equality rows are written with A x on the %s, the objective is %sc'x, %s, and the report takes %sduals['N']: one of the four was "
               "flipped without the others - the price reported for a node is the negative of the marginal value of an injection there (re-optimising "
               "with +d at a node whose reported price is 20 changes the value by -20 d)" % (
                   "left" if s_con > 0 else "right", "-" if s_obj < 0 else "+", "maximised" if s_dir > 0 else "minimised", "-" if s_rep < 0 else "+"),
               node=opt.node, ok_detail="A x == b, maximise -c'x, report -dual")

    # ================================================================== C14.m the empty problem
    creates = [(st, n) for st in _stmts_in(opt.body) for n in au.walk_own(st) if isinstance(n, ast.Call) and au.method_name(n) in ("Variable", "CreateSolver")]
    if not creates:
        ctx.ob("C14.m", opt, "empty problem", None, "creation of the solver variable not found")
    else:
        first = min(st.lineno for st, _ in creates)
        guards = []
        for st in opt.body:
            if st.lineno >= first or not isinstance(st, ast.If):
                continue
            mentions_n = any((isinstance(x, ast.Attribute) and au.path(x) in ("self.c", "self.l", "self.u")) for x in au.walk_local(st.test))
            sized = any(isinstance(x, ast.Call) and au.method_name(x) == "len" for x in au.walk_local(st.test)) or \
                any(isinstance(x, ast.Attribute) and x.attr in ("shape", "size") for x in au.walk_local(st.test))
            leaves = any(isinstance(x, ast.Return) for x in au.walk_stmts(st.body))
            if mentions_n and sized and leaves:
                guards.append(st)
        ctx.ob("C14.m", opt, "a problem without variables is answered before the solver variable is created", bool(guards),
               "optimize() hands every problem to the solver interface: with no variables (no asset active in an interval of a split "
               "optimisation - all assets start later) cvxpy raises 'Invalid dimensions (0,)'. The unsplit problem over the same horizon is "
               "solved, the split one raises although nothing couples the intervals", node=creates[0][1],
               ok_detail="guard at %s" % (p.where(guards[0]) if guards else ""))

    # ================================================================== C03.e status discipline
    for iname, body in sorted(branches.items()):
        for st in _stmts_in(body):
            for n in au.walk_own(st):
                if isinstance(n, ast.Call) and isinstance(n.func, ast.Name) and n.func.id == "Results":
                    verdict, why = _status_guard(p, n, opt, ff)
                    if verdict == "note":
                        ctx.note("C03.e", opt, "%s: %s" % (iname, why), "a merely feasible solution is returned as a success (ortools FEASIBLE)", node=n)
                    else:
                        ctx.ob("C03.e", opt, "%s: Results(...) under %s" % (iname, why), verdict,
                               "a Results object (= success) is built on a path whose status guard is %s; success may only be "
                               "reported for status optimal" % why, node=n)

    # ================================================================= C03.i swallowed solver errors
    optf = p.fn_opt("OptimProblem.optimize")
    if optf is not None:
        solves = [c for c in au.walk_local(optf.node, include_self=False) if isinstance(c, ast.Call) and au.method_name(c) in ("solve", "Solve")]
        swallowed = []
        for c in solves:
            for a in p.ancestors(c):
                if isinstance(a, ast.Try) and any(c is x for b0 in a.body for x in ast.walk(b0)):
                    for h in a.handlers:
                        retry = any(isinstance(x, ast.Call) and au.method_name(x) in ("solve", "Solve") for b0 in h.body for x in ast.walk(b0))
                        if not retry and not any(isinstance(x, (ast.Raise, ast.Return)) for x in au.walk_stmts(h.body)):
                            swallowed.append((c, h))
                if a is optf.node:
                    break
        ctx.ob("C03.i", optf, "solver errors are not swallowed", not swallowed,
               "the call %s sits in a try whose handler neither re-raises nor returns: after a solver error (e.g. a MIP handed to an LP-only "
               "solver) the status is None / not optimal and optimize() answers 'not successful' - a claim that the problem has no feasible "
               "point, although nothing was solved" % (au.short(swallowed[0][0], 50) if swallowed else ""), node=(swallowed[0][1] if swallowed else optf.node),
               ok_detail="%d solve call(s), none inside a swallowing try" % len(solves))


def _is_status(e, ff, at) -> bool:
    """a solver status: <problem>.status, or a local bound to the result of .Solve() / to a .status attribute"""
    if isinstance(e, ast.Attribute):
        return e.attr == "status"
    if isinstance(e, ast.Name) and ff is not None:
        for d in ff.defs(e.id, at):
            v = d.value
            if isinstance(v, ast.Call) and au.method_name(v) in ("Solve", "solve"):
                return True
            if isinstance(v, ast.Attribute) and v.attr == "status":
                return True
    return False


def _status_guard(p, node, fn, fn_flow=None):
    """Classify the innermost status comparison guarding `node`."""
    child = node
    for anc in p.ancestors(node):
        if isinstance(anc, ast.If):
            in_body = any(child is x or any(child is y for y in ast.walk(x)) for x in anc.body)
            for c in au.walk_local(anc.test):
                if isinstance(c, ast.Compare) and len(c.ops) == 1:
                    l, r = c.left, c.comparators[0]
                    if _is_status(l, fn_flow, anc) or _is_status(r, fn_flow, anc):
                        other = r if _is_status(l, fn_flow, anc) else l
                        if not in_body:
                            return False, "the else-branch of a status test"
                        if isinstance(c.ops[0], ast.Eq):
                            if au.const_str(other) == "optimal" or au.terminal(other) == "OPTIMAL":
                                return True, "status == optimal"
                            if au.terminal(other) == "FEASIBLE":
                                return "note", "status == FEASIBLE"
                            return False, "status == %s" % au.short(other, 30)
                        if isinstance(c.ops[0], ast.In) and isinstance(other, (ast.Tuple, ast.List, ast.Set)):
                            vals = [au.const_str(e) for e in other.elts]
                            if all(v == "optimal" for v in vals):
                                return True, "status in (optimal)"
                            return False, "status in %s" % vals
                        return False, "status %s ..." % type(c.ops[0]).__name__
        if anc is fn.node:
            break
        child = anc
    return False, "no status test"
