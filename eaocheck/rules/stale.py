"""Analysis 4 - stale loop binding (C05.b, also reported as C09.c).

A name bound by a `for` loop is *stale* once that loop has ended.  Using it inside the body of a **different** loop
means every iteration of that second loop sees the same left-over value (the last element of the first loop) - the
result then depends on the order of the first loop's iterable (asset / node order), which is what C09 forbids, and a
report row is selected by another object's identity, which is what C05 forbids for the storage report.

Using a loop variable after its loop at the same nesting level ("the last element") is an accepted Python idiom and is
not reported; only the use inside another loop's body is.  Comprehension variables never leak and are ignored.
"""
from __future__ import annotations
import ast
from .. import astutil as au
from ..flow import Domain, Walker
from ..tables import rule
from . import analysis

rule("C05.b", "no name left over from a finished loop is used inside the body of another loop (a report row selected "
              "through a stale binding depends on iteration order)", floor=30, props=["C05", "C09"])


class _Stale(Domain):
    """state: dict name -> frozenset of loop nodes whose (finished) iteration bound the name; absent = fresh."""

    def initial(self, fn):
        return {}

    def join(self, a, b):
        if a is b:
            return a
        out = dict(a)
        for k, v in b.items():
            out[k] = out.get(k, frozenset()) | v
        return out

    def stmt(self, s, node):
        st = self.stored_names(node)
        if st and any(n in s for n in st):
            s = {k: v for k, v in s.items() if k not in st}
        return s

    def bind_loop(self, s, node):
        names = set(au.target_names(node.target))
        if any(n in s for n in names):
            s = {k: v for k, v in s.items() if k not in names}
        return s

    def bind_with(self, s, node):
        names = set()
        for it in node.items:
            if it.optional_vars is not None:
                names |= set(au.target_names(it.optional_vars))
        return {k: v for k, v in s.items() if k not in names} if names & set(s) else s


class _W(Walker):
    def __init__(self, d):
        super().__init__(d)
        self.loop_stack = []
        self.hits = []   # (name node, binding loops, using loop)

    def _loop(self, node, s, is_for):
        self.loop_stack.append(node)
        out = super()._loop(node, s, is_for)
        self.loop_stack.pop()
        if is_for and out is not None:
            out = dict(out)
            for nm in au.target_names(node.target):
                out[nm] = out.get(nm, frozenset()) | frozenset([node])
        return out


def _loads(node):
    """Name loads in a statement's own expressions (not in nested statements, not comprehension-bound names)."""
    comp_bound = set()
    for n in au.walk_local(node):
        if isinstance(n, (ast.ListComp, ast.SetComp, ast.DictComp, ast.GeneratorExp)):
            for g in n.generators:
                comp_bound |= set(au.target_names(g.target))
    exprs = []
    if isinstance(node, (ast.If, ast.While)):
        exprs = [node.test]
    elif isinstance(node, (ast.For, ast.AsyncFor)):
        exprs = [node.iter]
    elif isinstance(node, (ast.With, ast.AsyncWith)):
        exprs = [i.context_expr for i in node.items]
    elif isinstance(node, (ast.Try, ast.FunctionDef, ast.AsyncFunctionDef, ast.ClassDef)):
        exprs = []
    else:
        exprs = [node]
    for e in exprs:
        for n in au.walk_local(e):
            if isinstance(n, ast.Name) and isinstance(n.ctx, ast.Load) and n.id not in comp_bound:
                yield n


@analysis("stale-binding", ["C05.b"])
def run(ctx):
    p = ctx.p
    n_loops = 0
    for fn in sorted(p.all_functions(), key=lambda f: f.qualname):
        loops = [n for n in au.walk_stmts(fn.body) if isinstance(n, (ast.For, ast.AsyncFor))]
        if not loops:
            continue
        n_loops += len(loops)
        w = _W(_Stale())
        found = {}

        def on_stmt(node, state, w=w, found=found):
            if not state or not w.loop_stack:
                return
            for n in _loads(node):
                binders = state.get(n.id)
                if not binders:
                    continue
                # stale w.r.t. the loops we are currently inside: the binder is finished and is not an enclosing loop
                enclosing = set(w.loop_stack)
                dead = [b for b in binders if b not in enclosing]
                if dead and len(dead) == len(binders):
                    found.setdefault(n.id, []).append((n, dead[0], w.loop_stack[-1]))
        w.on_stmt = on_stmt
        w.run_function(fn)
        if not found:
            ctx.ob("C05.b", fn, "loop variables", True, "%d loop(s): no left-over binding is used inside another loop" % len(loops))
            continue
        for name, uses in sorted(found.items()):
            n, binder, user = uses[0]
            lines = sorted({u[0].lineno for u in uses})
            ctx.ob("C05.b", fn, "name %s" % name, False,
                   "%r is bound by the loop `for %s in %s` (line %s), which has ended; it is used inside the later loop "
                   "`for %s in %s` (lines %s): every iteration sees the value left over from the last element of the "
                   "first loop" % (name, au.U(binder.target), au.short(binder.iter, 50), binder.lineno,
                                   au.U(user.target) if isinstance(user, ast.For) else "?",
                                   au.short(user.iter, 50) if isinstance(user, ast.For) else "?", lines), node=n)
    ctx.require(n_loops >= 60, "fewer than 60 for-loops in the package (parse problem?)")
