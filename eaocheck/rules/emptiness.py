"""Analysis 18 - empty-window safety (C08.c).

An asset whose window does not overlap the horizon has a restricted grid of length zero.  A constant-index access
([0], [-1]) or a reduction (min / max / argmin / argmax, built-in max()/min()) over an array of restricted-grid length -
or over a masked selection that can be empty - must be dominated by an emptiness guard: an early exit
(return / raise / continue / break) whose test mentions a carrier of that length (len(dt) == 0, restricted.T == 0,
not I.any(), ...).  Private helpers are guarded when every call site is.
"""
from __future__ import annotations
import ast
from .. import astutil as au
from ..flow import Domain, Walker
from ..tables import rule
from . import analysis
from .spaces import Typer, TIMER

rule("C08.c", "constant-index accesses and reductions over arrays of restricted-grid length (or possibly empty selections) "
              "are dominated by an emptiness guard, so an asset outside the horizon is inert instead of raising", floor=6)

REDUCTIONS = {"min", "max", "argmin", "argmax"}


def _mentions_restricted_len(ty, test, st) -> bool:
    for n in au.walk_local(test):
        if isinstance(n, ast.Attribute):
            c = au.attr_chain(n)
            if c and "restricted" in c and c[-1] in ("T", "I", "dt", "timepoints"):
                return True
        if isinstance(n, (ast.Name, ast.Attribute, ast.Subscript)):
            t = ty.typ(n, st)
            if t and t[0] == "arr" and t[1] == TIMER:
                return True
            if t and t[0] == "idx" and t[1] == "mask":
                return True
    return False


class _Guard(Domain):
    """state: True once an emptiness guard has been passed on every path."""

    def __init__(self, ty, entry=False):
        self.ty, self.entry = ty, entry

    def initial(self, fn):
        return self.entry

    def join(self, a, b):
        return a and b


class _W(Walker):
    def __init__(self, d, ty):
        super().__init__(d)
        self.ty = ty
        self.mask_guards = {}   # id(stmt) -> set of mask names tested empty with an early exit before it (same block)

    def s_If(self, node, s):
        st = self.d.refine(s, node.test, True)
        sf = self.d.refine(s, node.test, False)
        a = self.block(node.body, st) if st is not None else None
        b = self.block(node.orelse, sf) if sf is not None else None
        if a is None and not node.orelse and b is not None and _mentions_restricted_len(self.ty, node.test, node):
            b = True   # the body left (return / raise / continue / break): what follows runs with a non-empty grid
        return self._j(a, b)


def _sites(ty, fn):
    """(node, kind) of constant-index accesses / reductions over restricted-length arrays or masked selections."""
    for st in au.walk_stmts(fn.body):
        for n in au.walk_own(st):
            if isinstance(n, ast.Subscript) and isinstance(n.ctx, ast.Load):
                k = au.const_num(n.slice)
                if k in (0, -1):
                    t = ty.typ(n.value, st)
                    if t and t[0] == "arr" and t[1] == TIMER:
                        yield st, n, "constant index [%d] into an array of restricted-grid length" % k, None
            elif isinstance(n, ast.Call):
                m = au.method_name(n)
                if m in REDUCTIONS:
                    arg = None
                    if isinstance(n.func, ast.Attribute) and au.dotted(n.func.value) not in ("np", "numpy", "pd"):
                        arg = n.func.value
                    elif n.args and len(n.args) == 1:
                        arg = n.args[0]
                    if arg is None:
                        continue
                    t = ty.typ(arg, st)
                    if t and t[0] == "arr" and t[1] == TIMER:
                        # x[mask] keeps the space: is it a masked selection?
                        mask = None
                        if isinstance(arg, ast.Subscript):
                            tk = ty.typ(arg.slice, st)
                            if tk and tk[0] == "idx" and tk[1] == "mask":
                                mask = arg.slice
                        yield st, n, "reduction %s() over an array of restricted-grid length" % m, mask
                    elif isinstance(arg, ast.Subscript):
                        tk = ty.typ(arg.slice, st)
                        tb = ty.typ(arg.value, st)
                        if tk and tk[0] == "idx" and tk[1] == "mask" and tb and tb[0] == "arr":
                            yield st, n, "reduction %s() over a masked selection that may be empty" % m, arg.slice


rule("C05.s", "argmin / argmax of a boolean mask stands for 'position of the first False / True' only where such an element is known to exist "
              "(a guard on any / all of the same mask): both return 0 for 'none' and for 'the very first one' - a test `position > 0` drops the "
              "case that the first element already qualifies (a step longer than the maximum holding time gets no restriction at all)", floor=0,
     props=["C05", "C12", "C08"])


def _mask_extremes(ctx):
    p = ctx.p
    n = 0
    for fn in sorted(p.all_functions(), key=lambda f: f.qualname):
        ff = None
        for st in au.walk_stmts(fn.body):
            for c in au.walk_own(st):
                if not (isinstance(c, ast.Call) and au.method_name(c) in ("argmin", "argmax")):
                    continue
                operand = c.func.value if (isinstance(c.func, ast.Attribute) and not (isinstance(c.func.value, ast.Name) and c.func.value.id in ("np", "numpy"))) else (c.args[0] if c.args else None)
                if operand is None:
                    continue
                ff = ff or ctx.flow(fn)
                e = ctx.resolve(fn, operand, st)
                if isinstance(e, ast.UnaryOp) and isinstance(e.op, ast.Invert):
                    e = ctx.resolve(fn, e.operand, st)
                is_mask = isinstance(e, ast.Compare) or (isinstance(e, ast.BinOp) and isinstance(e.op, (ast.BitAnd, ast.BitOr)) and any(isinstance(y, ast.Compare) for y in au.walk_local(e)))
                if not is_mask:
                    continue
                n += 1
                names = au.names_in(operand)
                guarded = False
                for a in p.ancestors(c):
                    if isinstance(a, (ast.If, ast.While)) and any(isinstance(y, ast.Call) and au.method_name(y) in ("any", "all") and (au.names_in(y) & names) for y in au.walk_local(a.test)):
                        guarded = True
                # an earlier `if not any(mask): continue / return / raise`
                for s2 in au.walk_stmts(fn.body):
                    if s2.lineno < st.lineno and isinstance(s2, ast.If) and s2.body and isinstance(s2.body[-1], (ast.Continue, ast.Break, ast.Return, ast.Raise)) and any(
                            isinstance(y, ast.Call) and au.method_name(y) in ("any", "all") and (au.names_in(y) & names) for y in au.walk_local(s2.test)):
                        guarded = True
                ctx.ob("C05.s", fn, au.short(c, 70), guarded,
                       "%s is used as the position of the first %s of a mask, but it is 0 both when there is none and when the first element is one: "
                       "without a guard on any() / all() of the mask the two cases cannot be told apart - a window whose very first step is already longer "
                       "than max_store_duration is treated like 'no step outside the window' and gets no restriction (level non-zero for 31 days with a "
                       "limit of 30)" % (au.short(c, 40), "False" if au.method_name(c) == "argmin" else "True"), node=c)
    if n == 0:
        ctx.ob("C05.s", "package", "argmin / argmax of masks", True, ok_detail="no argmin / argmax over a boolean mask")


@analysis("emptiness", ["C08.c", "C05.s"])
def run(ctx):
    _mask_extremes(ctx)
    p = ctx.p
    # guard state at call sites of private helpers
    results = {}     # fn -> (walker, typer)

    def walk(fn, entry=False):
        ty = Typer(ctx, fn)
        w = _W(_Guard(ty, entry), ty)
        w.run_function(fn)
        return w, ty

    helper_entry = {}
    fns = [f for f in p.all_functions() if f.parent is None]
    base = {f: walk(f) for f in fns}
    # private helpers: guarded if every call site (in set-up methods) is guarded
    for f in fns:
        if f.cls is None or not f.name.startswith("_") or f.name.startswith("__"):
            continue
        call_states = []
        for g in fns:
            if g.cls is None or f.cls not in p.mro(g.cls) and g.cls not in p.mro(f.cls):
                continue
            w, _ = base[g]
            for st in au.walk_stmts(g.body):
                for n in au.walk_own(st):
                    if isinstance(n, ast.Call) and au.call_name(n) == "self." + f.name:
                        call_states.append(bool(w.before.get(st, False)))
        if call_states and all(call_states):
            helper_entry[f] = True
    n = 0
    for f in sorted(fns, key=lambda x: x.qualname):
        w, ty = base[f] if f not in helper_entry else walk(f, True)
        for st, node, kind, mask in _sites(ty, f):
            n += 1
            guarded = bool(w.before.get(st, False))
            how = "dominated by an emptiness guard" + (" at every call site of this helper" if f in helper_entry else "")
            if not guarded and mask is not None:
                # local guard on the selector itself: an earlier statement of the same block exits when the mask is empty
                par = p.parent(st)
                blocks = [getattr(par, fld, None) for fld in ("body", "orelse", "finalbody")] if par is not None else []
                for blk in blocks:
                    if blk and st in blk:
                        for prev in blk[: blk.index(st)]:
                            if isinstance(prev, ast.If) and not prev.orelse and prev.body and isinstance(prev.body[-1], (ast.Continue, ast.Break, ast.Return, ast.Raise)):
                                if au.names_in(mask) & au.names_in(prev.test) and any(
                                        isinstance(x, ast.Call) and au.method_name(x) in ("any", "sum", "len", "all") for x in au.walk_local(prev.test)):
                                    guarded = True
                                    how = "the selector is tested for emptiness first (%s)" % au.short(prev.test, 40)
            ctx.ob("C08.c", f, au.short(node, 80), guarded,
                   "%s without a dominating emptiness guard: for an asset whose window lies outside the horizon (restricted grid of "
                   "length 0) this raises IndexError / ValueError instead of yielding an inert asset (the sibling Storage returns "
                   "an empty problem)" % kind, node=node, ok_detail=how)
    ctx.require(n >= 6, "fewer than 6 constant-index / reduction sites over restricted-grid arrays found")
